#!/bin/sh
# offline setup: build the driver, warm the dependency cache and export facts for /repo's current tree
set -e
cd "$(dirname "$0")"
export CARGO_NET_OFFLINE=true
(cd dfscan && cargo build --release --offline)
python3 rules/scan.py
./check --selftest-build >/dev/null 2>&1 || true
