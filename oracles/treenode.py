"""The documented recursion contract of TreeNodeRecursion (datafusion_common::tree_node docs):
  Continue : go on normally.
  Jump     : pre-order: skip the children of the current node, then continue (the jump is consumed);
             post-order: skip the parents' post-visit up to the next unvisited sibling branch.
  Stop     : stop everything.
For each combinator: (continuation called?, recursion value when NOT called)"""
CONTRACT = {
    'children': {'Continue': (True, None), 'Jump': (False, 'Continue'), 'Stop': (False, 'Stop')},
    'sibling': {'Continue': (True, None), 'Jump': (True, None), 'Stop': (False, 'Stop')},
    'parent': {'Continue': (True, None), 'Jump': (False, 'Jump'), 'Stop': (False, 'Stop')},
}
