"""3-valued (SQL) reference semantics of binary operators over tiny domains.
None = SQL NULL.  Used to derive what `negate`, `swap` and
`returns_null_on_null` are allowed to say.  Operators the model does not know
are absent from SEM: the code must then be silent (None / conservative) about
them or the rule reports 'model cannot justify'."""
import itertools
from fractions import Fraction

INTS = [None, 0, 1, 2]
BOOLS = [None, False, True]
SETS = [None, frozenset(), frozenset([0]), frozenset([0, 1])]


def lift(f):
    return lambda a, b: None if a is None or b is None else f(a, b)


def and3(a, b):
    if a is False or b is False:
        return False
    if a is None or b is None:
        return None
    return True


def or3(a, b):
    if a is True or b is True:
        return True
    if a is None or b is None:
        return None
    return False


def not3(x):
    return None if x is None else (not x)


# operator -> (domain, function, result_is_boolean)
SEM = {
    'Eq': (INTS, lift(lambda a, b: a == b), True),
    'NotEq': (INTS, lift(lambda a, b: a != b), True),
    'Lt': (INTS, lift(lambda a, b: a < b), True),
    'LtEq': (INTS, lift(lambda a, b: a <= b), True),
    'Gt': (INTS, lift(lambda a, b: a > b), True),
    'GtEq': (INTS, lift(lambda a, b: a >= b), True),
    'IsDistinctFrom': (INTS, lambda a, b: a != b, True),
    'IsNotDistinctFrom': (INTS, lambda a, b: a == b, True),
    'And': (BOOLS, and3, True),
    'Or': (BOOLS, or3, True),
    'Plus': (INTS, lift(lambda a, b: a + b), False),
    'Minus': (INTS, lift(lambda a, b: a - b), False),
    'Multiply': (INTS, lift(lambda a, b: a * b), False),
    'AtArrow': (SETS, lift(lambda a, b: a >= b), True),     # a @> b : a contains b
    'ArrowAt': (SETS, lift(lambda a, b: a <= b), True),     # a <@ b : a is contained by b
}

# families defined from an uninterpreted binary predicate P (pattern matching):
# X(a,b) = P(a,b) with NULL propagation; NotX = NOT X.  Laws must hold for EVERY P.
PRED_FAMILIES = {
    'LikeMatch': ('like', False), 'NotLikeMatch': ('like', True),
    'ILikeMatch': ('ilike', False), 'NotILikeMatch': ('ilike', True),
    'RegexMatch': ('re', False), 'RegexNotMatch': ('re', True),
    'RegexIMatch': ('rei', False), 'RegexNotIMatch': ('rei', True),
}
PDOM = [None, 0, 1]


def all_preds():
    cells = [(a, b) for a in (0, 1) for b in (0, 1)]
    for bits in itertools.product([False, True], repeat=4):
        yield dict(zip(cells, bits))


def fam_eval(op, P, a, b):
    fam, neg = PRED_FAMILIES[op]
    if a is None or b is None:
        return None
    v = P[fam][(a, b)]
    return (not v) if neg else v


def known(op):
    return op in SEM or op in PRED_FAMILIES


def _iter_semantics(op1, op2):
    """yields (domain, f1, f2) for every interpretation under which both ops are defined"""
    if op1 in SEM and op2 in SEM:
        if SEM[op1][0] is not SEM[op2][0]:
            return
        yield SEM[op1][0], SEM[op1][1], SEM[op2][1]
    elif op1 in PRED_FAMILIES and op2 in PRED_FAMILIES:
        fams = sorted(set([PRED_FAMILIES[op1][0], PRED_FAMILIES[op2][0]]))
        for combo in itertools.product(list(all_preds()), repeat=len(fams)):
            P = dict(zip(fams, combo))
            yield PDOM, (lambda a, b, P=P: fam_eval(op1, P, a, b)), (lambda a, b, P=P: fam_eval(op2, P, a, b))


def is_negation(op, op2):
    """op2(a,b) == NOT3 op(a,b) for all a,b (and all interpretations)"""
    if not (boolean_result(op) and boolean_result(op2)):
        return False
    any_ = False
    for dom, f1, f2 in _iter_semantics(op, op2):
        any_ = True
        for a in dom:
            for b in dom:
                if f2(a, b) != not3(f1(a, b)):
                    return False
    return any_


def is_mirror(op, op2):
    """op2(b,a) == op(a,b) for all a,b"""
    any_ = False
    for dom, f1, f2 in _iter_semantics(op, op2):
        any_ = True
        for a in dom:
            for b in dom:
                if f2(b, a) != f1(a, b):
                    return False
    return any_


def null_on_null(op):
    """True/False, or None if the model does not know the operator"""
    if op in SEM:
        dom, f, _ = SEM[op]
        return all(f(None, x) is None and f(x, None) is None for x in dom)
    if op in PRED_FAMILIES:
        return True
    return None


def boolean_result(op):
    if op in SEM:
        return SEM[op][2]
    if op in PRED_FAMILIES:
        return True
    return None


def arith_inverse(op, op2):
    """(x op y) op2 y == x over rationals (y != 0 for division)"""
    F = {'Plus': lambda a, b: a + b, 'Minus': lambda a, b: a - b, 'Multiply': lambda a, b: a * b,
         'Divide': lambda a, b: a / b}
    if op not in F or op2 not in F:
        return False
    vals = [Fraction(n, d) for n in (-3, -1, 1, 2, 5) for d in (1, 2)]
    for x in vals:
        for y in vals:
            if F[op2](F[op](x, y), y) != x:
                return False
    return True


if __name__ == '__main__':
    ops = list(SEM) + list(PRED_FAMILIES)
    print('negations', [(a, b) for a in ops for b in ops if is_negation(a, b)])
    print('mirrors', [(a, b) for a in ops for b in ops if is_mirror(a, b)])
    print('null_on_null', {o: null_on_null(o) for o in ops})
