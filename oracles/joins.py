"""Reference model of the ten join types (nested-loop semantics over tiny
relations) and the semantic facts the rules need, all derived by brute force
from the model — never copied from the code under analysis.

Row = (key,) with key in {None, 0, 1}; a relation is a multiset of <= 2 rows.
The join condition is `l.key = r.key` (NULL never matches) optionally AND-ed
with a one-sided predicate.  Output rows:
  two-sided types : (lrow|None, rrow|None)      None = NULL-extended side
  semi / anti     : (row,)
  mark            : (row, matched_bool)
"""
import itertools
from collections import Counter

TYPES = ['Inner', 'Left', 'Right', 'Full', 'LeftSemi', 'RightSemi', 'LeftAnti', 'RightAnti',
         'LeftMark', 'RightMark']
KEYS = [None, 0, 1]
ROWS = [(k,) for k in KEYS]


def relations(maxrows=2):
    out = []
    for n in range(maxrows + 1):
        for c in itertools.combinations_with_replacement(ROWS, n):
            out.append(list(c))
    return out


RELS = relations()


def eq(l, r):
    return l[0] is not None and r[0] is not None and l[0] == r[0]


def join(L, R, jt, on=eq):
    """multiset (Counter) of output rows"""
    out = []
    lm = [any(on(l, r) for r in R) for l in L]
    rm = [any(on(l, r) for l in L) for r in R]
    pairs = [(l, r) for l in L for r in R if on(l, r)]
    if jt == 'Inner':
        out = pairs
    elif jt == 'Left':
        out = pairs + [(l, None) for l, m in zip(L, lm) if not m]
    elif jt == 'Right':
        out = pairs + [(None, r) for r, m in zip(R, rm) if not m]
    elif jt == 'Full':
        out = pairs + [(l, None) for l, m in zip(L, lm) if not m] + [(None, r) for r, m in zip(R, rm) if not m]
    elif jt == 'LeftSemi':
        out = [(l,) for l, m in zip(L, lm) if m]
    elif jt == 'RightSemi':
        out = [(r,) for r, m in zip(R, rm) if m]
    elif jt == 'LeftAnti':
        out = [(l,) for l, m in zip(L, lm) if not m]
    elif jt == 'RightAnti':
        out = [(r,) for r, m in zip(R, rm) if not m]
    elif jt == 'LeftMark':
        out = [(l, m) for l, m in zip(L, lm)]
    elif jt == 'RightMark':
        out = [(r, m) for r, m in zip(R, rm)]
    else:
        raise ValueError(jt)
    return Counter(out)


TWO_SIDED = ['Inner', 'Left', 'Right', 'Full']


def sides_in_output(jt):
    """which input sides contribute data columns to the output: (left, right)"""
    if jt in TWO_SIDED:
        return (True, True)
    return (jt.startswith('Left'), jt.startswith('Right'))


def has_mark(jt):
    return jt.endswith('Mark')


def preds():
    """all boolean predicates over a one-column row (NULL key included);
    a NULL-extended row looks exactly like a row whose key is NULL."""
    for bits in itertools.product([False, True], repeat=3):
        table = dict(zip(KEYS, bits))
        yield (lambda row, t=table: t[row[0]] if row is not None else t[None])


def side_value(outrow, jt, side):
    """the side's row inside an output row (None if NULL-extended); side 0=left 1=right"""
    if jt in TWO_SIDED:
        return outrow[side]
    return outrow[0]


# ---------------------------------------------------------------- derived facts
def derive_swap():
    """the unique type s(jt) with join(L,R,jt) == reorder(join(R,L,s(jt))) for all L,R
    and whether a column reorder is needed"""
    res = {}
    for jt in TYPES:
        cands = []
        for c in TYPES:
            ok = True
            for L in RELS:
                for R in RELS:
                    a = join(L, R, jt)
                    b = join(R, L, c)
                    if c in TWO_SIDED:
                        b = Counter({(y, x): n for (x, y), n in b.items()})
                    if a != b:
                        ok = False
                        break
                if not ok:
                    break
            if ok:
                cands.append(c)
        res[jt] = cands
    return res


def post_filter_commutes(jt, side):
    """sigma_p(join(L,R)) == join(sigma_p(side), other) for every p, L, R.
    None when the side has no columns in the output (predicate cannot be written)."""
    if not sides_in_output(jt)[side]:
        return None
    for p in preds():
        for L in RELS:
            for R in RELS:
                full = join(L, R, jt)
                a = Counter({row: n for row, n in full.items() if p(side_value(row, jt, side))})
                if side == 0:
                    b = join([l for l in L if p(l)], R, jt)
                else:
                    b = join(L, [r for r in R if p(r)], jt)
                if a != b:
                    return False
    return True


def on_filter_commutes(jt, side):
    """join ON (eq AND p(side)) == join(sigma_p(side), other) ON eq, for every p, L, R"""
    for p in preds():
        for L in RELS:
            for R in RELS:
                if side == 0:
                    a = join(L, R, jt, on=lambda l, r: eq(l, r) and p(l))
                    b = join([l for l in L if p(l)], R, jt)
                else:
                    a = join(L, R, jt, on=lambda l, r: eq(l, r) and p(r))
                    b = join(L, [r for r in R if p(r)], jt)
                if a != b:
                    return False
    return True


def empty_side_gives_empty(jt, side):
    """join with `side` empty is empty for every other side"""
    for X in RELS:
        out = join([], X, jt) if side == 0 else join(X, [], jt)
        if sum(out.values()) != 0:
            return False
    return True


def can_null_extend(jt, side):
    """some output row has `side` NULL-extended"""
    if jt not in TWO_SIDED:
        return False
    for L in RELS:
        for R in RELS:
            for row in join(L, R, jt):
                if row[side] is None:
                    return True
    return False


def depends_on_unmatched(jt, side):
    """the output contains information about rows of `side` that found no match
    (so an operator that streams the other side must wait for end of input)"""
    for L in RELS:
        for R in RELS:
            S = L if side == 0 else R
            for i, s in enumerate(S):
                other = R if side == 0 else L
                matched = any(eq(s, o) for o in other)
                if matched:
                    continue
                # remove this unmatched row: does the output change?
                S2 = S[:i] + S[i + 1:]
                a = join(L, R, jt)
                b = join(S2, R, jt) if side == 0 else join(L, S2, jt)
                if a != b:
                    return True
    return False


def side_rows_appear(jt, side):
    """rows of `side` can appear in output at all (matched or not)"""
    return sides_in_output(jt)[side]


def null_rejecting_filter_equiv(jt, jt2, side_nn):
    """For eliminate_outer_join: with a post-join filter that rejects rows whose
    `side` columns are all NULL for each side in side_nn (set of 0/1),
    sigma(join jt) == sigma(join jt2) for all L,R.  Rows here have a single
    column, so 'null rejecting on side s' = drops rows where side s key is NULL."""
    for L in RELS:
        for R in RELS:
            a = join(L, R, jt)
            b = join(L, R, jt2)

            def keep(row):
                for s in side_nn:
                    v = row[s]
                    if v is None or v[0] is None:
                        return False
                return True
            fa = Counter({r: n for r, n in a.items() if keep(r)})
            fb = Counter({r: n for r, n in b.items() if keep(r)})
            if fa != fb:
                return False
    return True


def limit_commutes_with_side(jt, side, n=1):
    """fetch-pushdown soundness: taking the first n rows of `side` before the join
    still allows producing n output rows that are a sub-multiset of the full
    join's output, whenever the full join has >= n rows.  (limit without order
    may return any n rows.)"""
    for L in RELS:
        for R in RELS:
            full = join(L, R, jt)
            tot = sum(full.values())
            S = L if side == 0 else R
            for perm in set(itertools.permutations(S)):
                S2 = list(perm[:n])
                part = join(S2, R, jt) if side == 0 else join(L, S2, jt)
                # every row produced after pushdown must be a row of the full result
                if any(part[r] > full[r] for r in part):
                    return False
                # and enough rows must remain to satisfy the limit
                if sum(part.values()) < min(n, tot):
                    return False
    return True


if __name__ == '__main__':
    sw = derive_swap()
    print('swap', sw)
    for jt in TYPES:
        print(jt, 'post', post_filter_commutes(jt, 0), post_filter_commutes(jt, 1),
              'on', on_filter_commutes(jt, 0), on_filter_commutes(jt, 1),
              'empty', empty_side_gives_empty(jt, 0), empty_side_gives_empty(jt, 1),
              'nullext', can_null_extend(jt, 0), can_null_extend(jt, 1),
              'unmatched', depends_on_unmatched(jt, 0), depends_on_unmatched(jt, 1),
              'limit', limit_commutes_with_side(jt, 0), limit_commutes_with_side(jt, 1))


def empty_given(jt, left_empty, right_empty):
    """join is empty for every input consistent with the given emptiness flags"""
    for L in ([[]] if left_empty else RELS):
        for R in ([[]] if right_empty else RELS):
            if sum(join(L, R, jt).values()):
                return False
    return True


def null_padded_passthrough(jt, kept_side):
    """with the other side empty, the join equals the kept side's rows NULL-padded
    (two-sided types) for every relation"""
    if jt not in TWO_SIDED:
        return False
    for X in RELS:
        if kept_side == 0:
            out = join(X, [], jt)
            want = Counter((x, None) for x in X)
        else:
            out = join([], X, jt)
            want = Counter((None, x) for x in X)
        if out != want:
            return False
    return True


def plain_passthrough(jt, kept_side):
    """with the other side empty the join equals exactly the kept side's rows (one-sided types)"""
    if jt in TWO_SIDED or has_mark(jt):
        return False
    for X in RELS:
        out = join(X, [], jt) if kept_side == 0 else join([], X, jt)
        if out != Counter((x,) for x in X):
            return False
    return True


def cross_limit_commutes(jt, n=1):
    """cartesian product (no condition): limiting BOTH inputs to n rows still yields
    min(n,total) rows, all of which are rows of the full result"""
    on = lambda l, r: True
    for L in RELS:
        for R in RELS:
            full = join(L, R, jt, on=on)
            tot = sum(full.values())
            part = join(L[:n], R[:n], jt, on=on)
            if any(part[r] > full[r] for r in part) or sum(part.values()) < min(n, tot):
                return False
    return True


def no_match_gives_empty(jt):
    """whenever no left row matches any right row (empty hash map of usable keys, e.g. all build
    keys NULL, or an empty build side), the join result is empty for every right side"""
    for L in RELS:
        for R in RELS:
            if any(eq(l, r) for l in L for r in R):
                continue
            # the build-side map is empty only if no build row has a usable key
            if any(l[0] is not None for l in L):
                continue
            if sum(join(L, R, jt).values()):
                return False
    return True


def drop_unmatched_side_safe(jt, side):
    """removing the rows of `side` that match no row of the other side never changes the
    join result (what a dynamic filter derived from the other side's keys may do)"""
    for L in RELS:
        for R in RELS:
            if side == 1:
                R2 = [r for r in R if any(eq(l, r) for l in L)]
                if join(L, R2, jt) != join(L, R, jt):
                    return False
            else:
                L2 = [l for l in L if any(eq(l, r) for r in R)]
                if join(L2, R, jt) != join(L, R, jt):
                    return False
    return True
