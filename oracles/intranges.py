"""value ranges of arrow integer / decimal types (for the common-type containment bound)"""
INT = {
    'Int8': (-2**7, 2**7 - 1), 'Int16': (-2**15, 2**15 - 1), 'Int32': (-2**31, 2**31 - 1), 'Int64': (-2**63, 2**63 - 1),
    'UInt8': (0, 2**8 - 1), 'UInt16': (0, 2**16 - 1), 'UInt32': (0, 2**32 - 1), 'UInt64': (0, 2**64 - 1),
}
FLOAT_RANK = {'Float16': 1, 'Float32': 2, 'Float64': 3}


def decimal_range(precision, scale):
    """range of integers exactly representable in Decimal(p, s) (s >= 0)"""
    if scale < 0:
        return None
    m = 10 ** (precision - scale) - 1
    return (-m, m)


def contains(outer, inner):
    return outer[0] <= inner[0] and outer[1] >= inner[1]
