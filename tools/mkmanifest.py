#!/usr/bin/env python3
"""regenerates MANIFEST.json from rules/registry.py (claimed) + DESIGN N/A reasons"""
import json, os, sys
V = os.path.dirname(os.path.dirname(os.path.abspath(__file__)))
sys.path.insert(0, os.path.join(V, 'rules'))
import registry
props = [json.loads(l) for l in open(os.path.join(V, 'properties.jsonl'))]
checks = []
na = []
for p in props:
    pid = p['id']
    if pid in registry.CLAIMED and os.path.exists(os.path.join(V, 'rules', pid + '.py')):
        c = registry.CLAIMED[pid]
        checks.append({
            'property_id': pid,
            'quick_cmd': './check %s --tier quick' % pid,
            'thorough_cmd': './check %s --tier thorough' % pid,
            'evidence_file': 'evidence/%s.json' % pid,
            'replay_cmd_template': './check %s --replay {path}' % pid,
            'engine': 'dfscan+rules',
            'level_claimed': {'category': 'other', 'text': c['level'], 'design_ref': 'DESIGN.md §4 ' + pid},
            'level_note': c.get('note', registry.DEFAULT_NOTE),
            'technique': c['technique'],
        })
    else:
        na.append({'property_id': pid, 'reason': registry.NA.get(pid, registry.PENDING)})
m = {
    'version': 1,
    'setup_cmd': './setup.sh',
    'hooks': {'guard': 'datafusion_verif', 'enable': 'no hooks: the analysis reads the unmodified program (cargo +nightly check with the dfscan driver as RUSTC_WORKSPACE_WRAPPER)',
              'baseline_off_cmd': 'cd /repo && cargo test --workspace --no-fail-fast --offline',
              'source_commits': registry.HOOK_COMMITS, 'add_only': True},
    'engines': [
        {'name': 'dfscan', 'path': 'dfscan/', 'serves_properties': sorted(registry.CLAIMED),
         'kind_free_text': 'rustc_private driver exporting ADTs, impls and mir_built bodies with resolved callees (no rules)'},
        {'name': 'rules', 'path': 'rules/', 'serves_properties': sorted(registry.CLAIMED),
         'kind_free_text': 'python static analyses over the exported MIR: finite-domain path explorer (A1), path/pairing rules (A2), lock graph (A3), pending-needs-waker (A4), error-payload flow (A5), field coverage (A6), capability/override (A7), who-may-call (A8)'},
        {'name': 'oracles', 'path': 'oracles/', 'serves_properties': ['C02', 'C03', 'C04', 'C05', 'C28', 'C30', 'C47', 'C50'],
         'kind_free_text': 'tiny reference models (join types, 3-valued operators, integer ranges) from which expected tables are derived'},
    ],
    'checks': checks,
    'not_applicable': na,
    'notes': 'Static analysis only; each check decides named structural clauses (necessary conditions) of its property, see DESIGN.md.',
}
json.dump(m, open(os.path.join(V, 'MANIFEST.json'), 'w'), indent=1)
print('checks', len(checks), 'n/a', len(na))
