#!/bin/bash
# usage: seedtest.sh <seed-dir> <check id> [<check id>...]   applies seed patch to /repo, runs the checks, reverts
d=$1; shift
cd /repo || exit 2
if [ -n "$(git status --porcelain --untracked-files=no)" ]; then echo "repo dirty"; exit 2; fi
git apply "$d/patch.diff" || { echo "apply failed"; exit 2; }
cd /verif
for c in "$@"; do
  echo "=== $c on $(basename $d)"
  ./check $c 2>&1 | grep -v "^\[scan\]" | grep "rule=\|quick:\|VIOLATION" | cut -c1-400
done
git -C /repo checkout -- .
