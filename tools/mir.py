import sys,glob,json
sys.path.insert(0,'/verif/rules')
from facts import Facts
import os; f=Facts(max(glob.glob('/verif/.cache/facts/default-*'),key=os.path.getmtime))
def short(x):
    return json.dumps(x)
def dump(r):
    print(r['d'], r['file'], r['line'], 'argc',r['argc'])
    for i,(t,n) in enumerate(r['locals']): print('  _%d: %s %s'%(i,t,n or ''))
    for i,b in enumerate(r['bb']):
        if b.get('cu'): continue
        print(' bb',i)
        for s in b['s']:
            if s[0]=='dead': continue
            print('    ',short(s))
        t=b['t']
        if t[0]=='call':
            fd=t[1]
            print('    CALL', fd.get('res') or fd.get('def') or fd, short(t[2]), '->', short(t[3]), 'bb',t[4], 'L',t[5])
        else: print('    T',short(t))
if __name__=='__main__':
    which=int(sys.argv[2]) if len(sys.argv)>2 else 0
    dump(f.fn(sys.argv[1],which))
