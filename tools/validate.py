#!/usr/bin/env python3
"""validates MANIFEST.json and every evidence file against the harness schemas (run with python3-vt)"""
import json, jsonschema, glob, sys, os
V = os.path.dirname(os.path.dirname(os.path.abspath(__file__)))
m = json.load(open(V + '/MANIFEST.json'))
jsonschema.validate(m, json.load(open('/root/.vp/MANIFEST.schema.json')))
es = json.load(open('/root/.vp/EVIDENCE.schema.json'))
ids = [c['property_id'] for c in m['checks']]
for i in ids:
    jsonschema.validate(json.load(open(V + '/evidence/%s.json' % i)), es)
props = [json.loads(l)['id'] for l in open(V + '/properties.jsonl')]
na = [n['property_id'] for n in m['not_applicable']]
assert sorted(ids + na) == sorted(props), set(props) ^ set(ids + na)
print('manifest ok, %d checks, %d n/a, evidence valid' % (len(ids), len(na)))
