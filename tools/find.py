import sys,glob
sys.path.insert(0,'/verif/rules')
from facts import Facts
import os; f=Facts(max(glob.glob('/verif/.cache/facts/default-*'),key=os.path.getmtime))
import re
pat=re.compile(sys.argv[1])
for d,ents in sorted(f.fn_index.items()):
    if pat.search(d):
        for e in ents: print(d,'|',e[4],e[5],e[6])
