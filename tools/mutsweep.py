#!/usr/bin/env python3
"""Mutation sweep (checker self-validation, not a registered check).

Generates small, still-type-checking source mutants of the anchored protocol / table files in a COPY of /repo, analyses each copy
with the same driver and rule files, and records which checks report a violation.  Usage:
    tools/mutsweep.py <repo-copy-dir> <out.jsonl> [max_mutants] [seed]
The copy must be a plain copy or worktree of /repo outside /repo and /verif; it is modified in place and restored after each mutant."""
import sys, os, re, json, random, subprocess, importlib, time, glob
V = os.path.dirname(os.path.dirname(os.path.abspath(__file__)))
sys.path.insert(0, os.path.join(V, 'rules'))
sys.path.insert(0, V)

TARGETS = [
    # (file, checks to run, line regex, operator)
    ('datafusion/physical-plan/src/repartition/distributor_channels.rs', ['C15'], r'^\s*(\w[\w\.]*\.wake\(\);|drop\(\w+\);|.*\.push\(.*waker.*\);)\s*$', 'delete'),
    ('datafusion/physical-plan/src/spill/spill_pool.rs', ['C16'], r'^\s*(\w[\w\.]*\.wake\(\);|.*writer_finished = true;|.*register_waker\(.*\);|.*\.push_back\(.*\);)\s*$', 'delete'),
    ('datafusion/execution/src/disk_manager.rs', ['C21'], r'^\s*.*\.(fetch_sub|fetch_add)\(.*\);\s*$', 'delete'),
    ('datafusion/execution/src/memory_pool/mod.rs', ['C17'], r'^\s*.*\.(fetch_sub|fetch_add|shrink|grow)\(.*\);\s*$', 'delete'),
    ('datafusion/execution/src/memory_pool/pool.rs', ['C17'], r'^\s*.*\.(fetch_sub|fetch_add)\(.*\);\s*$', 'delete'),
    ('datafusion/execution/src/cache/default_cache.rs', ['C40'], r'^\s*self\.memory_used (\+|-)= .*;\s*$', 'delete'),
    ('datafusion/common/src/join_type.rs', ['C02', 'C03', 'C05', 'C28', 'C30', 'C50'], r'^\s*JoinType::\w+ => (true|false),?\s*$', 'flipbool'),
    ('datafusion/physical-plan/src/joins/utils.rs', ['C05', 'C28', 'C30', 'C50'], r'^\s*(JoinType::\w+\s*\|?\s*)+=> (true|false),?\s*$', 'flipbool'),
    ('datafusion/expr-common/src/operator.rs', ['C04', 'C47', 'C38'], r'^\s*Operator::\w+ => Some\(Operator::\w+\),\s*$', 'swapop'),
    ('datafusion/common/src/stats.rs', ['C29'], r'^\s*\(Precision::Exact\(.*\), Precision::Exact\(.*\)\) => \{?\s*$', 'skip'),
    ('datafusion/physical-plan/src/aggregates/group_values/single_group_by/primitive.rs', ['C13'], r'^\s*self\.\w+ = None;\s*$', 'delete'),
    ('datafusion/common/src/hash_utils.rs', ['C12'], r'^\s*buffer\.clear\(\);\s*$', 'delete'),
    ('datafusion/physical-plan/src/joins/hash_join/stream.rs', ['C12'], r'^\s*self\.hashes_buffer\.clear\(\);\s*$', 'delete'),
    ('datafusion/physical-plan/src/aggregates/group_values/row.rs', ['C12'], r'^\s*batch_hashes\.clear\(\);\s*$', 'delete'),
    # round 3 rules ('subst' entries carry (pattern, replacement) applied to the matching line)
    ('datafusion/core/src/execution/context/mod.rs', ['C49'], r'^\s*self\.(de)?register_table\(.*\)\?;\s*$', 'delete'),
    ('datafusion/core/src/execution/context/mod.rs', ['C49'], r'^\s*\(.*\) => exec_err!\(".*(already exists|doesn.t exist)', 'subst', (r'exec_err!\(.*$', 'self.return_empty_dataframe(),')),
    ('datafusion/physical-expr/src/intervals/cp_solver.rs', ['C23'], r'^\s*\.map\(\|t\| t\.map\(reverse_tuple\)\),\s*$', 'subst', (r'^.*$', ',')),
    ('datafusion/physical-plan/src/joins/nested_loop_join.rs', ['C05'], r'^\s*self\.state = NLJState::EmitGlobalRightUnmatched;\s*$', 'subst', ('EmitGlobalRightUnmatched', 'Done')),
    ('benchmarks/src/sql_benchmark.rs', ['C46'], r'^\s*let value = lookup_replacement_value\(key, replacement_map, &get_env\)\.or\(default\);\s*$', 'subst',
     (r'lookup_replacement_value\(key, replacement_map, &get_env\)\.or\(default\)', 'default.or(lookup_replacement_value(key, replacement_map, &get_env))')),
    # round 4 rules (source-struct direction): a translator stops looking at a field of the node it translates
    ('datafusion/substrait/src/logical_plan/producer/rel/join.rs', ['C37'], r'^\s*to_substrait_join_expr\(join\.on\.clone\(\), join\.null_equality, join\.filter\.clone\(\)\);\s*$', 'subst',
     (r'join\.null_equality', 'NullEquality::NullEqualsNothing')),
    ('datafusion/sql/src/unparser/expr.rs', ['C38'], r'^\s*negated: insubq\.negated,\s*$', 'subst', (r'insubq\.negated', 'false')),
    ('datafusion/physical-plan/src/sorts/sort_preserving_merge.rs', ['C36'], r'^\s*\.with_fetch\(self\.fetch\(\)\),\s*$', 'subst', (r'\.with_fetch\(self\.fetch\(\)\)', '.with_fetch(self.fetch()).with_round_robin_repartition(self.fetch().is_none())')),
    ('datafusion/expr/src/predicate_bounds.rs', ['C30'], r'^\s*\| Expr::SimilarTo\(_\) => self\.is_null_if_any_child_null\(expr\),\s*$', 'subst', (r'\| Expr::SimilarTo\(_\)', '| Expr::SimilarTo(_) | Expr::TryCast(_)')),
]
OPS = ['Eq', 'NotEq', 'Lt', 'LtEq', 'Gt', 'GtEq']


def mutants(repo, rng):
    out = []
    for ent in TARGETS:
        rel, checks, rx, op = ent[:4]
        sub = ent[4] if len(ent) > 4 else None
        p = os.path.join(repo, rel)
        if not os.path.exists(p) or op == 'skip':
            continue
        lines = open(p).read().split('\n')
        cut = next((i for i, l in enumerate(lines) if l.strip().startswith('#[cfg(test)]')), len(lines))
        pat = re.compile(rx)
        for i, l in enumerate(lines[:cut]):
            if not pat.match(l):
                continue
            if op == 'delete':
                new = None
            elif op == 'flipbool':
                new = l.replace('=> true', '=> @@').replace('=> false', '=> true').replace('=> @@', '=> false')
            elif op == 'subst':
                new = re.sub(sub[0], lambda _m: sub[1], l)
                if new == l:
                    continue
            elif op == 'swapop':
                m = re.search(r'Some\(Operator::(\w+)\)', l)
                alt = [o for o in OPS if o != m.group(1)]
                new = l.replace('Some(Operator::%s)' % m.group(1), 'Some(Operator::%s)' % rng.choice(alt))
            out.append({'file': rel, 'line': i + 1, 'op': op, 'old': l.strip(), 'new': (new or '').strip(), 'rawnew': new, 'checks': checks})
    return out


def main():
    repo, outp = sys.argv[1], sys.argv[2]
    maxn = int(sys.argv[3]) if len(sys.argv) > 3 else 30
    rng = random.Random(int(sys.argv[4]) if len(sys.argv) > 4 else 1)
    os.environ['DFVERIF_REPO'] = repo
    import scan
    scan.REPO = repo
    from facts import Facts
    import common
    ms = mutants(repo, rng)
    only = os.environ.get('MUTSWEEP_ONLY')
    if only:
        ms = [m for m in ms if re.search(only, m['file'])]
    rng.shuffle(ms)
    kf = json.load(open(os.path.join(V, 'known_findings.json'))).get('findings', [])
    # spread over files
    seen, pick = {}, []
    for m in ms:
        if seen.get(m['file'], 0) < max(2, maxn // 6):
            pick.append(m)
            seen[m['file']] = seen.get(m['file'], 0) + 1
        if len(pick) >= maxn:
            break
    st = Facts(sorted(glob.glob(os.path.join(V, '.cache', 'st-*')))[-1]) if glob.glob(os.path.join(V, '.cache', 'st-*')) else None
    with open(outp, 'a') as out:
        for m in pick:
            p = os.path.join(repo, m['file'])
            orig = open(p).read()
            lines = orig.split('\n')
            if m['op'] == 'delete':
                lines[m['line'] - 1] = ''
            elif m['op'] == 'subst':
                lines[m['line'] - 1] = m['rawnew']
            else:
                ind = re.match(r'\s*', lines[m['line'] - 1]).group(0)
                lines[m['line'] - 1] = ind + m['new']
            open(p, 'w').write('\n'.join(lines))
            t0 = time.time()
            res = dict(m)
            try:
                fdir, info = scan.ensure_facts(repo=repo, variant='mut', quiet=True)
                facts = Facts(fdir)
                res['compiles'] = True
                res['fired'] = {}
                for c in m['checks']:
                    mod = importlib.import_module(c)
                    probe = common.Ctx(c, 'mut', facts, st or facts, info)
                    probe.known = []
                    try:
                        mod.run(probe)
                        # what the rule already reports on the unmutated tree (known findings) is not a detection of the mutant
                        base = set(k['key'] for k in kf if k.get('property') == c)
                        res['fired'][c] = sorted({v['rule'] for v in probe.viol if v['key'] not in base})
                        res.setdefault('keys', {})[c] = sorted(v['key'] for v in probe.viol if v['key'] not in base)[:6]
                    except Exception as e:
                        res['fired'][c] = ['internal error: %s' % str(e)[:80]]
                res['detected'] = any(v for v in res['fired'].values())
            except RuntimeError as e:
                res['compiles'] = False
                res['detected'] = None
            finally:
                open(p, 'w').write(orig)
            res['secs'] = round(time.time() - t0, 1)
            out.write(json.dumps(res) + '\n')
            out.flush()
            print(res['file'].rsplit('/', 1)[-1], res['line'], res['op'], 'compiles' if res.get('compiles') else 'NOCOMPILE', res.get('fired'), res['secs'], flush=True)


if __name__ == '__main__':
    main()
