#!/bin/bash
# usage: confirmseed.sh <worktree> <cargo -p crate> <test filter> [extra cargo test args]
# confirms a sub-agent's seed in its own scratch worktree: demo fails with patch.diff applied, passes without it
wt=$1; crate=$2; filt=$3; shift 3
cd "$wt" || exit 2
export CARGO_TARGET_DIR=$wt/target CARGO_NET_OFFLINE=true
out=$wt/SEED_OUT/confirm_main.log
: > $out
git reset -q --hard 2>/dev/null; git clean -fdq -e SEED_OUT -e target 2>/dev/null
git apply SEED_OUT/patch.diff && git apply SEED_OUT/demo.diff || { echo "APPLY FAILED" | tee -a $out; exit 2; }
echo "== WITH patch: cargo test --offline -p $crate $* -- $filt" >> $out
cargo test --offline -j 6 -p $crate "$@" -- $filt >> $out 2>&1; r1=$?
grep "^test result" $out | tail -1
git apply -R SEED_OUT/patch.diff || { echo "REVERT FAILED" | tee -a $out; exit 2; }
echo "== WITHOUT patch" >> $out
cargo test --offline -j 6 -p $crate "$@" -- $filt >> $out 2>&1; r2=$?
grep "^test result" $out | tail -1
echo "with_patch_exit=$r1 without_patch_exit=$r2" | tee -a $out
[ $r1 -ne 0 ] && [ $r2 -eq 0 ] && echo CONFIRMED | tee -a $out
