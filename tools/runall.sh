#!/bin/sh
# runs every claimed check (quick tier) and prints one line each; exit 1 if any check fails
cd "$(dirname "$0")/.."
rc=0
for id in $(python3 -c "import json;print(' '.join(c['property_id'] for c in json.load(open('MANIFEST.json'))['checks']))"); do
  out=$(./check $id --tier ${1:-quick} 2>&1); r=$?
  echo "$out" | tail -1
  if [ $r -ne 0 ]; then rc=1; echo "$out" | grep "rule=\|Traceback\|Error" | head -5; fi
done
exit $rc
