#!/bin/bash
# usage: refactortest.sh <patch.diff> [check ids...]   applies a behaviour-preserving refactoring to /repo, runs the checks (all if none given), reverts.
# Any VIOLATION is a false alarm of the machinery.
p=$1; shift
cd /repo || exit 2
if [ -n "$(git status --porcelain --untracked-files=no)" ]; then echo "repo dirty"; exit 2; fi
git apply "$p" || { echo "apply failed"; exit 2; }
cd /verif
ids="$@"
[ -z "$ids" ] && ids=$(python3 -c "import json;print(' '.join(c['property_id'] for c in json.load(open('MANIFEST.json'))['checks']))")
rc=0
for c in $ids; do
  out=$(./check $c 2>&1); r=$?
  if [ $r -ne 0 ]; then rc=1; echo "FALSE ALARM? $c"; echo "$out" | grep "rule=\|Traceback\|Error\|internal" | cut -c1-500 | head -8; fi
done
git -C /repo checkout -- .
[ $rc -eq 0 ] && echo "no alarm on $(basename $(dirname $p))"
exit $rc
