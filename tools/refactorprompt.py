#!/usr/bin/env python3
"""prints the prompt for an independent sub-agent that produces BEHAVIOUR-PRESERVING refactors of the code a property is anchored in
(used to test that the static checks raise no alarm on code where the property still holds)"""
import json, sys
pid, wt = sys.argv[1], sys.argv[2]
p = [json.loads(l) for l in open('/verif/properties.jsonl') if json.loads(l)['id'] == pid][0]
for k in ('added_in_round', 'source'):
    p.pop(k, None)
print(f"""You are helping test a verification effort on the Rust project apache/datafusion. Your job here is the OPPOSITE of bug seeding: produce realistic, BEHAVIOUR-PRESERVING refactorings of the code that implements the property below — the kind of clean-up a maintainer would merge — so that we can check that our analysis tools do not raise false alarms on code that is still correct.

Your private scratch git worktree of the repository is at: {wt}
Work ONLY inside that directory (never touch /repo or /verif, never read anything under /verif). There is no network: always use `cargo ... --offline`. Set `CARGO_TARGET_DIR={wt}/target` for every cargo command and pass `-j 5`. Only build/test the crate(s) you touch, never the whole workspace.

THE PROPERTY whose implementing code you should refactor (the anchors name the files and mechanisms):
{json.dumps(p, indent=1)}

WHAT TO PRODUCE
Make 5 to 8 independent refactorings, all in NON-TEST code of the files/mechanisms named in the anchors, each of which must leave the observable behaviour exactly the same (same results, same errors, same accounting, same wake-ups, same ordering of effects that other threads can observe). Use a VARIETY of refactoring kinds, for example:
  - extract a block into a private helper method / inline a small helper into its caller;
  - rename local variables, parameters or private helpers;
  - turn `match` into `if let` / `let else` or back, merge or split match arms that do the same thing;
  - replace `x?` by an explicit `match`/early return or back; introduce or remove an early return that does not change which effects happen;
  - reorder statements that are truly independent (no shared state, no ordering visible to other threads) — do NOT reorder operations on shared state, locks, wakers or counters;
  - hoist a repeated expression into a local; replace a loop by an iterator chain or back;
  - split a long function into two, move a private function within the file, convert a closure to a private fn or back;
  - add or remove `.clone()` of cheap handles where ownership allows; change `&x` auto-deref style; add explanatory comments.
Do NOT change public API, do not change semantics even in corner cases, do not touch tests.

Then:
1. Make sure the touched crate(s) compile without warnings and that their lib tests still pass (`cargo test --offline -j 5 -p <crate> --lib`); record commands and pass counts.
2. Write into {wt}/REFACTOR_OUT/ (create it): `patch.diff` = `git diff` of all your changes together; one file per refactoring `r1.diff`, `r2.diff`, ... containing only that refactoring (each must apply on its own to a clean checkout: build them by making the changes one at a time and saving `git diff` increments, or by `git stash`-ing); `NOTES.md` listing each refactoring (file, function, kind, why behaviour is unchanged) and the test results.
3. Leave the worktree with all refactorings applied; do not commit.
Reply with a short summary: the list of refactorings and the test results.""")
