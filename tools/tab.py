import sys,glob
sys.path.insert(0,'/verif/rules')
from facts import Facts
from enumtab import *
import os; f=Facts(max(glob.glob('/verif/.cache/facts/default-*'),key=os.path.getmtime))
J='datafusion_common::join_type::JoinType'
def tab(fn, doms, **kw):
    t=table(f,fn,doms,**kw)
    for k,v in t.items():
        print('  ',[show(x) for x in k],'->',sorted(set(show(o.ret) for o in v)))
if __name__=='__main__':
    for fn,byref in [('datafusion_common::join_type::JoinType::swap',True),
      ('datafusion_common::join_type::JoinType::on_lr_is_preserved',True),
      ('datafusion_common::join_type::JoinType::supports_swap',True),
      ('datafusion_common::join_type::JoinType::empty_build_side_produces_empty_result',True),
      ('datafusion_common::join_type::JoinType::empty_map_produces_empty_result',True),
      ('datafusion_optimizer::push_down_filter::lr_is_preserved',False),
      ('datafusion_optimizer::push_down_filter::on_lr_is_preserved',False),
      ('datafusion_physical_plan::joins::utils::need_produce_result_in_final',False),
      ('datafusion_physical_plan::joins::utils::need_produce_right_in_final',False),
      ('datafusion_physical_plan::joins::piecewise_merge_join::utils::need_produce_result_in_final',False),
      ('datafusion_physical_plan::joins::hash_join::exec::lr_is_preserved',False),
      ]:
        print(fn); tab(fn,[enum_domain(f,J,byref)])
    print('eliminate_outer'); tab('datafusion_optimizer::eliminate_outer_join::eliminate_outer',[enum_domain(f,J),BOOLS,BOOLS])
