#!/usr/bin/env python3
"""prints the prompt given to an independent sub-agent for one property (property text only, nothing from /verif's checks)"""
import json, sys
pid, wt = sys.argv[1], sys.argv[2]
p = [json.loads(l) for l in open('/verif/properties.jsonl') if json.loads(l)['id'] == pid][0]
for k in ('added_in_round', 'source'):
    p.pop(k, None)
print(f"""You are helping test a verification effort on the Rust project apache/datafusion. Your job is to play a realistic "subtle regression": produce a source change to apache/datafusion that BREAKS the semantic property below, while the code still compiles and the existing test suite still passes.

Your private scratch git worktree of the repository is at: {wt}
Work ONLY inside that directory (never touch /repo or /verif, never read anything under /verif). There is no network: always use `cargo ... --offline`. Set `CARGO_TARGET_DIR={wt}/target` for every cargo command and pass `-j 5` to cargo build/test (other jobs share the machine). Only build/test the crate(s) you touch (e.g. `cargo test --offline -j 5 -p datafusion-physical-plan --lib`), never the whole workspace.

THE PROPERTY (this is all you are given):
{json.dumps(p, indent=1)}

WHAT TO PRODUCE
1. A change to NON-TEST source code of apache/datafusion (files under the crates' src/ directories, outside #[cfg(test)] modules) that makes the property false. It must:
   - compile (stable toolchain pinned by the repo) without new warnings that would fail a build;
   - keep the existing tests of the touched crate(s) passing (run at least the lib tests of every crate you touched, plus obviously related integration tests if they build quickly; record the exact commands and pass/fail counts);
   - look like something a well-meaning contributor could plausibly submit (a refactor, an optimisation, a "simplification", a cleanup) — not sabotage that any reviewer or any ordinary use would notice at once;
   - need something SPECIFIC to manifest: a particular interleaving, a fault/error at a particular point, a multi-step sequence of operations, an unusual input or configuration, or two cooperating sites that each look fine alone. Do NOT make a change that ordinary use would expose immediately.
   - be small (typically 1-30 changed lines) and self-contained.
2. A demonstration: a new test (unit test added in a #[cfg(test)] module, or an integration test file, or a small program) that FAILS with your change applied and PASSES on the original code. Confirm both directions yourself and record the output.
3. Write these files into the directory {wt}/SEED_OUT/ (create it):
   - patch.diff : `git diff` of ONLY the non-test source change (must apply with `git apply` to a clean checkout of this commit);
   - demo.diff  : `git diff` of ONLY the demonstration (test code / new test files; use `git add -N` for new files so they appear in the diff); it must apply on top of a clean checkout independently of patch.diff;
   - NOTES.md   : what the change is, why it breaks the property, what specific condition is needed for it to manifest, the exact commands you ran (with and without the change) and their results (test counts);
   - confirm.log: the relevant tail of the test output in both directions.
Then leave the worktree in the state with both diffs applied. Do not commit.

Prefer a change located in the mechanisms named by the property's anchors, but choose a fault that is as different as you like in kind: wrong decision-table entry for one enum case, an error path that skips a release/rollback/notification, a reordered pair of operations that opens a race window, a dropped field in a conversion, a lost wake-up, a flag not propagated, an off-by-one in a boundary case, etc. Aim for the sort of bug that survives code review and CI.

Build times are long (first build of a crate's tests may take 5-10 minutes); plan for that, and keep going until you have confirmed everything. At the end, reply with a short summary: files changed, the trigger condition, and the confirmation results.""")
