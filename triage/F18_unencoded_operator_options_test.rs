// F18 (C36): options the engine sets on data sources / sinks that no encoder reads.
// Drop into datafusion/proto/tests/ and run:  cargo test --offline -p datafusion-proto --test f18_unencoded_operator_options -- --nocapture
// Every test PASSES when the defect is present (it asserts the loss), so the log shows the observed difference.
use std::sync::Arc;

use datafusion::physical_plan::{collect, ExecutionPlan};
use datafusion::prelude::*;
use datafusion_proto::bytes::{physical_plan_from_bytes, physical_plan_to_bytes};

fn scratch(name: &str) -> std::path::PathBuf {
    let d = std::env::temp_dir().join(format!("f18-{}-{}", name, std::process::id()));
    let _ = std::fs::remove_dir_all(&d);
    std::fs::create_dir_all(&d).unwrap();
    d
}

fn roundtrip(plan: &Arc<dyn ExecutionPlan>, ctx: &SessionContext) -> Arc<dyn ExecutionPlan> {
    let bytes = physical_plan_to_bytes(Arc::clone(plan)).expect("encoding succeeds");
    physical_plan_from_bytes(&bytes, ctx.task_ctx().as_ref()).expect("decoding succeeds")
}

/// JsonSource.newline_delimited: a scan of a JSON *array* file decodes as a newline-delimited scan.
#[tokio::test]
async fn json_array_scan_loses_its_format() {
    let dir = scratch("json");
    let file = dir.join("t.json");
    std::fs::write(&file, "[{\"a\": 1}, {\"a\": 2}, {\"a\": 3}]").unwrap();
    let ctx = SessionContext::new();
    ctx.register_json(
        "t",
        file.to_str().unwrap(),
        JsonReadOptions::default().newline_delimited(false),
    )
    .await
    .unwrap();
    let plan = ctx.sql("SELECT a FROM t").await.unwrap().create_physical_plan().await.unwrap();
    let decoded = roundtrip(&plan, &ctx);
    let original: usize = collect(Arc::clone(&plan), ctx.task_ctx()).await.unwrap().iter().map(|b| b.num_rows()).sum();
    println!("original plan rows = {original}");
    assert_eq!(original, 3);
    let after = collect(decoded, ctx.task_ctx()).await;
    match &after {
        Ok(b) => println!("decoded plan rows = {}", b.iter().map(|b| b.num_rows()).sum::<usize>()),
        Err(e) => println!("decoded plan fails: {e}"),
    }
    let same = matches!(&after, Ok(b) if b.iter().map(|b| b.num_rows()).sum::<usize>() == 3);
    assert!(!same, "DEFECT ABSENT: the decoded plan returned the same 3 rows");
}

/// ParquetSource.metadata_size_hint: set by ParquetFormat::create_physical_plan from the session option, gone after the round trip.
#[tokio::test]
async fn parquet_scan_loses_metadata_size_hint() {
    let dir = scratch("pq");
    let ctx = SessionContext::new();
    ctx.sql("CREATE TABLE src AS VALUES (1, 'x'), (2, 'y')").await.unwrap().collect().await.unwrap();
    let out = dir.join("d.parquet");
    ctx.sql(&format!("COPY src TO '{}' STORED AS PARQUET", out.display())).await.unwrap().collect().await.unwrap();
    ctx.register_parquet("p", out.to_str().unwrap(), ParquetReadOptions::default()).await.unwrap();
    let plan = ctx.sql("SELECT * FROM p").await.unwrap().create_physical_plan().await.unwrap();
    let decoded = roundtrip(&plan, &ctx);
    fn hint(plan: &Arc<dyn ExecutionPlan>) -> Option<String> {
        use datafusion::datasource::physical_plan::ParquetSource;
        use datafusion::datasource::source::DataSourceExec;
        if let Some(exec) = plan.downcast_ref::<DataSourceExec>() {
            let (_, src) = exec.downcast_to_file_source::<ParquetSource>()?;
            let s = format!("{src:?}"); // the first occurrence is table_parquet_options.global.metadata_size_hint; the field of ParquetSource itself is the last one
            return s.rfind("metadata_size_hint: ").map(|i| s[i..].chars().take_while(|c| *c != ',').collect());
        }
        plan.children().into_iter().find_map(hint)
    }
    let (a, b) = (hint(&plan), hint(&decoded));
    println!("original: {a:?}\ndecoded : {b:?}");
    assert!(a.unwrap().starts_with("metadata_size_hint: Some("));
    assert!(b.unwrap().starts_with("metadata_size_hint: None"), "DEFECT ABSENT");
}

/// ParquetSink.sorting_columns: COPY of sorted input records the sort order in the file's row-group metadata; the decoded plan does not.
#[tokio::test]
async fn parquet_sink_loses_sorting_columns() {
    use datafusion::parquet::file::reader::{FileReader, SerializedFileReader};
    let dir = scratch("sink");
    let ctx = SessionContext::new();
    ctx.sql("CREATE TABLE src AS VALUES (3, 'z'), (1, 'x'), (2, 'y')").await.unwrap().collect().await.unwrap();
    let sorted = |p: &std::path::Path| {
        let f = std::fs::read_dir(p).ok().and_then(|mut d| d.next()).map(|e| e.unwrap().path()).unwrap_or(p.to_path_buf());
        let r = SerializedFileReader::new(std::fs::File::open(f).unwrap()).unwrap();
        r.metadata().row_group(0).sorting_columns().cloned()
    };
    let out1 = dir.join("a.parquet");
    let out2 = dir.join("b.parquet");
    let plan = ctx
        .sql(&format!("COPY (SELECT column1 AS k, column2 AS v FROM src ORDER BY k) TO '{}' STORED AS PARQUET", out1.display()))
        .await.unwrap().create_physical_plan().await.unwrap();
    let plan_b = ctx
        .sql(&format!("COPY (SELECT column1 AS k, column2 AS v FROM src ORDER BY k) TO '{}' STORED AS PARQUET", out2.display()))
        .await.unwrap().create_physical_plan().await.unwrap();
    let decoded = roundtrip(&plan_b, &ctx);
    collect(plan, ctx.task_ctx()).await.unwrap();
    collect(decoded, ctx.task_ctx()).await.unwrap();
    let (a, b) = (sorted(&out1), sorted(&out2));
    println!("file written by the original plan: sorting_columns = {a:?}\nfile written by the decoded plan : sorting_columns = {b:?}");
    assert!(a.is_some());
    assert!(b.is_none(), "DEFECT ABSENT");
}

/// FileScanConfig.file_compression_type (set through FileScanConfigBuilder by CsvFormat / JsonFormat): a scan of gzip-compressed CSV files
/// decodes as a scan of uncompressed files (the decoder's own comment: "The compression type is not on the wire").
#[tokio::test]
async fn compressed_csv_scan_loses_its_compression() {
    use datafusion::arrow::datatypes::{DataType, Field, Schema};
    use datafusion::datasource::file_format::file_compression_type::FileCompressionType;
    use datafusion::datasource::physical_plan::CsvSource;
    use datafusion::datasource::source::DataSourceExec;
    fn compression(plan: &Arc<dyn ExecutionPlan>) -> Option<String> {
        if let Some(exec) = plan.downcast_ref::<DataSourceExec>() {
            let (conf, _) = exec.downcast_to_file_source::<CsvSource>()?;
            return Some(format!("{:?}", conf.file_compression_type));
        }
        plan.children().into_iter().find_map(compression)
    }
    let dir = scratch("gz");
    std::fs::write(dir.join("t.csv.gz"), b"not read while planning").unwrap();
    let schema = Schema::new(vec![Field::new("a", DataType::Int64, true)]);
    let ctx = SessionContext::new();
    ctx.register_csv(
        "t",
        dir.to_str().unwrap(),
        CsvReadOptions::new()
            .schema(&schema)
            .file_extension(".csv.gz")
            .file_compression_type(FileCompressionType::GZIP),
    )
    .await
    .unwrap();
    let plan = ctx.sql("SELECT a FROM t").await.unwrap().create_physical_plan().await.unwrap();
    let decoded = roundtrip(&plan, &ctx);
    let (a, b) = (compression(&plan).unwrap(), compression(&decoded).unwrap());
    println!("original scan: file_compression_type = {a}\ndecoded scan : file_compression_type = {b}");
    assert!(a.contains("GZIP") || a.contains("Gzip"), "{a}");
    assert_ne!(a, b, "DEFECT ABSENT");
}

/// AnalyzeExec.metric_types (set through AnalyzeExecBuilder by the physical planner from explain.analyze_level): EXPLAIN ANALYZE at level
/// 'summary' decodes as level 'dev' (the encoder's own TODO: "not on the wire").
#[tokio::test]
async fn explain_analyze_loses_its_metric_level() {
    let ctx = SessionContext::new();
    ctx.sql("SET datafusion.explain.analyze_level = 'summary'").await.unwrap().collect().await.unwrap();
    ctx.sql("CREATE TABLE src AS VALUES (1, 'x'), (2, 'y'), (3, 'z')").await.unwrap().collect().await.unwrap();
    let plan = ctx
        .sql("EXPLAIN ANALYZE SELECT column1 FROM src WHERE column1 > 1")
        .await.unwrap().create_physical_plan().await.unwrap();
    let decoded = roundtrip(&plan, &ctx);
    let text = |b: Vec<arrow::record_batch::RecordBatch>| {
        arrow::util::pretty::pretty_format_batches(&b).unwrap().to_string()
    };
    let a = text(collect(plan, ctx.task_ctx()).await.unwrap());
    let b = text(collect(decoded, ctx.task_ctx()).await.unwrap());
    // `output_batches` is a dev-level metric, `output_rows` a summary-level one (FilterExec)
    println!("original mentions output_batches: {}\ndecoded  mentions output_batches: {}", a.contains("output_batches"), b.contains("output_batches"));
    println!("--- original\n{a}\n--- decoded\n{b}");
    assert!(!a.contains("output_batches"));
    assert!(b.contains("output_batches"), "DEFECT ABSENT");
}
