// Appended to datafusion/physical-plan/src/spill/spill_pool.rs

#[cfg(test)]
mod triage_f1 {
    use super::*;
    use crate::metrics::{ExecutionPlanMetricsSet, SpillMetrics};
    use arrow::array::{ArrayRef, Int32Array};
    use arrow::datatypes::{DataType, Field, Schema};
    use datafusion_execution::disk_manager::DiskManagerBuilder;
    use datafusion_execution::runtime_env::RuntimeEnvBuilder;
    use std::time::Duration;

    fn schema() -> SchemaRef {
        Arc::new(Schema::new(vec![Field::new("a", DataType::Int32, false)]))
    }

    fn batch(start: i32, count: usize) -> RecordBatch {
        let a: ArrayRef = Arc::new(Int32Array::from(
            (start..start + count as i32).collect::<Vec<_>>(),
        ));
        RecordBatch::try_new(schema(), vec![a]).unwrap()
    }

    /// F1: a write error in `push_batch` after the file has been published to the
    /// reader leaves the file neither re-queued in `open_write_files` nor marked
    /// `writer_finished`. Once the (last) writer is dropped the reader must
    /// terminate (`None` or `Err`), not hang.
    #[tokio::test]
    async fn f1_reader_terminates_after_failed_push_and_writer_drop() -> Result<()> {
        // Disk quota large enough for the IPC header + a few small batches, but small
        // enough that a later append fails with "exceeded the allowable limit".
        let env = Arc::new(
            RuntimeEnvBuilder::new()
                .with_disk_manager_builder(
                    DiskManagerBuilder::default().with_max_temp_directory_size(2048),
                )
                .build()?,
        );
        let metrics = SpillMetrics::new(&ExecutionPlanMetricsSet::new(), 0);
        let spill_manager = Arc::new(SpillManager::new(env, metrics, schema()));
        // Large rotation threshold: everything goes to one file.
        let (writer, mut reader) = spsc_channel(1024 * 1024, spill_manager);

        let mut ok_pushes = 0usize;
        let mut err = None;
        for i in 0..1000 {
            match writer.push_batch(&batch(i * 10, 10)) {
                Ok(()) => ok_pushes += 1,
                Err(e) => {
                    err = Some(e);
                    break;
                }
            }
        }
        let err = err.expect("a push must eventually fail because of the 2KB quota");
        println!("F1: ok_pushes={ok_pushes}, push error: {}", err.strip_backtrace());
        assert!(ok_pushes >= 1, "need at least one successfully written batch");

        // The reader can consume all batches that were written successfully.
        for i in 0..ok_pushes {
            let r = tokio::time::timeout(Duration::from_secs(5), reader.next())
                .await
                .unwrap_or_else(|_| panic!("timed out reading good batch {i}"));
            let b = r.expect("stream ended early")?;
            assert_eq!(b.num_rows(), 10);
        }
        println!("F1: reader consumed {ok_pushes} good batches");

        // Drop the last (only) writer: this is the documented EOF signal.
        drop(writer);

        let res = tokio::time::timeout(Duration::from_secs(3), reader.next()).await;
        match &res {
            Ok(None) => println!("F1: reader returned None (EOF) after writer drop"),
            Ok(Some(Ok(_))) => println!("F1: reader returned an unexpected batch"),
            Ok(Some(Err(e))) => println!("F1: reader returned Err: {e}"),
            Err(_) => println!("F1: reader HUNG (3s timeout) after writer drop"),
        }
        assert!(
            res.is_ok(),
            "reader hung after failed push + last writer dropped"
        );
        Ok(())
    }
    /// F1 (finish path): same as above, but the failure happens in `finish()` during
    /// size-based rotation (quota is exactly header + one batch, so the IPC
    /// end-of-stream marker does not fit).
    #[tokio::test]
    async fn f1_reader_terminates_after_failed_finish_and_writer_drop() -> Result<()> {
        // Dry run: measure the bytes used by header + one batch (no rotation).
        let bytes_header_plus_batch = {
            let env = Arc::new(RuntimeEnvBuilder::new().build()?);
            let metrics = SpillMetrics::new(&ExecutionPlanMetricsSet::new(), 0);
            let sm = Arc::new(SpillManager::new(Arc::clone(&env), metrics, schema()));
            let (w, _r) = spsc_channel(1024 * 1024, sm);
            w.push_batch(&batch(0, 10))?;
            env.disk_manager.used_disk_space()
        };
        println!("F1b: header+batch bytes = {bytes_header_plus_batch}");

        let env = Arc::new(
            RuntimeEnvBuilder::new()
                .with_disk_manager_builder(
                    DiskManagerBuilder::default()
                        .with_max_temp_directory_size(bytes_header_plus_batch),
                )
                .build()?,
        );
        let metrics = SpillMetrics::new(&ExecutionPlanMetricsSet::new(), 0);
        let sm = Arc::new(SpillManager::new(env, metrics, schema()));
        // max_file_size_bytes = 1: rotate (finish) after every batch
        let (writer, mut reader) = spsc_channel(1, sm);
        let err = writer
            .push_batch(&batch(0, 10))
            .expect_err("finish() must fail: EOS marker exceeds quota");
        println!("F1b: push error: {}", err.strip_backtrace());

        // The batch itself was appended + flushed + counted, so it is readable
        let b = tokio::time::timeout(Duration::from_secs(5), reader.next())
            .await
            .expect("timed out reading the good batch")
            .expect("stream ended early")?;
        assert_eq!(b.num_rows(), 10);
        println!("F1b: reader consumed the good batch");

        drop(writer);
        let res = tokio::time::timeout(Duration::from_secs(3), reader.next()).await;
        match &res {
            Ok(None) => println!("F1b: reader returned None (EOF) after writer drop"),
            Ok(Some(Ok(_))) => println!("F1b: reader returned an unexpected batch"),
            Ok(Some(Err(e))) => println!("F1b: reader returned Err: {e}"),
            Err(_) => println!("F1b: reader HUNG (3s timeout) after writer drop"),
        }
        assert!(res.is_ok(), "reader hung after failed finish + writer dropped");
        Ok(())
    }
}
