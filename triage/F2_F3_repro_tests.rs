// Appended to datafusion/execution/src/disk_manager.rs

#[cfg(all(test, unix))]
mod triage_f2_f3 {
    use super::*;
    use std::io::Write;

    /// F2: `FileSpillWriter::write` charges `used_disk_space` before `write_all`;
    /// if `write_all` fails the charge must not leak.
    ///
    /// Failure injection: the real `FileSpillWriter::write` code is exercised, but
    /// the `file` handle is `/dev/full` (every write fails with ENOSPC), while the
    /// accounting handles (`disk_manager`, `current_file_disk_usage`) are those of a
    /// real temp file created through `DiskManager::create_tmp_file`.
    #[test]
    fn f2_failed_write_all_does_not_leak_used_disk_space() -> Result<()> {
        let dm = Arc::new(DiskManagerBuilder::default().build()?);
        let file = dm.create_tmp_file("f2")?;

        // a successful write through the regular public path first
        let mut ok_writer = file.open_writer()?;
        ok_writer.write_all(&[0u8; 100])?;
        assert_eq!(dm.used_disk_space(), 100);
        assert_eq!(file.size(), Some(100));

        // Same accounting state as `RefCountedTempFile::open_writer` would give,
        // but an fd on which write_all() fails.
        let usage = Arc::new(AtomicU64::new(0));
        let mut bad_writer = FileSpillWriter {
            file: std::fs::OpenOptions::new().write(true).open("/dev/full")?,
            disk_manager: Arc::clone(&dm),
            current_file_disk_usage: Arc::clone(&usage),
        };
        let err = bad_writer.write_all(&[0u8; 4096]).unwrap_err();
        println!("F2: write_all error: {err}");
        println!(
            "F2: after failed write: used_disk_space={} file.size={:?} per-file usage of failed writer={}",
            dm.used_disk_space(),
            file.size(),
            usage.load(Ordering::Relaxed)
        );

        drop(bad_writer);
        drop(ok_writer);
        drop(file);
        println!(
            "F2: after dropping everything: used_disk_space={} active_files_count={}",
            dm.used_disk_space(),
            dm.spilling_progress().active_files_count
        );
        assert_eq!(dm.used_disk_space(), 0, "used_disk_space leaked");
        Ok(())
    }

    /// F3: `create_tmp_file` increments `active_files_count` before creating the
    /// file; if creation fails the count must not leak.
    #[test]
    fn f3_failed_create_tmp_file_does_not_leak_active_files_count() -> Result<()> {
        let root = TempDir::new()?;
        let dm = Arc::new(
            DiskManagerBuilder::default()
                .with_mode(DiskManagerMode::Directories(vec![root.path().to_path_buf()]))
                .build()?,
        );
        // sanity: works, and count goes 1 -> 0
        let f = dm.create_tmp_file("f3 ok")?;
        assert_eq!(dm.spilling_progress().active_files_count, 1);
        drop(f);
        assert_eq!(dm.spilling_progress().active_files_count, 0);

        // Remove the datafusion-XXXX directory behind the manager's back
        for p in dm.temp_dir_paths() {
            std::fs::remove_dir_all(&p)?;
        }
        for i in 0..3 {
            let err = dm.create_tmp_file("f3 fail").err().expect("must fail");
            println!(
                "F3: attempt {i}: error: {} ; active_files_count={}",
                err.strip_backtrace(),
                dm.spilling_progress().active_files_count
            );
        }
        assert_eq!(
            dm.spilling_progress().active_files_count,
            0,
            "active_files_count leaked"
        );
        Ok(())
    }
}
