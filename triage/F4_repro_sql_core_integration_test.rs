//! F4 via SQL: bounded table LEFT SEMI unbounded table.
use std::sync::Arc;
use std::time::Duration;

use arrow::array::{ArrayRef, Int32Array};
use arrow::datatypes::{DataType, Field, Schema, SchemaRef};
use arrow::record_batch::RecordBatch;
use datafusion::catalog::streaming::StreamingTable;
use datafusion::datasource::MemTable;
use datafusion::error::Result;
use datafusion::execution::{SendableRecordBatchStream, TaskContext};
use datafusion::physical_plan::stream::RecordBatchStreamAdapter;
use datafusion::physical_plan::streaming::PartitionStream;
use datafusion::physical_plan::{ExecutionPlanProperties, displayable};
use datafusion::prelude::*;
use futures::StreamExt;

fn schema() -> SchemaRef {
    Arc::new(Schema::new(vec![Field::new("k", DataType::Int32, false)]))
}
fn batch(vals: Vec<i32>) -> RecordBatch {
    let a: ArrayRef = Arc::new(Int32Array::from(vals));
    RecordBatch::try_new(schema(), vec![a]).unwrap()
}

#[derive(Debug)]
struct Unbounded;
impl PartitionStream for Unbounded {
    fn schema(&self) -> &SchemaRef {
        static S: std::sync::OnceLock<SchemaRef> = std::sync::OnceLock::new();
        S.get_or_init(schema)
    }
    fn execute(&self, _ctx: Arc<TaskContext>) -> SendableRecordBatchStream {
        // one matching batch, then non-matching batches forever
        let s = futures::stream::iter(vec![Ok(batch(vec![2, 99]))]).chain(
            futures::stream::unfold(1000i32, |i| async move {
                tokio::time::sleep(Duration::from_millis(10)).await;
                Some((Ok(batch(vec![i, i + 1])), i + 2))
            }),
        );
        Box::pin(RecordBatchStreamAdapter::new(schema(), s))
    }
}

async fn run(sql: &str) -> Result<()> {
    // batch_size=1 so that output coalescing does not hide incremental output
    let ctx = SessionContext::new_with_config(
        SessionConfig::new().with_batch_size(1).with_target_partitions(1),
    );
    ctx.register_table(
        "bounded_t",
        Arc::new(MemTable::try_new(schema(), vec![vec![batch(vec![1, 2, 3])]])?),
    )?;
    ctx.register_table(
        "unbounded_t",
        Arc::new(
            StreamingTable::try_new(schema(), vec![Arc::new(Unbounded)])?
                .with_infinite_table(true),
        ),
    )?;
    println!("SQL: {sql}");
    let df = ctx.sql(sql).await?;
    let plan = match df.clone().create_physical_plan().await {
        Ok(p) => p,
        Err(e) => {
            println!("  physical planning REJECTED: {}", e.strip_backtrace());
            return Ok(());
        }
    };
    println!(
        "  physical plan ACCEPTED (boundedness={:?}, pipeline_behavior={:?}):\n{}",
        plan.boundedness(),
        plan.pipeline_behavior(),
        displayable(plan.as_ref()).indent(true)
    );
    let mut stream = df.execute_stream().await?;
    let r = tokio::time::timeout(Duration::from_secs(3), async {
        loop {
            match stream.next().await {
                Some(Ok(b)) if b.num_rows() > 0 => return Some(b),
                Some(Ok(_)) => continue,
                Some(Err(e)) => panic!("{e}"),
                None => return None,
            }
        }
    })
    .await;
    match r {
        Ok(Some(b)) => println!("  first output within 3s: {} row(s): {:?}", b.num_rows(), b.column(0)),
        Ok(None) => println!("  stream ended without rows"),
        Err(_) => println!("  NO OUTPUT within 3s"),
    }
    Ok(())
}

#[tokio::test(flavor = "multi_thread", worker_threads = 2)]
async fn f4_sql() -> Result<()> {
    // control: inner join
    run("SELECT b.k FROM bounded_t b JOIN unbounded_t u ON b.k = u.k").await?;
    // semi join written with the bounded table as the outer (left) side
    run("SELECT b.k FROM bounded_t b WHERE EXISTS (SELECT 1 FROM unbounded_t u WHERE u.k = b.k)").await?;
    run("SELECT b.k FROM bounded_t b WHERE b.k IN (SELECT u.k FROM unbounded_t u)").await?;
    run("SELECT b.k FROM bounded_t b LEFT SEMI JOIN unbounded_t u ON b.k = u.k").await?;
    // mirror: unbounded outer side (is swapped by JoinSelection to RightSemi)
    run("SELECT u.k FROM unbounded_t u WHERE EXISTS (SELECT 1 FROM bounded_t b WHERE u.k = b.k)").await?;
    Ok(())
}
