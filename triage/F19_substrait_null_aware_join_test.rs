// F19 (C37): the Substrait producer never reads Join.null_aware — a null-aware anti join (NOT IN semantics, produced by the optimizer's
// decorrelation) is written as a plain anti join, so the round-tripped plan returns different rows.
// Drop into datafusion/substrait/tests/ and run:  cargo test --offline -p datafusion-substrait --test f19_null_aware_join -- --nocapture
// The test PASSES when the defect is present (it asserts the difference) and prints both results.
use datafusion::prelude::*;
use datafusion_substrait::logical_plan::{consumer::from_substrait_plan, producer::to_substrait_plan};

#[tokio::test]
async fn not_in_subquery_loses_null_awareness() {
    let ctx = SessionContext::new();
    ctx.sql("CREATE TABLE t1(a INT) AS VALUES (1), (2), (NULL)").await.unwrap().collect().await.unwrap();
    ctx.sql("CREATE TABLE t2(b INT) AS VALUES (1), (NULL)").await.unwrap().collect().await.unwrap();
    let sql = "SELECT a FROM t1 WHERE a NOT IN (SELECT b FROM t2)";
    let plan = ctx.sql(sql).await.unwrap().into_optimized_plan().unwrap();
    println!("optimized plan:\n{}", plan.display_indent());
    assert!(format!("{}", plan.display_indent()).contains("null_aware"), "the optimizer no longer produces a null-aware join for NOT IN");
    let proto = to_substrait_plan(&plan, &ctx.state()).unwrap();
    let back = from_substrait_plan(&ctx.state(), &proto).await.unwrap();
    println!("round-tripped plan:\n{}", back.display_indent());
    let rows = |b: Vec<datafusion::arrow::record_batch::RecordBatch>| b.iter().map(|x| x.num_rows()).sum::<usize>();
    let original = rows(ctx.execute_logical_plan(plan).await.unwrap().collect().await.unwrap());
    let after = rows(ctx.execute_logical_plan(back).await.unwrap().collect().await.unwrap());
    println!("rows: original = {original} (NOT IN over a set containing NULL is never true), round-tripped = {after}");
    assert_eq!(original, 0);
    assert_ne!(after, 0, "DEFECT ABSENT");
}

/// TableScan.fetch is never read by the producer either, but it is advisory: a scan built with fetch = 1 and no Limit node above it already
/// returns all rows BEFORE any round trip (the provider may return more than the hint; the optimizer keeps the Limit node above a scan it
/// pushes a fetch into).  This is why rules/C37.py exempts the field; the test documents the observation.
#[tokio::test]
async fn scan_fetch_is_advisory() {
    use datafusion::datasource::provider_as_source;
    use datafusion::logical_expr::LogicalPlanBuilder;
    let ctx = SessionContext::new();
    ctx.sql("CREATE TABLE t1(a INT) AS VALUES (1), (2), (3)").await.unwrap().collect().await.unwrap();
    let provider = ctx.table_provider("t1").await.unwrap();
    let plan = LogicalPlanBuilder::scan_with_filters_fetch("t1", provider_as_source(provider), None, vec![], Some(1))
        .unwrap()
        .build()
        .unwrap();
    let rows = |b: Vec<datafusion::arrow::record_batch::RecordBatch>| b.iter().map(|x| x.num_rows()).sum::<usize>();
    let original = rows(ctx.execute_logical_plan(plan).await.unwrap().collect().await.unwrap());
    println!("TableScan: t1, fetch=1 without a Limit above returns {original} rows");
    assert_eq!(original, 3);
}
