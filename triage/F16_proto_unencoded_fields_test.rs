use datafusion::prelude::*;
use datafusion_common::metadata::FieldMetadata;
use datafusion_common::{Result, ScalarValue};
use datafusion_expr::expr::{BinaryExpr, Like};
use datafusion_expr::{Expr, Operator};
use datafusion_proto::bytes::{Serializeable, logical_plan_from_bytes, logical_plan_to_bytes};
use std::collections::BTreeMap;

fn check_expr(name: &str, e: Expr) {
    match e.to_bytes() {
        Err(err) => println!("[{name}] encode failed (outside property): {err}"),
        Ok(b) => match Expr::from_bytes(&b) {
            Err(err) => println!("[{name}] VIOLATION decode failed: {err}"),
            Ok(d) => println!("[{name}] equal={} orig={e:?} decoded={d:?}", d == e),
        },
    }
}

#[tokio::test]
async fn scratch_preexisting() -> Result<()> {
    let md = FieldMetadata::from(BTreeMap::from([("k".to_string(), "v".to_string())]));
    check_expr("literal-metadata", Expr::Literal(ScalarValue::Int32(Some(1)), Some(md)));
    check_expr("integer-divide", Expr::BinaryExpr(BinaryExpr::new(Box::new(col("a")), Operator::IntegerDivide, Box::new(lit(2)))));
    check_expr("like-escape-multibyte", Expr::Like(Like::new(false, Box::new(col("a")), Box::new(lit("x")), Some('é'), false)));
    check_expr("similar-to-ci", Expr::SimilarTo(Like::new(false, Box::new(col("a")), Box::new(lit("x")), None, true)));

    let queries = [
        ("limit-none", "SELECT a FROM t1 OFFSET 1", false),
        ("copy-options", "COPY t1 TO '/tmp/x_c35.csv' OPTIONS ('format.delimiter' ';')", false),
        ("union3-opt", "SELECT a FROM t1 UNION ALL SELECT a FROM t1 UNION ALL SELECT b FROM t1", true),
        ("empty-rel-opt", "SELECT a FROM t1 WHERE false", true),
        ("scan-fetch-opt", "SELECT a FROM t1 LIMIT 1", true),
    ];
    for (name, q, opt) in queries {
        let ctx = SessionContext::new();
        ctx.register_csv("t1", "tests/testdata/test.csv", CsvReadOptions::default()).await?;
        let df = ctx.sql(q).await?;
        let plan = if opt { df.into_optimized_plan()? } else { df.logical_plan().clone() };
        match logical_plan_to_bytes(&plan) {
            Err(e) => println!("[{name}] encode failed: {e}"),
            Ok(b) => match logical_plan_from_bytes(&b, &SessionContext::new().task_ctx()) {
                Err(e) => println!("[{name}] VIOLATION decode failed: {e}\n{plan}"),
                Ok(d) => println!("[{name}] same_text={}\n--orig\n{plan}\n--decoded\n{d}", format!("{plan}") == format!("{d}")),
            },
        }
    }
    Ok(())
}
