// F20 (C38): the unparser never reads Join.null_equality nor Join.null_aware: joins the optimizer builds with NULL-equal keys
// (INTERSECT / EXCEPT) or null-aware anti semantics (NOT IN) are unparsed as ordinary joins, and the SQL text means something else.
// Drop into datafusion/substrait/tests/ (any test crate that depends on `datafusion` will do) and run:
//   cargo test --offline -p datafusion-substrait --test f20_unparser_join_flags -- --nocapture
// The tests PASS when the defect is present and print the SQL text and both results.
use datafusion::prelude::*;
use datafusion::sql::unparser::plan_to_sql;

async fn ctx() -> SessionContext {
    let ctx = SessionContext::new();
    ctx.sql("CREATE TABLE t1(a INT) AS VALUES (1), (2), (NULL)").await.unwrap().collect().await.unwrap();
    ctx.sql("CREATE TABLE t2(b INT) AS VALUES (1), (NULL)").await.unwrap().collect().await.unwrap();
    ctx
}

async fn run(ctx: &SessionContext, sql: &str) -> Result<Vec<String>, String> {
    let df = ctx.sql(sql).await.map_err(|e| e.to_string())?;
    let batches = df.collect().await.map_err(|e| e.to_string())?;
    let text = datafusion::arrow::util::pretty::pretty_format_batches(&batches).unwrap().to_string();
    let mut rows: Vec<String> = text.lines().skip(3).filter(|l| l.starts_with('|')).map(|l| l.trim().to_string()).collect();
    rows.sort();
    Ok(rows)
}

async fn case(sql: &str, marker: &str) -> (Vec<String>, Result<Vec<String>, String>) {
    let ctx = ctx().await;
    let plan = ctx.sql(sql).await.unwrap().into_optimized_plan().unwrap();
    let shown = format!("{}", plan.display_indent());
    println!("optimized plan:\n{shown}");
    assert!(shown.contains(marker), "the optimizer no longer builds a join with `{marker}` for this query");
    let text = plan_to_sql(&plan).expect("the unparser accepts the plan").to_string();
    println!("unparsed SQL: {text}");
    let original = run(&ctx, sql).await.unwrap();
    let after = run(&ctx, &text).await;
    println!("original rows: {original:?}\nrows of the unparsed SQL: {after:?}");
    (original, after)
}

#[tokio::test]
async fn intersect_loses_null_equality() {
    // INTERSECT treats NULLs as equal: the NULL row is in both inputs
    let (original, after) = case("SELECT a FROM t1 INTERSECT SELECT b FROM t2", "Join").await;
    assert_eq!(original.len(), 2);
    assert_ne!(Ok(original), after, "DEFECT ABSENT");
}

#[tokio::test]
async fn not_in_loses_null_awareness() {
    let (original, after) = case("SELECT a FROM t1 WHERE a NOT IN (SELECT b FROM t2)", "null_aware").await;
    assert_eq!(original.len(), 0);
    assert_ne!(Ok(original), after, "DEFECT ABSENT");
}
