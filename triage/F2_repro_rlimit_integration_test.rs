//! F2 reproduction through the public API only: make `write_all` on the real
//! spill temp file fail with EFBIG via RLIMIT_FSIZE (own process: integration test).
#![cfg(unix)]

use datafusion_execution::disk_manager::DiskManagerBuilder;
use std::io::Write;
use std::sync::Arc;

#[test]
fn f2_rlimit_fsize_failed_write_leaks_used_disk_space() {
    unsafe {
        // otherwise the process is killed by SIGXFSZ instead of getting EFBIG
        libc::signal(libc::SIGXFSZ, libc::SIG_IGN);
        let lim = libc::rlimit {
            rlim_cur: 4096,
            rlim_max: 4096,
        };
        assert_eq!(libc::setrlimit(libc::RLIMIT_FSIZE, &lim), 0);
    }

    let dm = Arc::new(DiskManagerBuilder::default().build().unwrap());
    let file = dm.create_tmp_file("f2 rlimit").unwrap();
    let mut writer = file.open_writer().unwrap();

    writer.write_all(&[1u8; 4096]).unwrap(); // fills file up to RLIMIT_FSIZE
    assert_eq!(dm.used_disk_space(), 4096);

    let err = writer.write_all(&[2u8; 1000]).unwrap_err(); // EFBIG
    println!("F2(rlimit): write_all error: {err}");
    println!(
        "F2(rlimit): after failed write: used_disk_space={} file.size={:?}",
        dm.used_disk_space(),
        file.size()
    );
    drop(writer);
    drop(file);
    println!(
        "F2(rlimit): after dropping writer+file: used_disk_space={}",
        dm.used_disk_space()
    );
    assert_eq!(dm.used_disk_space(), 0, "used_disk_space leaked");
}
