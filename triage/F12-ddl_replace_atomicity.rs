// Licensed to the Apache Software Foundation (ASF) under one
// or more contributor license agreements.  See the NOTICE file
// distributed with this work for additional information
// regarding copyright ownership.  The ASF licenses this file
// to you under the Apache License, Version 2.0 (the
// "License"); you may not use this file except in compliance
// with the License.  You may obtain a copy of the License at
//
//   http://www.apache.org/licenses/LICENSE-2.0
//
// Unless required by applicable law or agreed to in writing,
// software distributed under the License is distributed on an
// "AS IS" BASIS, WITHOUT WARRANTIES OR CONDITIONS OF ANY
// KIND, either express or implied.  See the License for the
// specific language governing permissions and limitations
// under the License.

//! A failing CREATE OR REPLACE must leave the existing table in place.

use datafusion::prelude::SessionContext;
use datafusion_common::Result;

#[tokio::test]
async fn failed_create_or_replace_table_keeps_old_table() -> Result<()> {
    let ctx = SessionContext::new();
    ctx.sql("CREATE TABLE u(b INT) AS VALUES (0)").await?.collect().await?;
    ctx.sql("CREATE TABLE t AS VALUES (1)").await?.collect().await?;
    // the defining query fails while it runs (division by zero)
    let res = ctx.sql("CREATE OR REPLACE TABLE t AS SELECT 10 / b FROM u").await;
    assert!(res.is_err(), "the defining query must fail");
    let rows = ctx.sql("SELECT * FROM t").await?.collect().await?;
    assert_eq!(rows.iter().map(|b| b.num_rows()).sum::<usize>(), 1);
    Ok(())
}

#[tokio::test]
async fn failed_create_or_replace_external_table_keeps_old_table() -> Result<()> {
    let ctx = SessionContext::new();
    ctx.sql("CREATE TABLE t AS VALUES (1)").await?.collect().await?;
    // no table factory is registered for this format
    let res = ctx
        .sql("CREATE OR REPLACE EXTERNAL TABLE t STORED AS NOSUCHFORMAT LOCATION '/tmp/nosuch/'")
        .await;
    assert!(res.is_err(), "the statement must fail");
    let rows = ctx.sql("SELECT * FROM t").await?.collect().await?;
    assert_eq!(rows.iter().map(|b| b.num_rows()).sum::<usize>(), 1);
    Ok(())
}
