// Licensed to the Apache Software Foundation (ASF) under one
// or more contributor license agreements.  See the NOTICE file
// distributed with this work for additional information
// regarding copyright ownership.  The ASF licenses this file
// to you under the Apache License, Version 2.0 (the
// "License"); you may not use this file except in compliance
// with the License.  You may obtain a copy of the License at
//
//   http://www.apache.org/licenses/LICENSE-2.0
//
// Unless required by applicable law or agreed to in writing,
// software distributed under the License is distributed on an
// "AS IS" BASIS, WITHOUT WARRANTIES OR CONDITIONS OF ANY
// KIND, either express or implied.  See the License for the
// specific language governing permissions and limitations
// under the License.

//! A failing UPDATE / DELETE on a multi-partition MemTable must leave the table untouched.

use std::sync::Arc;

use arrow::array::{Int32Array, RecordBatch};
use arrow::datatypes::{DataType, Field, Schema};
use datafusion::datasource::MemTable;
use datafusion::prelude::SessionContext;
use datafusion_common::Result;

fn two_partition_table() -> Result<Arc<MemTable>> {
    let schema = Arc::new(Schema::new(vec![
        Field::new("a", DataType::Int32, false),
        Field::new("b", DataType::Int32, false),
    ]));
    let p0 = RecordBatch::try_new(
        Arc::clone(&schema),
        vec![
            Arc::new(Int32Array::from(vec![1, 2])),
            Arc::new(Int32Array::from(vec![1, 1])),
        ],
    )?;
    // the second partition makes `10 / b` fail
    let p1 = RecordBatch::try_new(
        Arc::clone(&schema),
        vec![
            Arc::new(Int32Array::from(vec![3])),
            Arc::new(Int32Array::from(vec![0])),
        ],
    )?;
    Ok(Arc::new(MemTable::try_new(schema, vec![vec![p0], vec![p1]])?))
}

async fn contents(ctx: &SessionContext) -> Result<Vec<(i32, i32)>> {
    let batches = ctx.sql("SELECT a, b FROM t ORDER BY a").await?.collect().await?;
    let mut out = vec![];
    for b in batches {
        let a = b.column(0).as_any().downcast_ref::<Int32Array>().unwrap();
        let bb = b.column(1).as_any().downcast_ref::<Int32Array>().unwrap();
        for i in 0..b.num_rows() {
            out.push((a.value(i), bb.value(i)));
        }
    }
    Ok(out)
}

#[tokio::test]
async fn failed_update_leaves_table_untouched() -> Result<()> {
    let ctx = SessionContext::new();
    ctx.register_table("t", two_partition_table()?)?;
    let before = contents(&ctx).await?;
    let res = ctx.sql("UPDATE t SET a = 10 / b").await?.collect().await;
    assert!(res.is_err(), "division by zero in the second partition must fail");
    assert_eq!(before, contents(&ctx).await?);
    Ok(())
}

#[tokio::test]
async fn failed_delete_leaves_table_untouched() -> Result<()> {
    let ctx = SessionContext::new();
    ctx.register_table("t", two_partition_table()?)?;
    let before = contents(&ctx).await?;
    let res = ctx.sql("DELETE FROM t WHERE 10 / b > 0").await?.collect().await;
    assert!(res.is_err(), "division by zero in the second partition must fail");
    assert_eq!(before, contents(&ctx).await?);
    Ok(())
}
