//! F4: HashJoinExec / NestedLoopJoinExec declare `EmissionType::Incremental` for
//! `JoinType::LeftSemi` (bounded build side, incremental probe side) although
//! left-semi rows are only produced in the final phase, after the probe side is
//! exhausted. With an unbounded probe side the plan passes `SanityCheckPlan` but
//! never produces the matched rows.

use std::fmt::Debug;
use std::sync::Arc;
use std::time::Duration;

use arrow::array::{ArrayRef, Int32Array};
use arrow::datatypes::{DataType, Field, Schema, SchemaRef};
use arrow::record_batch::RecordBatch;
use datafusion_common::config::ConfigOptions;
use datafusion_common::{JoinSide, JoinType, NullEquality, Result};
use datafusion_execution::config::SessionConfig;
use datafusion_execution::{SendableRecordBatchStream, TaskContext};
use datafusion_expr::Operator;
use datafusion_physical_expr::expressions::{BinaryExpr, Column};
use datafusion_physical_optimizer::PhysicalOptimizerRule;
use datafusion_physical_optimizer::join_selection::JoinSelection;
use datafusion_physical_optimizer::sanity_checker::SanityCheckPlan;
use datafusion_physical_plan::joins::utils::{ColumnIndex, JoinFilter};
use datafusion_physical_plan::joins::{HashJoinExec, NestedLoopJoinExec, PartitionMode};
use datafusion_physical_plan::stream::RecordBatchStreamAdapter;
use datafusion_physical_plan::streaming::{PartitionStream, StreamingTableExec};
use datafusion_physical_plan::{ExecutionPlan, ExecutionPlanProperties, displayable};
use futures::StreamExt;

fn schema() -> SchemaRef {
    Arc::new(Schema::new(vec![Field::new("k", DataType::Int32, false)]))
}

fn batch(vals: Vec<i32>) -> RecordBatch {
    let a: ArrayRef = Arc::new(Int32Array::from(vals));
    RecordBatch::try_new(schema(), vec![a]).unwrap()
}

#[derive(Debug, Clone, Copy)]
enum Tail {
    /// stream ends after the initial batches (bounded source)
    End,
    /// stream stays `Pending` forever after the initial batches
    PendingForever,
    /// stream keeps yielding non-matching batches forever (every 10ms)
    NonMatchingForever,
}

#[derive(Debug)]
struct TestPartition {
    schema: SchemaRef,
    first: Vec<RecordBatch>,
    tail: Tail,
}

impl PartitionStream for TestPartition {
    fn schema(&self) -> &SchemaRef {
        &self.schema
    }
    fn execute(&self, _ctx: Arc<TaskContext>) -> SendableRecordBatchStream {
        let first = futures::stream::iter(self.first.clone().into_iter().map(Ok));
        let s: futures::stream::BoxStream<'static, Result<RecordBatch>> = match self.tail
        {
            Tail::End => first.boxed(),
            Tail::PendingForever => first.chain(futures::stream::pending()).boxed(),
            Tail::NonMatchingForever => first
                .chain(futures::stream::unfold(1000i32, |i| async move {
                    tokio::time::sleep(Duration::from_millis(10)).await;
                    Some((Ok(batch(vec![i, i + 1])), i + 2))
                }))
                .boxed(),
        };
        Box::pin(RecordBatchStreamAdapter::new(Arc::clone(&self.schema), s))
    }
}

fn source(first: Vec<RecordBatch>, tail: Tail) -> Arc<dyn ExecutionPlan> {
    let infinite = !matches!(tail, Tail::End);
    Arc::new(
        StreamingTableExec::try_new(
            schema(),
            vec![Arc::new(TestPartition {
                schema: schema(),
                first,
                tail,
            })],
            None,
            vec![],
            infinite,
            None,
        )
        .unwrap(),
    )
}

fn hash_join(
    join_type: JoinType,
    mode: PartitionMode,
    tail: Tail,
) -> Arc<dyn ExecutionPlan> {
    let left = source(vec![batch(vec![1, 2, 3])], Tail::End); // bounded build side
    let right = source(vec![batch(vec![2, 99])], tail); // unbounded probe side
    let on = vec![(
        Arc::new(Column::new("k", 0)) as _,
        Arc::new(Column::new("k", 0)) as _,
    )];
    Arc::new(
        HashJoinExec::try_new(
            left,
            right,
            on,
            None,
            &join_type,
            None,
            mode,
            NullEquality::NullEqualsNothing,
            false,
        )
        .unwrap(),
    )
}

fn nl_join(join_type: JoinType, tail: Tail) -> Arc<dyn ExecutionPlan> {
    let left = source(vec![batch(vec![1, 2, 3])], Tail::End);
    let right = source(vec![batch(vec![2, 99])], tail);
    let inter = Arc::new(Schema::new(vec![
        Field::new("l", DataType::Int32, false),
        Field::new("r", DataType::Int32, false),
    ]));
    let expr = Arc::new(BinaryExpr::new(
        Arc::new(Column::new("l", 0)),
        Operator::Eq,
        Arc::new(Column::new("r", 1)),
    ));
    let filter = JoinFilter::new(
        expr,
        vec![
            ColumnIndex {
                index: 0,
                side: JoinSide::Left,
            },
            ColumnIndex {
                index: 0,
                side: JoinSide::Right,
            },
        ],
        inter,
    );
    Arc::new(
        NestedLoopJoinExec::try_new(left, right, Some(filter), &join_type, None).unwrap(),
    )
}

/// Returns Some(rows) if a batch is delivered within 3 seconds, None on timeout.
async fn first_batch_within_3s(
    plan: &Arc<dyn ExecutionPlan>,
    batch_size: usize,
) -> Option<usize> {
    // NOTE: join output goes through a coalescer that only releases a batch once
    // `batch_size` rows are buffered; `batch_size = 1` removes that confounder.
    let ctx = Arc::new(
        TaskContext::default()
            .with_session_config(SessionConfig::new().with_batch_size(batch_size)),
    );
    let mut stream = plan.execute(0, ctx).unwrap();
    loop {
        match tokio::time::timeout(Duration::from_secs(3), stream.next()).await {
            Err(_) => return None,
            Ok(None) => panic!("stream over an unbounded input ended"),
            Ok(Some(b)) => {
                let b = b.unwrap();
                if b.num_rows() > 0 {
                    return Some(b.num_rows());
                }
            }
        }
    }
}

fn describe(label: &str, plan: &Arc<dyn ExecutionPlan>) -> bool {
    let cfg = ConfigOptions::default();
    let sanity = SanityCheckPlan::new().optimize(Arc::clone(plan), &cfg);
    println!(
        "{label}: boundedness={:?} pipeline_behavior={:?} SanityCheckPlan={}",
        plan.boundedness(),
        plan.pipeline_behavior(),
        match &sanity {
            Ok(_) => "ACCEPTED".to_string(),
            Err(e) => format!("REJECTED ({})", e.strip_backtrace()),
        }
    );
    sanity.is_ok()
}

#[tokio::test(flavor = "multi_thread", worker_threads = 2)]
async fn f4_hash_join_left_semi_unbounded_probe() {
    let mut left_semi_outputs = vec![];
    for batch_size in [1usize, 8192] {
        for tail in [Tail::PendingForever, Tail::NonMatchingForever] {
            println!("==== HashJoinExec, batch_size={batch_size}, probe-side tail={tail:?}");
            for jt in [JoinType::Inner, JoinType::RightSemi, JoinType::LeftSemi] {
                let plan = hash_join(jt, PartitionMode::CollectLeft, tail);
                let accepted = describe(&format!("HashJoin {jt:?}"), &plan);
                let out = first_batch_within_3s(&plan, batch_size).await;
                println!("HashJoin {jt:?}: first non-empty batch within 3s = {out:?}");
                if batch_size == 1 {
                    match jt {
                        // control: matching row (k=2) is delivered
                        JoinType::Inner | JoinType::RightSemi => {
                            assert_eq!(out, Some(1))
                        }
                        _ => {
                            assert!(accepted);
                            left_semi_outputs.push(out)
                        }
                    }
                }
            }
        }
    }
    // The expectation for an operator declared "Incremental" and accepted by
    // SanityCheckPlan is that the matched row is delivered.
    // This assertion FAILS on the pinned commit (None, None).
    assert_eq!(
        left_semi_outputs,
        vec![Some(1), Some(1)],
        "LeftSemi declared Incremental + accepted by SanityCheckPlan, but no row within 3s"
    );
}

#[tokio::test(flavor = "multi_thread", worker_threads = 2)]
async fn f4_nested_loop_join_left_semi_unbounded_probe() {
    let batch_size = 1;
    let mut left_semi_outputs = vec![];
    for tail in [Tail::PendingForever, Tail::NonMatchingForever] {
        println!(
            "==== NestedLoopJoinExec, batch_size={batch_size}, probe-side tail={tail:?}"
        );
        for jt in [JoinType::Inner, JoinType::RightSemi, JoinType::LeftSemi] {
            let plan = nl_join(jt, tail);
            let accepted = describe(&format!("NLJ {jt:?}"), &plan);
            let out = first_batch_within_3s(&plan, batch_size).await;
            println!("NLJ {jt:?}: first non-empty batch within 3s = {out:?}");
            match jt {
                JoinType::Inner => assert_eq!(out, Some(1)),
                // NLJ RightSemi only releases the rows of right batch N when right
                // batch N+1 arrives, so it is a valid control only when the probe
                // side keeps producing batches.
                JoinType::RightSemi => {
                    if matches!(tail, Tail::NonMatchingForever) {
                        assert_eq!(out, Some(1))
                    }
                }
                _ => {
                    assert!(accepted);
                    left_semi_outputs.push(out)
                }
            }
        }
    }
    // FAILS on the pinned commit (None, None)
    assert_eq!(
        left_semi_outputs,
        vec![Some(1), Some(1)],
        "NLJ LeftSemi declared Incremental + accepted by SanityCheckPlan, but no row within 3s"
    );
}

/// What does JoinSelection do with (bounded LEFT) LeftSemi (unbounded RIGHT)?
#[test]
fn f4_join_selection_does_not_rewrite() {
    let cfg = ConfigOptions::default();
    for mode in [
        PartitionMode::Auto,
        PartitionMode::CollectLeft,
        PartitionMode::Partitioned,
    ] {
        let plan = hash_join(JoinType::LeftSemi, mode, Tail::PendingForever);
        let optimized = JoinSelection::new().optimize(plan, &cfg).unwrap();
        println!(
            "JoinSelection(input mode={mode:?}) =>\n{}",
            displayable(optimized.as_ref()).indent(true)
        );
        describe("  after JoinSelection", &optimized);
    }
    // the mirror image IS rewritten: (unbounded LEFT) LeftSemi (bounded RIGHT)
    let left = source(vec![batch(vec![2, 99])], Tail::PendingForever);
    let right = source(vec![batch(vec![1, 2, 3])], Tail::End);
    let on = vec![(
        Arc::new(Column::new("k", 0)) as _,
        Arc::new(Column::new("k", 0)) as _,
    )];
    let plan: Arc<dyn ExecutionPlan> = Arc::new(
        HashJoinExec::try_new(
            left,
            right,
            on,
            None,
            &JoinType::LeftSemi,
            None,
            PartitionMode::CollectLeft,
            NullEquality::NullEqualsNothing,
            false,
        )
        .unwrap(),
    );
    describe("mirror (unbounded LeftSemi bounded) before JoinSelection", &plan);
    let optimized = JoinSelection::new().optimize(plan, &cfg).unwrap();
    println!(
        "mirror after JoinSelection =>\n{}",
        displayable(optimized.as_ref()).indent(true)
    );
    describe("mirror after JoinSelection", &optimized);
}
