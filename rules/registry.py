"""Which properties are claimed (with level text) and why the others are not."""

HOOK_COMMITS = []
DEFAULT_NOTE = ('Trusted base: rustc nightly front end and mir_built (same source, same cfgs/features as the real build; '
                'compiler version differs from the pinned stable only in channel), the dfscan exporter, the python analyses '
                'in rules/, the reference models in oracles/, and the frozen exemption lists in the rule file (each one '
                'symbol + reason). Decides the named structural clauses only — never the runtime behaviour as a whole.')
PENDING = 'static check for this property is not built yet (see DESIGN.md Appendix B for the planned clause); not claimed'

CLAIMED = {
    'C02': {
        'technique': 'static analysis: finite-domain constant propagation over MIR + reference join model; sibling agreement of swap_inputs',
        'level': ('Static, exhaustive over the ten join types: JoinType::swap/JoinSide::negate are involutions and agree with a '
                  'brute-force relational model; every swap_inputs implementation (4 today) is explored symbolically per join '
                  'type and must pass the swapped type, exchanged children, exchanged on-pairs, JoinFilter::swap, '
                  'swap_join_projection and reorder the output exactly when both sides are in the output. These are necessary '
                  'conditions for statistics-driven join-side selection not to change results; batch size, thresholds and '
                  'schedules are not decided.'),
    },
}

CLAIMED.update({
    'C03': {
        'technique': 'static analysis: finite-domain constant propagation over MIR + reference join model as a soundness bound',
        'level': ('Static, exhaustive over join types x flags: the decision tables that gate join rewrites (lr_is_preserved, '
                  'on_lr_is_preserved + optimizer alias, eliminate_outer, the join arm of PropagateEmptyRelation over the named '
                  'locals left_empty/right_empty incl. NULL-padded and pass-through replacements, push_down_join limits) are '
                  'extracted from MIR and each enabled rewrite must be an identity in a brute-force relational model. A wrong '
                  'entry is exactly "filter pushed below the null-supplying side". The mechanics of the rewrites and all other '
                  'rules are not decided.'),
    },
    'C05': {
        'technique': 'static analysis: finite-domain constant propagation over MIR + reference join model bounds + cross-table laws; state-machine extraction (transitions with path conditions) and finaliser-bypass contradiction rule',
        'level': ('Static, exhaustive over the ten join types (x JoinSide): final-emission tables of hash/NLJ/symmetric/piecewise '
                  'joins lie between the must/may bounds of the model, symmetric == asymmetric under negate+swap, empty-build/empty-map '
                  'short-circuits only where the model result is empty, probe-side tables stream a side that is in the output, '
                  'build_join_schema reads exactly the sides the model outputs and adds a non-nullable mark column only for mark '
                  'joins; in the nested-loop join stream state machine (terminal / finaliser states and the entry condition of the finaliser derived '
                  'from the code) no handler jumps to Done on a path that does not exclude the condition under which the global right-unmatched emission is owed. '
                  'Hash maps, bitmaps, cursors, filters and batching are not decided.'),
    },
    'C28': {
        'technique': 'static analysis: finite-domain constant propagation over MIR; cross-table consistency of sibling decision tables',
        'level': ('Static, exhaustive per join type: a join operator (Hash, NLJ, SMJ, PWMJ) may declare a side order-preserving '
                  'only if it is the probe side of that operator and the operator appends no rows of that type after the probe phase '
                  '(its own tables); RepartitionExec declares order only under preserve_order or one input partition; the function joining the '
                  'equivalence groups of two join children does not carry the classes of a side over verbatim (constants kept) for a join type that can '
                  'NULL-extend that side (20 (join type, side) pairs against the reference model). Equivalence '
                  'classes, monotonicity and partitioning keys are value-dependent and not decided.'),
    },
    'C30': {
        'technique': 'static analysis: finite-domain constant propagation over MIR + reference join model; logical/physical sibling tables; CFG extraction of unguarded match arms (sibling agreement of two tables over Expr)',
        'level': ('Static, exhaustive (10 join types x 2 sides): join output nullability — whenever the model can NULL-extend a side '
                  'its fields are forced nullable, in the physical output_join_field and in the logical build_join_schema, and the '
                  'two agree on every side present in the output; and every expression kind that the CASE reachability analysis treats as '
                  'strict (NULL exactly when a child is NULL; 6 kinds, read off the CFG) has a nullable() that is not constantly true. '
                  'Only these two clauses of C30 are decided (no data types, no function return types, no runtime batches).'),
    },
})

CLAIMED.update({
    "C04": {
        "technique": "static analysis: exhaustive table extraction from MIR vs a 3-valued operator model; census of Operator->Operator mappings",
        "level": ("Static, exhaustive over all Operator variants: negate / swap / returns_null_on_null / is_logic_operator are extracted "
                  "from MIR and must satisfy NOT-, mirror- and NULL-propagation laws in a 3-valued SQL model (for pattern operators: for "
                  "every interpretation of the underlying predicate); every other Operator->Operator function in the workspace must "
                  "delegate to them or satisfy a law itself. This is the algebra NOT push-down, canonicalisation and guarantee "
                  "rewriting rely on; the individual pattern rewrites, constant folding and casts are not decided."),
    },
    "C49": {
        "technique": "static analysis: finite-domain path exploration over MIR (A1) of every DDL handler (flags x existence-probe outcome) against the SQL decision table",
        "level": ("Static, exhaustive over the decision domain: for every CREATE/DROP handler of SessionContext (found by the DdlStatement payload type) "
                  "and every combination of IF NOT EXISTS / OR REPLACE / IF EXISTS with object exists / missing, the handler's paths register, replace, "
                  "leave alone or refuse exactly as the SQL model says (36 cells); and once a CREATE OR REPLACE handler has deregistered the old object no fallible step "
                  "precedes the registration of the new one. Name resolution, view contents and the information schema are not decided."),
    },
    "C39": {
        "technique": "static analysis: ordered-trace path exploration over MIR (A2) of every function taking a table-partition write lock: no fallible exit after the first store; origin of the batch handed to expression evaluation",
        "level": ("Static, over every path (loops unrolled twice) of the INSERT sink, DELETE and UPDATE of memory tables (found by the resolved "
                  "RwLock::write callee): a failing statement returns its error before anything is stored into a locked partition (statement atomicity), "
                  "and every assignment / WHERE expression is evaluated over an element of the locked partition, never over a batch rebuilt by the same "
                  "statement (assignments see the pre-update row). Reported counts, NULL handling of the mask and written values are not decided."),
    },
    "C46": {
        "technique": "static analysis: ordered-trace path exploration over MIR (A2) of the placeholder lookup chain (explicit map, environment callback, default capture group)",
        "level": ("Static, every path of the lookup function and of its two consumers in the benchmark runner (found by resolved callees): the environment is "
                  "consulted only after the explicit map answered None, a map hit is returned as is, and the `:-default` value is used only where the lookup "
                  "answered None (in Option combinators the lookup is the receiver). Decides the precedence clause only; validation of persisted results "
                  "(CSV text round trip, cell comparison) is value-level and not decided."),
    },
    "C47": {
        "technique": "static analysis: exhaustive table extraction from MIR; symmetry + integer-range containment; one-sided match-arm detection",
        "level": ("Static, exhaustive: numerical_coercion over all 121 ordered pairs of integer/float types is symmetric and, for "
                  "integer pairs, range-preserving (no wrapping cast); every helper in the comparison_coercion chain gives the same "
                  "abstract result for both operand orders over all 41x41 DataType variant pairs; Operator::swap obeys the mirror law. "
                  "Decimal precision/scale arithmetic, string and temporal payloads are not decided."),
    },
})

CLAIMED.update({
    "C29": {
        "technique": "static analysis: finite-domain path exploration over MIR with exactness kinds as the domain (incl. tracked &mut referents); field coverage",
        "level": ("Static, exhaustive over input exactness kinds {Exact, Inexact, Absent}: every Precision combinator in "
                  "datafusion-common (19 today: methods and in-place precision_* helpers) can yield an Exact result only when all "
                  "Precision inputs are Exact; Statistics::to_inexact / ColumnStatistics::to_inexact demote every Precision field. "
                  "This is a necessary condition for 'exact means exact'; which operators downgrade when, and the values "
                  "themselves, are not decided."),
    },
    "C50": {
        "technique": "static analysis: finite-domain constant propagation over MIR; guard dominance of the sanity check; declared-vs-actual emission cross-table",
        "level": ("Static: check_finiteness_requirements returns Err on every (boundedness, emission) combination that is unbounded "
                  "and pipeline-breaking (exhaustive over the finite domain); and for the join operators that derive their "
                  "EmissionType from the join type, a type declared Incremental is not one whose rows the operator emits only in "
                  "its final phase. The second rule fails on today's tree for LeftSemi in HashJoinExec and NestedLoopJoinExec — a "
                  "genuine defect reproduced at run time and recorded in known_findings.json. Run-time liveness of streams is not "
                  "decided."),
    },
})

CLAIMED.update({
    "C16": {
        "technique": "static analysis: exhaustive path enumeration over MIR with symbolic guards/places; lock-discipline, hand-off pairing, pending-needs-waker, publication-order rules over event traces",
        "level": ("Static, all paths of every function in spill_pool.rs (loops unrolled twice): never both locks held; every Pending "
                  "return registered the waker through a live guard or delegates; remaining_writer_count written only by new_sink(+1) "
                  "and Drop(-1) and the last-writer path finalises every open file and wakes the pool reader; in push_batch every exit "
                  "after a file left open_write_files either re-queues it or seals it and wakes its reader (this rule found the hang "
                  "repaired by fix commit 476b10e); batches_written is published only after append+flush and followed by a wake. "
                  "Exactly-once delivery and order of values are not decided."),
    },
    "C21": {
        "technique": "static analysis: exhaustive path enumeration over MIR with symbolic place tags; charge pairing / ordering rules over event traces; who-may-write census",
        "level": ("Static, all paths of FileSpillWriter::write, Drop for RefCountedTempFile and DiskManager::create_tmp_file: every charge "
                  "of used_disk_space is rolled back on error exits or transferred to the file's own usage on success (found the leak "
                  "repaired by fix commit a1882c1); charge and limit lookup precede the write; the last-reference drop subtracts exactly "
                  "the file's recorded usage once; active_files_count is incremented only on the path that returns the handle (fix "
                  "da8a358); the three counters are written by no other function. The IPC byte round trip is not decided."),
    },
})

CLAIMED.update({
    "C15": {
        "technique": "static analysis: exhaustive path enumeration over MIR with symbolic guards/places; lock-order graph, pending-needs-waker-under-guard, taken-wakers-woken, sender-count pairing",
        "level": ("Static, all paths of every function in distributor_channels.rs (helpers inlined one level, loops unrolled twice): the "
                  "only guard nesting is Channel.state -> Gate.send_wakers; every Pending of SendFuture/RecvFuture::poll pushed a clone of "
                  "cx.waker() into a list reached through a guard that is still live; every waker list taken out of shared state is "
                  "iterated and each element woken; pushing into an empty queue takes the receiver wakers; receiver drop wakes the "
                  "channel's senders; n_senders is incremented by Clone and decremented by Drop exactly once, recv_wakers closes only "
                  "after the decrement, and n_senders / empty_channels have no other writers. These are necessary conditions for "
                  "no-deadlock / no-lost-wake-up under every schedule; value order and exactly-once delivery are not decided."),
    },
})

CLAIMED.update({
    "C17": {
        "technique": "static analysis: exhaustive path enumeration over MIR; symbolic counter-delta balance per path; sibling agreement of trait impls; impl/constructor census from the type-checked program",
        "level": ("Static, all paths: every MemoryReservation method changes `size` by exactly the amount it passes to the pool (error "
                  "paths commit nothing; split moves size into the new reservation); each of the 5 MemoryPool impls adds exactly "
                  "`additional` / subtracts exactly `shrink` on the counters reserved() reads, try_grow charges on the Ok path only and "
                  "finite pools can reject; wrapper pools delegate exactly once with the same operands and track only after success; "
                  "Drop reaches free/unregister; MemoryReservation is not Clone/Copy, has private fields and three constructors. "
                  "Necessary for reserved() == sum of live reservations; the concurrent clauses (peaks under interleaving, fair-share "
                  "arithmetic) are not decided."),
    },
})

CLAIMED.update({
    "C31": {
        "technique": "static analysis: exhaustive path enumeration over MIR with symbolic guards (atomic read/write of (expr, generation), monotone cache edge, lock graph) + finite gate table vs join model",
        "level": ("Static, all paths: current() takes expression and generation from one read guard; update() stores the new expression with "
                  "generation+1 under one write guard and notifies after release; the remap cache is overwritten only on the "
                  "generation > cached edge; no function of the module nests the inner and cache locks; and the hash-join gate can enable "
                  "probe-side dynamic filters only for join types where dropping unmatched probe rows is an identity in the reference "
                  "model (exhaustive over 10 types); every publication path of a publisher type that widens its filter through an expr->expr method of the type "
                  "(the join accumulator's NULL-preserving widening) does so. This decides the second sentence of the property and two gates of the first; the "
                  "contents of bounds / IN lists and timing are not decided."),
    },
})

CLAIMED.update({
    "C40": {
        "technique": "static analysis: exhaustive path enumeration over MIR; entry/size accounting balance per path; guard dominance of validity checks; call-graph reachability of invalidation",
        "level": ("Static, all paths of DefaultCacheState::{put,remove,evict_entries,clear} (+ who-may-write memory_used): each entry entering "
                  "the LRU queue is charged key+value size, each leaving entry is credited both sizes, usage growth and limit reduction reach "
                  "evict_entries; both is_valid_for implementations can return true only through the size and last_modified comparisons; "
                  "both consumers touch the cached payload only behind is_valid_for == true; invalidate_caches drops the table from both "
                  "caches and is reached from both deregistration paths; expired entries are never reported as hits; the expiry stamp of an entry is "
                  "assigned only by constructing the entry (who-may-write on the field, found by type). LRU order and TTL "
                  "arithmetic are not decided."),
    },
})

CLAIMED.update({
    "C19": {
        "technique": "static analysis: type-resolved who-may-call / who-may-hold census over the whole workspace; path rule on Drop; def-use reachability; call-tree search for yield sources",
        "level": ("Static, whole workspace: Drop for SpawnedTask aborts on every path and the handle cannot be cloned or extracted; task and "
                  "thread spawning functions (tokio spawn family, JoinSet::spawn*, Handle/Runtime::spawn*, std::thread) are called only "
                  "inside datafusion-common-runtime and no struct outside it stores a JoinHandle/JoinSet; ReceiverStreamBuilder::build "
                  "moves its JoinSet into the returned stream; each of the 14 types declaring SchedulingType::Cooperative reaches a yield "
                  "source in execute/open (two frozen constant/one-shot streams), and an operator that declares it unconditionally has no execute() path "
                  "that returns the child stream untouched without a yield source. Necessary conditions for 'drop stops background work' "
                  "and for cancellation to take effect; bounded time and per-drop-point behaviour are not decided."),
    },
})

CLAIMED.update({
    "C18": {
        "technique": "static analysis: def-use fate of Result values at every resource-request call site; type-resolved who-may-call / who-may-hold census",
        "level": ("Static, every call site (134 today) of a memory or spill request in the execution crates: the Result is never "
                  "unwrap/expect-ed, and is discarded only at 16 frozen, individually justified sites (failure selects the spill path, "
                  "best-effort resize while draining, destructor); no mem::forget / ManuallyDrop / leak / into_raw in those crates; every "
                  "struct storing a spill file stores the ref-counted handle. Necessary for 'fail cleanly with a resources error and "
                  "release everything'; equality of results under a limit and absence of hangs are not decided."),
    },
    "C20": {
        "technique": "static analysis: def-use fate + path-sensitive Err-arm exploration of every stream item / task-join result over the execution crates",
        "level": ("Static, every call site (about 630 today) in physical-plan, datasource*, execution, common-runtime and core that yields a "
                  "stream item or task result with an engine error type: the Err payload reaches a sink (`?`, return value, channel / "
                  "collection / field, another function, or a whole-value forward); on every explored path where the item is Err the "
                  "error is not replaced by something else (e.g. Poll::Ready(None)). Four sites are frozen with reasons (opt-in "
                  "OnError::Skip, optional bloom filters, cache pre-warm). Necessary for 'no truncated result counts as success'; "
                  "bounded time and hangs are not decided."),
    },
})

CLAIMED.update({
    "C07": {
        "technique": "static analysis: impl/override census from the type-checked program; constant evaluation of capability flags; literal state-vector arity from MIR",
        "level": ("Static, every impl of Accumulator (61) and AggregateUDFImpl (41): supports_retract_batch() constantly true <=> "
                  "retract_batch overridden; groups_accumulator_supported() able to return true => create_groups_accumulator "
                  "overridden; create_sliding_accumulator builds only retractable accumulators; where state() and merge_batch are "
                  "literal (30 impls today, the rest counted as skipped) the number of state values written equals 1 + the largest "
                  "state index read. Necessary for sliding windows and partial->final merging to work at all; the numeric "
                  "split/merge/retract laws are not decided."),
    },
    "C09": {
        "technique": "static analysis: impl/override census + constant evaluation of capability flags against the implementation table documented on the trait",
        "level": ("Static, every impl of PartitionEvaluator (7): the flags uses_window_frame / supports_bounded_execution / include_rank "
                  "(evaluated from MIR, dynamic flags expanded) select only evaluation methods the impl overrides, per the table in the "
                  "trait documentation, so the bounded (streaming) and whole-partition executors never hit a default not-implemented "
                  "method; accumulators used by sliding aggregate windows obey supports_retract_batch <=> retract_batch. Frame arithmetic "
                  "and values are not decided."),
    },
})

CLAIMED.update({
    "C06": {
        "technique": "static analysis: exhaustive table extraction from MIR over AggregateMode; composition law with the partial/final combining rule; per-mode dispatch reachability",
        "level": ("Static, exhaustive over the six aggregate modes (x spilling flag): input_mode/output_mode match the stage semantics; "
                  "CombinePartialFinalAggregate merges only pairs whose merged mode has the inner stage's input mode and the outer "
                  "stage's output mode; in every aggregates function that can call both update_batch and merge_batch (or state and "
                  "evaluate) the value-level method is unreachable under a state-level mode and, in memory, vice versa. A thin necessary "
                  "condition (partial state never evaluated as a value, raw rows never merged as state); group keys, spilling contents, "
                  "TopK and emission are not decided."),
    },
})

CLAIMED.update({
    "C42": {
        "technique": "static analysis: exhaustive evaluation of the recursion combinators over {Continue, Jump, Stop} x flag from MIR; composition order on resolved callees; child-variant coverage of visiting vs rewriting",
        "level": ("Static, exhaustive over the three recursion values (x transformed flag): the six combinators invoke or skip the "
                  "continuation and return the recursion value required by the documented contract; the transformed flag is OR-ed and "
                  "never lost; the default apply / transform_down / transform_up bodies compose callback and combinators in the "
                  "documented order; for Expr and LogicalPlan the set of variants whose children are visited equals the set whose "
                  "children are rewritten. User callbacks and every other TreeNode implementation's child lists are not decided."),
    },
})

CLAIMED.update({
    "C23": {
        "technique": "static analysis: path enumeration over MIR per const-generic instantiation (set/restore pairing, direction table) + origin tracking of interval bounds and of returned pair components (contradiction rule)",
        "level": ("Static: alter_fp_rounding_mode saves, sets, runs the operation and restores the FP rounding mode on every path, upward "
                  "for UPPER=true and downward for UPPER=false; in the 7 functions that build an interval from directed bound "
                  "computations the lower bound derives only from *_bounds::<false> and the upper only from *_bounds::<true> (all "
                  "explored paths); get_inverse_op is the arithmetic inverse and an involution; no function answering a pair of refined intervals "
                  "for two operands builds the pair in both orders (pair orientation, 5 functions). Thin necessary conditions for float "
                  "bounds never being rounded inwards and for propagation not swapping its children; the bound computations, casts and cardinality are not decided."),
    },
})

CLAIMED.update({
    "C35": {
        "technique": "static analysis: exhaustive evaluation of every standalone domain<->protobuf enum conversion pair; operator wire-name round trip",
        "level": ("Static, exhaustive per variant: for the 15 standalone conversion pairs between a fieldless domain enum and its wire enum "
                  "(discovered from all function signatures in the workspace) decode(encode(v)) = v; Operator::from_proto_name and "
                  "from_proto_binary_op map every operator's wire name back to that operator or refuse it with an explicit error (never "
                  "to a different operator); every Expr variant the encoder supports comes back as the same variant through the ExprType oneof (33 pairs); "
                  "every message field is written / read by the logical encoders / decoders, and every field of a plan node / expression payload struct is read "
                  "by the encoder (four fields are not: known findings F16). A wrong tag makes two different plans encode identically. "
                  "Equality of whole plans and the values carried by the fields are not decided."),
    },
    "C36": {
        "technique": "static analysis: exhaustive evaluation of enum conversions; inline enum mappings extracted from try_to_proto / try_from_proto by forcing the domain of the wire-typed local",
        "level": ("Static, exhaustive per variant: for 5 operator enum fields (AggregateExec.mode, HashJoinExec.mode, AnalyzeExec.format, "
                  "SymmetricHashJoinExec.join_type / null_equality) the operator's own try_to_proto and try_from_proto are explored and "
                  "decode(encode(v)) = v; 5 further fields are listed as not extractable (conversion in helpers); plus the 10 standalone "
                  "pairs used by physical plans. Field coverage and equality of whole plans are not decided."),
    },
    "C43": {
        "technique": "static analysis: key/field agreement of set / visit / reset extracted from MIR (string-literal arms, decoded format templates, field tags); exhaustive Display/FromStr round trip of leaf option enums; path rule: no fallible step after a write to self in set()",
        "level": ("Static: for 15 configuration namespaces (about 200 keys) the keys accepted by set, reported by visit and accepted by "
                  "reset coincide and each key touches the same field in all three; an unknown key is rejected without touching a field; "
                  "for 10 leaf option enums from_str(display(v)) = Ok(v) for every variant (Dialect is table-driven and listed as "
                  "undecided); no set() entry point of the configuration module (49) can fail after it has written self (an invalid value is "
                  "rejected without changing any option). Numeric parsing and the SET/SHOW plumbing are not decided."),
    },
})

CLAIMED.update({
    "C34": {
        "technique": "static analysis: per-variant payload-field coverage of Hash::hash vs PartialEq::eq extracted from MIR projections",
        "level": ("Static, every ScalarValue variant with a payload (50): the payload fields read by the Hash impl are a subset of those "
                  "read by the PartialEq impl, and both impls treat floats through their bit pattern. This decides only the clause "
                  "'equal scalars have equal hashes' (a component hashed but not compared breaks it); the other four clauses of C34 "
                  "(array round trips, casts, ordering) are value-level and not decided."),
    },
    "C38": {
        "technique": "static analysis: exhaustive evaluation of the unparser's operator / join mappings composed with the SQL planner's inverse mappings",
        "level": ("Static, exhaustive: for the 40 operators and 8 join types the unparser accepts, the SQL token / JOIN operator it emits is "
                  "mapped back to the same Operator / JoinType by the SQL planner (refused variants and the dialect-dependent Divide are "
                  "listed as skipped). A thin necessary condition of 'generated SQL means the same'; expressions, aliases, subqueries and "
                  "dialect quirks are not decided."),
    },
})

CLAIMED.update({
    "C10": {
        "technique": "static analysis: who-may-seed census and value origin of the routing hash state; call-graph must-reach; exhaustive path enumeration of the task-completion fan-out; pending-needs-delegation on the output stream",
        "level": ("Static: every seeded hash state in physical-plan originates from one of two named constants (or the plan decoder); "
                  "BatchPartitioner::partition_iter and the hash join's partitioned dynamic-filter router both hash with "
                  "REPARTITION_RANDOM_STATE; RangeExpr::evaluate and the batch partitioner share range_partition_id; on all paths of "
                  "RepartitionExec::wait_for_task every output channel taken from the list is sent a terminal message, Some(Err) built "
                  "from the failed task's result in both failure arms and None on success; PerPartitionStream::poll_next_inner returns "
                  "Pending only as the Pending of an inner poll. Necessary conditions of 'equal keys meet' and 'every output sees its "
                  "end or the error'; exact placement, exactly-once delivery, spill order and schedules are not decided."),
    },
})

CLAIMED.update({
    "C53": {
        "technique": "static analysis: census of Stream impls owning a BaselineMetrics vs recorders in their poll_next call tree; exhaustive path enumeration over MIR with value-origin tags (record-once with inner/outer recorder summaries, one registration of output metrics per construction path); who-may-write + value-origin + success-edge ordering for spilled_rows",
        "level": ("Static: every stream type in physical-plan/datasource* that owns a BaselineMetrics (27) records output in the call tree "
                  "of its poll_next or is wrapped in an ObservedStream fed with a clone of its metrics at every construction site (this rule "
                  "found the missing record_poll of the classic piecewise merge join, repaired by fix commit b1f719d); on all paths of the 35 "
                  "functions that record output no value is recorded twice, including record_poll over a local callee that already "
                  "recorded what it returns; on all paths of the 45 functions that register output metrics at most one registration is made "
                  "per produced stream (wrapper and wrapped stream cannot both count: the preserve-order repartition case); spilled_rows is "
                  "written only by InProgressSpillFile::append_batch, exactly once per successful write, with the row count that write "
                  "returned; a recorded poll is not handed to another batch-returning function afterwards (recorded last). Necessary conditions of 'reported rows = emitted rows'; the counts themselves and double counting across "
                  "dyn-dispatched operator boundaries are not decided."),
    },
    "C37": {
        "technique": "static analysis: exhaustive evaluation of the Substrait producer's finite mappings composed with the consumer's inverse mappings (prost TryFrom<i32> modelled from exported discriminants; inline tables extracted by forcing the domain of the wire-typed local)",
        "level": ("Static, exhaustive: consumer(producer(v)) = v for every value of five finite tags the Substrait round trip carries — join type "
                  "(10, also checked against the specification's names), sort direction (asc x nulls_first, both SortField producers), time "
                  "precision (4), window bounds type (Rows/Range; Groups refused), type nullability (incl. Unspecified read as nullable). A "
                  "thin necessary condition of 'same rows after a round trip'; expressions, literals, schemas and function resolution are "
                  "value-level and not decided."),
    },
})

CLAIMED.update({
    "C12": {
        "technique": "static analysis: exhaustive path enumeration over MIR of every function handing a buffer to create_hashes (typestate of the buffer: zeroed / stale), parameter passing followed one level to the callers",
        "level": ("Static, all paths of the 33 functions (non-test, whole workspace) that hand a buffer to create_hashes / "
                  "ChildHashing::create_hashes — the nested-type child hashing, the buffered entry point with_hashes and scalar hashing "
                  "inside datafusion-common, and every user (joins, repartitioning, group-by interning, byte maps, windows, aggregates): the "
                  "buffer is a fresh vec![0; n] or was reset by clear() + resize(n, 0) with no write in between. Necessary for 'equal keys "
                  "(NULL = NULL) hash equally': create_hashes leaves NULL slots untouched, so a stale slot makes the hash depend on an earlier "
                  "batch (found the symmetric hash join defect repaired by fix commit ba1344a). Layout independence of the hash kernels per "
                  "array encoding is value-level and not decided."),
    },
})

CLAIMED.update({
    "C13": {
        "technique": "static analysis: per impl of GroupValues, the sets of self fields written (assigned or mutably borrowed, local helpers followed) by intern / emit / clear_shrink, compared as sibling implementations of 'reset the store'",
        "level": ("Static, every impl of GroupValues (6): each field that emit() resets and intern() advances (group counter, NULL-group id, key "
                  "storage, hash map) is also written by clear_shrink(). Necessary for 'after a clear, ids start at the current group count and the "
                  "reported count equals the live keys' (found clear_shrink forgetting num_groups in the bytes / bytes-view stores and null_group in "
                  "the primitive store; repaired by fix commit 3af9c9c). Which ids are handed out, renumbering after emit-first-n and key equality "
                  "are value-level and not decided."),
    },
})

NA = {
    'C01': 'whole-pipeline value semantics over all queries x all table contents: functional verification, no clause visible in code shape beyond C03/C05/C47',
    'C08': 'ordering/permutation of runtime values (loser tree, cursors, heaps are value algorithms); no structural clause',
    'C11': 'number-theoretic identity over 2^64 x 2^64 values: needs a proof assistant or solver (a different family)',
    'C14': 'chain traversal over runtime hashes and offsets',
    'C22': 'soundness of the min/max rewrite is a semantic argument over value orders; its only table (Operator::swap) is decided under C04/C47',
    'C24': 'equality of row sets over file contents, statistics and reader options; pruning decisions are value computations',
    'C25': 'byte-level encode/decode round trip of arbitrary data through four formats; value properties of writers/parsers',
    'C26': 'quantifies over every byte position of a boundary relative to line breaks; offset arithmetic is not visible in code shape',
    'C27': 'correctness of prefix/glob/partition-value string computations and predicate evaluation over them; value-level',
    'C32': 'per-row value equality of ~600 kernels across encodings; no structural clause',
    'C33': 'per-row value equality between specialised and generic kernels; value-level',
    'C41': 'equality of query results after value substitution; placeholder type inference is data-type computation',
    'C44': 'value-level casting/reordering of columns over all schema pairs',
    'C45': 'behavioural equality through function-pointer tables; the only structural angle would be a name-matching heuristic (brittle proxy)',
    'C48': 'result equality between two plan builders over all operation chains',
    'C51': 'character-level scanning/quoting over all input strings',
    'C52': 'character-level quoting/parsing over all identifiers; a string-function inverse property',
}
