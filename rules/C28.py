"""C28 — declared orderings hold: `maintains_input_order(jt)` of every join operator
against the operator's own probe-side and final-emission tables (cross-table, no
external oracle), and RepartitionExec's order flag guard."""
from jt import *

TECHNIQUE = 'finite-domain constant propagation over MIR (A1); cross-table consistency between sibling decision tables'
EXPLANATION = ('For HashJoinExec, NestedLoopJoinExec, SortMergeJoinExec, PiecewiseMergeJoinExec: the per-join-type '
               'maintains_input_order table is extracted exhaustively and checked against the same operator\'s probe-side and '
               'final-emission tables: a side may be declared order-preserving only if it is the probe/streamed side and the '
               'operator appends no rows of that type after the probe phase; at most one side. RepartitionExec declares '
               'order preservation only under preserve_order or a single input partition. Join constants: the function that combines the '
               'equivalence groups of the two join children (found by signature) does not carry a side\'s classes over by a verbatim clone '
               '(constant markers kept) for a join type where the reference model can NULL-extend that side. Equivalence classes '
               'and monotonic functions (value-dependent) are not decided.')
ASSUMPTIONS = ['HashJoin/NLJ probe side is the right input (HashJoinExec::probe_side is extracted, NLJ by documented convention)',
               'a side whose classes go through a transforming function (not a verbatim clone) is not decided further (the literal-member case of F17 on the right side was found by reading)']

P = 'datafusion_physical_plan::joins::'
SIDE = ['left', 'right']


def mio_table(ctx, rule, fnpath):
    t = jt_table(ctx, rule, fnpath, False)
    if not t:
        return None
    out = {}
    for jt, v in t.items():
        if not isinstance(v, T) or len(v.items) != 2:
            ctx.undecided(rule, fnpath + '(%s)' % jt, 'not a 2-element vector')
            return None
        out[jt] = pair(v)
    return out


def check_mio(ctx, rule, name, t, probe, appends, where):
    bad = 0
    for jt, pr in t.items():
        inst = '%s::maintains_input_order(%s)' % (name, jt)
        problems = []
        if pr[0] and pr[1]:
            problems.append('both sides declared order-preserving')
        for s in (0, 1):
            if pr[s]:
                if probe(jt) != ('Left', 'Right')[s]:
                    problems.append('%s side declared order-preserving but the probe side is %s' % (SIDE[s], probe(jt)))
                if appends(jt):
                    problems.append('%s side declared order-preserving but the operator emits %s rows after the probe phase' % (SIDE[s], jt))
        if problems:
            bad += 1
            ctx.fail(rule, inst, where, '; '.join(problems), key=rule + '|' + inst)
        else:
            ctx.ok(rule, inst, nontrivial=any(pr), sample={'op': name, 'jt': jt, 'declares': pr, 'probe': probe(jt), 'appends_after_probe': appends(jt)})
    return bad


def join_constants(ctx, facts, group_ty='datafusion_physical_expr::equivalence::class::EquivalenceGroup', jt_adt=JT, rule='join-constants-null-extension'):
    """The function that combines the equivalence groups of the two join children (found by signature: two groups and a join type in, a group out):
    for every join type and side, if the reference model can NULL-extend that side, the side's classes must not be carried over by a verbatim clone
    (`iter().cloned()` / `clone()` keeps the constant markers; a constant of that side is NULL in the unmatched rows, so the join would declare a
    constant its output does not have and e.g. a sort or filter on it could be optimised away)."""
    from traces import run_traces
    import re as _re
    cands = []
    for d, i, e in facts.all_fn_entries():
        sg = e[8]
        if not sg or e[4] not in ('fn', 'assoc_fn') or '::test' in d:
            continue
        if sum(1 for t in sg[1:] if t.lstrip('&') == group_ty) == 2 and any(t.lstrip('&') == jt_adt for t in sg[1:]) and group_ty in sg[0]:
            cands.append(d)
    n = 0
    for d in sorted(cands):
        rec = facts.fn(d)
        ctx.analysed_fns.add(d)
        gi = [k for k in range(rec['argc']) if rec['locals'][k + 1][0].lstrip('&') == group_ty]
        ji = [k for k in range(rec['argc']) if rec['locals'][k + 1][0].lstrip('&') == jt_adt][0]
        side_name = {0: 'side0', 1: 'side1'}
        for jtv in enum_domain(facts, jt_adt, rec['locals'][ji + 1][0].startswith('&')):
            args = []
            for k in range(rec['argc']):
                ty = rec['locals'][k + 1][0]
                if k == gi[0]:
                    v = sym('side0')
                elif k == gi[1]:
                    v = sym('side1')
                elif k == ji:
                    args.append(jtv)
                    continue
                else:
                    v = sym('a%d' % k)
                args.append(R(v) if ty.startswith('&') else v)
            try:
                outs = run_traces(facts, rec, args, inline_depth=0, time_budget=20, budget=400000, loop_visits=1, try_tags=True)
            except Undecidable as ex:
                ctx.undecided(rule, '%s(%s)' % (d.rsplit('::', 1)[-1], strip(jtv).name), str(ex))
                continue
            verbatim = set()
            for o in outs:
                r = strip(o.ret)
                if not (isinstance(r, A) and r.name == 'Ok'):
                    continue
                for ev in o.events:
                    if ev[0] == 'callargs' and ev[2]:
                        last = ev[1].rsplit('::', 1)[-1]
                        t0 = tag_of(ev[2][0]) or ''
                        m = _re.match(r'^call:iter@\d+\((side[01])\)$', t0)
                        if last == 'cloned' and m:
                            verbatim.add(int(m.group(1)[-1]))
                        if last == 'clone' and t0 in ('side0', 'side1'):
                            verbatim.add(int(t0[-1]))
            jt = strip(jtv).name
            for side in (0, 1):
                n += 1
                inst = '%s(%s,%s)' % (d.rsplit('::', 1)[-1], jt, SIDE[side])
                ext = oracle('can_null_extend', jt, side)
                if ext and side in verbatim:
                    ctx.fail(rule, inst, ctx.loc(rec), 'a %s join can NULL-extend its %s side, but the %s classes are carried into the joined group by a verbatim clone (constant markers kept): '
                             'a constant of that side is NULL in the unmatched rows' % (jt, SIDE[side], SIDE[side]), key='%s|%s' % (rule, inst))
                else:
                    ctx.ok(rule, inst, nontrivial=ext, sample={'jt': jt, 'side': SIDE[side], 'model_null_extends': ext, 'verbatim_clone': side in verbatim} if ext else None)
    return n


def run(ctx):
    f = ctx.facts
    njc = join_constants(ctx, f)
    ctx.floor('join-constants-null-extension', '(join type, side) pairs decided for the group-joining function', njc, 20)
    final = jt_table(ctx, 'mio', P + 'utils::need_produce_result_in_final', False)
    pw_final = jt_table(ctx, 'mio', P + 'piecewise_merge_join::utils::need_produce_result_in_final', False)
    smj_probe = jt_table(ctx, 'mio', P + 'sort_merge_join::exec::SortMergeJoinExec::probe_side', True)
    pw_probe = jt_table(ctx, 'mio', P + 'piecewise_merge_join::exec::PiecewiseMergeJoinExec::probe_side', True)
    hj_probe = None
    rec = ctx.fn(P + 'hash_join::exec::HashJoinExec::probe_side', 'mio')
    if rec:
        hj_probe = single(Explorer(f).run(rec, []))
        if hj_probe is None:
            ctx.undecided('mio', 'HashJoinExec::probe_side', 'not constant')
    ops = [
        ('HashJoinExec', P + 'hash_join::exec::HashJoinExec::maintains_input_order',
         (lambda jt: hj_probe.name) if hj_probe else None, (lambda jt: b(final[jt])) if final else None),
        ('NestedLoopJoinExec', P + 'nested_loop_join::NestedLoopJoinExec::maintains_input_order',
         lambda jt: 'Right', (lambda jt: b(final[jt])) if final else None),
        ('SortMergeJoinExec', P + 'sort_merge_join::exec::SortMergeJoinExec::maintains_input_order',
         (lambda jt: smj_probe[jt].name) if smj_probe else None, lambda jt: jt == 'Full'),
        ('PiecewiseMergeJoinExec', P + 'piecewise_merge_join::exec::PiecewiseMergeJoinExec::maintains_input_order',
         (lambda jt: pw_probe[jt].name) if pw_probe else None, (lambda jt: b(pw_final[jt])) if pw_final else None),
    ]
    n = 0
    for name, fnp, probe, appends in ops:
        if probe is None or appends is None:
            continue
        t = mio_table(ctx, 'mio', fnp)
        if not t:
            continue
        n += 1
        check_mio(ctx, 'mio', name, t, probe, appends, ctx.loc(f.fn(fnp)))
    ctx.floor('mio', 'join operators with a maintains_input_order table', n, 4)
    # RepartitionExec: true only under preserve_order or a single input partition
    H = 'datafusion_physical_plan::repartition::RepartitionExec::maintains_input_order_helper'
    rec = ctx.fn(H, 'repartition-order')
    if rec:
        PC = 'datafusion_physical_plan::execution_plan::ExecutionPlanProperties::output_partitioning'
        for po in (0, 1):
            for single_part in (0, 1):
                models = {'datafusion_physical_expr::partitioning::Partitioning::partition_count': lambda ex, a, s=single_part: I(1 if s else 7)}
                outs = Explorer(f, inline_depth=1, models=models).run(rec, [TOP, I(po)])
                vals = set(show(o.ret) for o in outs)
                inst = 'maintains_input_order_helper(preserve_order=%d,single_input=%d)' % (po, single_part)
                if not po and not single_part and vals != {'(0)'}:
                    ctx.fail('repartition-order', inst, ctx.loc(rec), 'declares input order maintained (%s) with several input partitions and no preserve_order' % sorted(vals),
                             key='repartition-order|' + inst)
                else:
                    ctx.ok('repartition-order', inst, sample={'preserve_order': po, 'single_input_partition': single_part, 'declares': sorted(vals)})
    # selftest: seeded table in the selftest crate (declares the build side; declares a side for a type with a final pass)
    import common
    st = ctx.st
    probe_ctx = common.Ctx(ctx.pid, ctx.tier, st, st, {})
    probe_ctx.known = []
    rec = st.fn('dfscan_selftest::tables::bad_maintains_input_order')
    t = {}
    for jtv in enum_domain(st, 'dfscan_selftest::tables::JoinType'):
        v = single(Explorer(st).run(rec, [jtv]))
        t[jtv.name] = pair(v)
    bad = check_mio(probe_ctx, 'st', 'Seeded', t, lambda jt: 'Right', lambda jt: jt in ('Left', 'Full', 'LeftSemi', 'LeftAnti', 'LeftMark'), 'selftest')
    ctx.selftest('cross-table rule flags a declared build side and a declared side with final emission', bad >= 2)
