"""A6 — field coverage of the LogicalPlan traversal functions.

For every struct that is the payload of a LogicalPlan variant (incl. the nested DDL/DML/statement enums): every field whose type
directly mentions Expr (or expr::Sort) must be read by apply_expressions and by map_expressions, and every field whose type
directly mentions LogicalPlan must be read by inputs() (the source of apply_children) and by map_children.  A field one of
them does not read is invisible to every rewrite rule built on that traversal: rewrites silently skip part of the plan and
"recompute schema" then works on a half-rewritten node.  Reads are attributed by the owner type of each field projection
(exported by the driver), through closures and one level of helper methods of the node types."""
import re

LP = 'datafusion_expr::logical_plan::plan::LogicalPlan'
EX = 'datafusion_expr::expr::Expr'
SORT = 'datafusion_expr::expr::Sort'
TN = 'datafusion_expr::logical_plan::tree_node::'
FNS = {
    'inputs': 'datafusion_expr::logical_plan::plan::LogicalPlan::inputs',
    'map_children': TN + '<impl datafusion_common::tree_node::TreeNode for datafusion_expr::logical_plan::plan::LogicalPlan>::map_children',
    'apply_expressions': TN + '<impl datafusion_expr::logical_plan::plan::LogicalPlan>::apply_expressions',
    'map_expressions': TN + '<impl datafusion_expr::logical_plan::plan::LogicalPlan>::map_expressions',
}
# (node, field) -> reason; read in the source
EXEMPT = {
    ('CreateExternalTable', 'order_exprs'): 'DDL statements are not rewritten: apply_expressions / map_expressions return Continue / no-op for LogicalPlan::Ddl by design',
    ('CreateExternalTable', 'column_defaults'): 'DDL (see order_exprs)',
    ('CreateMemoryTable', 'column_defaults'): 'DDL (see CreateExternalTable.order_exprs)',
    ('CreateIndex', 'columns'): 'DDL (see CreateExternalTable.order_exprs)',
    ('CreateFunction', 'args'): 'DDL (see CreateExternalTable.order_exprs)',
    ('CreateFunction', 'params'): 'DDL (see CreateExternalTable.order_exprs)',
    ('Subquery', 'outer_ref_columns'): 'payload of Expr subqueries; visited by the subquery traversal (apply_subqueries / map_subqueries), not by the per-node expression traversal',
}


def reads(f, fn, helper_prefix='datafusion_expr::logical_plan::'):
    out = {}
    tree = [fn] + [x for x in f.fn_index if x.startswith(fn + '::{closure')]
    # one level of helper methods on node types (e.g. DdlStatement::inputs)
    for c in list(f.callees.get(fn, ())):
        if c.startswith(helper_prefix) and c in f.fn_index and c != fn:
            tree.append(c)
            tree += [x for x in f.fn_index if x.startswith(c + '::{closure')]
    for t in tree:
        for i in range(len(f.fn_index[t])):
            rec = f.fn(t, i)
            if 'bb' not in rec:
                continue

            def sp(pl):
                for p in pl[1]:
                    if isinstance(p, list) and p[0] == 'f' and len(p) > 3:
                        out.setdefault(p[3], set()).add(p[2] or str(p[1]))

            def so(op):
                if isinstance(op, list) and op and op[0] in ('c', 'm'):
                    sp(op[1])
            for b in rec['bb']:
                if b.get('cu'):
                    continue
                for st in b['s']:
                    if st[0] != '=':
                        continue
                    rv = st[2]
                    k = rv[0]
                    if k in ('use', 'repeat'):
                        so(rv[1])
                    elif k in ('ref', 'rawptr', 'discr', 'len'):
                        sp(rv[1])
                    elif k == 'cast':
                        so(rv[2])
                    elif k == 'agg':
                        for o in rv[2]:
                            so(o)
                t_ = b['t']
                if t_[0] == 'call':
                    for a in t_[2]:
                        so(a)
                elif t_[0] == 'switch':
                    so(t_[1])
    return out


def direct(ty, t):
    return re.search(r'(?<![A-Za-z0-9_:])' + re.escape(t) + r'(?![A-Za-z0-9_])', ty) is not None


def plan_nodes(f, root=LP, skip=(LP, EX)):
    nodes = []

    def payloads(adt, depth=0):
        a = f.adts[adt]
        for v in a['variants']:
            for fl in v['fields']:
                for p in re.findall(r'[a-z_]+::[A-Za-z_0-9:]+', fl[1]):
                    b = f.adts.get(p)
                    if b and p not in nodes and p not in skip and not b.get('ext'):
                        if b['kind'] == 'struct':
                            nodes.append(p)
                        elif depth < 1 and b['kind'] == 'enum' and p.rsplit('::', 2)[0] == root.rsplit('::', 2)[0] or (depth < 1 and 'logical_plan' in p and b['kind'] == 'enum'):
                            payloads(p, depth + 1)
    payloads(root)
    return nodes


def check(ctx, rule='plan-field-coverage', fns=FNS, lp=LP, expr_types=(EX, SORT), exempt=EXEMPT, helper_prefix='datafusion_expr::logical_plan::', floor=35):
    f = ctx.facts
    for k, d in fns.items():
        if d not in f.fn_index:
            ctx.lost(rule, d)
            return 0
    rd = {k: reads(f, d, helper_prefix) for k, d in fns.items()}
    ctx.analysed_fns.update(fns.values())
    nodes = plan_nodes(f, lp, skip=(lp,) + tuple(expr_types))
    n = 0
    for nd in nodes:
        flds = f.adts[nd]['variants'][0]['fields']
        sn = nd.rsplit('::', 1)[-1]
        pl = [fl[0] for fl in flds if direct(fl[1], lp)]
        ex = [fl[0] for fl in flds if any(direct(fl[1], t) for t in expr_types)]
        if not pl and not ex:
            continue
        n += 1
        problems = []
        for fld in pl:
            for k in ('inputs', 'map_children'):
                if fld not in rd[k].get(nd, set()) and (sn, fld) not in exempt:
                    problems.append('%s.%s (a child plan) is never read by %s' % (sn, fld, k))
        for fld in ex:
            for k in ('apply_expressions', 'map_expressions'):
                if fld not in rd[k].get(nd, set()) and (sn, fld) not in exempt:
                    problems.append('%s.%s (expressions) is never read by %s' % (sn, fld, k))
        if problems:
            ctx.fail(rule, sn, nd, '; '.join(problems) + ': rewrites built on this traversal silently skip that part of the plan', key='%s|%s|%s' % (rule, nd, ';'.join(sorted(problems))[:200]))
        else:
            ctx.ok(rule, sn, sample={'node': nd, 'child_plan_fields': pl, 'expression_fields': ex} if n <= 8 else None)
    if floor:
        ctx.floor(rule, 'plan node structs with expression or child-plan fields', n, floor)
    return n
