"""Thorough tier: seeded-fault regression.  For every independent seeded fault under /verif/seeded that the property's check is
recorded to catch (meta.json: caught_by names a rule of this check), the patch is applied to a scratch COPY of /repo's current
working tree (outside /repo and /verif), the copy is analysed by the same driver and the same rule file, and the recorded rule
must report a violation.  Nothing is executed; this validates the sensitivity of the static rules on known-bad variants of
today's tree.  The property verdict itself is always computed on /repo (the quick rules, run first)."""
import json, os, glob, subprocess, shutil, re
import scan
from facts import Facts
import common

SCRATCH = '/var/tmp/dfverif-seedscratch'


def seeds_for(pid):
    out = []
    for mp in sorted(glob.glob(os.path.join(scan.VERIF, 'seeded', '*', 'meta.json'))):
        try:
            m = json.load(open(mp))
        except Exception:
            continue
        cb = m.get('caught_by') or ''
        rules = re.findall(r'\b%s ([a-z][a-z0-9-]+)' % pid, cb)
        if rules:
            out.append((os.path.basename(os.path.dirname(mp)), os.path.dirname(mp), rules))
    return out


def prepare(patch):
    os.makedirs(SCRATCH, exist_ok=True)
    subprocess.check_call(['rsync', '-a', '--delete', '--exclude', '/target', '--exclude', '/.git', scan.REPO + '/', SCRATCH + '/'])
    r = subprocess.run(['patch', '-p1', '--no-backup-if-mismatch', '-s', '-i', patch], cwd=SCRATCH, stdout=subprocess.PIPE, stderr=subprocess.STDOUT, text=True)
    return r.returncode == 0, r.stdout[-400:]


def run(ctx, mod, pid):
    seeds = seeds_for(pid)
    if not seeds:
        ctx.notes.append('thorough: no recorded seeded fault is attributed to a rule of this check')
        return
    try:
        for name, d, rules in seeds:
            ok, msg = prepare(os.path.join(d, 'patch.diff'))
            inst = 'seeded/%s' % name
            if not ok:
                ctx.skip('seed-regression', inst, 'patch.diff no longer applies to the current tree (%s)' % msg.strip()[:120])
                continue
            try:
                fdir, info = scan.ensure_facts(repo=SCRATCH, variant='seed', quiet=True)
            except RuntimeError as e:
                ctx.skip('seed-regression', inst, 'the seeded variant does not type-check under the driver: %s' % str(e)[-160:])
                continue
            probe = common.Ctx(pid, 'seed', Facts(fdir), ctx.st, info)
            probe.known = []
            mod.run(probe)
            # what the same rules already report on /repo itself (known findings) is not a detection of the seed
            base = set(k['key'] for k in ctx.known) | set(v['key'] for v in ctx.viol)
            fired = sorted({v['rule'] for v in probe.viol if v['key'] not in base})
            hit = [r for r in rules if r in fired]
            if hit:
                ctx.ok('seed-regression', inst, 'rule %s reports the seeded fault' % hit, nontrivial=True,
                       sample={'seed': name, 'expected_rules': rules, 'fired': fired, 'first_report': (probe.viol[0]['msg'][:200] if probe.viol else '')})
            else:
                ctx.fail('seed-regression', inst, os.path.join(d, 'patch.diff'), 'the check no longer detects this recorded seeded fault: expected a violation of %s, '
                         'rules that fired: %s' % (rules, fired or 'none'), key='seed-regression|%s' % name)
    finally:
        shutil.rmtree(SCRATCH, ignore_errors=True)
