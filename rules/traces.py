"""helpers for trace-mode exploration (A2/A3/A4 rules are predicates over ordered event traces)"""
from enumtab import *

ATOMIC_RMW = ('fetch_add', 'fetch_sub', 'store', 'swap', 'fetch_max', 'fetch_min', 'compare_exchange', 'fetch_update')


def is_atomic(name):
    return name.startswith('core::sync::atomic::Atomic')


def atomic_op(name):
    return name.rsplit('::', 1)[1]


def self_val(tag='self', fields=()):
    return U(tuple(sorted(fields, key=lambda kv: repr(kv[0]))), tag)


def run_traces(facts, rec, args, hook=None, watch_all=True, inline_only=(), inline_depth=2, watch=(), **kw):
    ex = Explorer(facts, inline_depth=inline_depth, trace=True, tag_named=True, model_hook=hook,
                  watch=('',) if watch_all else watch, inline_only=inline_only, **kw)
    return ex.run(rec, args)


def calls(o, pred=None):
    """ordered (name, args, line) of watched calls in outcome o"""
    out = []
    for e in o.events:
        if e[0] == 'callargs' and (pred is None or pred(e[1])):
            out.append((e[1], e[2], e[3] if len(e) > 3 else 0))
    return out


def ret_kind(o):
    r = strip(o.ret)
    if isinstance(r, A) and r.name in ('Ok', 'Err', 'Some', 'None', 'Ready', 'Pending'):
        return r.name
    return '?'


def fmt_trace(o, pred=None):
    out = []
    for e in o.events:
        if e[0] == 'callargs' and (pred is None or pred(e[1])):
            out.append('%s(%s)@%s' % (e[1].rsplit('::', 2)[-2] + '::' + e[1].rsplit('::', 1)[-1] if '::' in e[1] else e[1], ','.join(show(a) for a in e[2]), e[3] if len(e) > 3 else ''))
        elif e[0] == 'assign':
            out.append('%s := %s' % (e[1], show(e[2])))
        elif e[0] == 'drop':
            out.append('drop(%s)' % e[1])
        elif e[0] == 'yield':
            out.append('await')
    return out
