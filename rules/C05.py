"""C05 — every join operator computes its join type: the per-join-type emission
tables shared by the operators, each a finite function of JoinType (x JoinSide),
bounded by the reference join model."""
from jt import *

TECHNIQUE = 'finite-domain constant propagation over MIR (A1) + reference join model bounds + cross-table laws; state-machine extraction (transitions with path conditions) and finaliser-bypass contradiction rule'
EXPLANATION = ('Exhaustive extraction of the join-type decision tables used by the physical join operators '
               '(need_produce_result_in_final, need_produce_right_in_final, symmetric-hash need_to_produce_result_in_final, '
               'piecewise-merge need_produce_result_in_final / existence predicates, empty_build_side_produces_empty_result, '
               'empty_map_produces_empty_result, probe_side tables, build_join_schema column-side selection) and comparison '
               'with bounds derived from a brute-force relational model: types whose output depends on unmatched build rows '
               'MUST be in the final set, types whose output is produced per probe row MUST NOT; empty-side short-circuits '
               'only where the model result is empty; symmetric table == asymmetric table under negate+swap. Finaliser bypass: in a join stream state machine with a '
               'finaliser state (NestedLoopJoinStream: EmitGlobalRightUnmatched; terminal / finaliser states and the condition under which the finaliser is entered '
               'are derived from the code) no handler jumps to the terminal state on a path that does not exclude that condition. '
               'Hashing, batching, filters, bitmaps and cursors are not decided.')
ASSUMPTIONS = ['reference model in oracles/joins.py is SQL join semantics',
               'build side = left for HashJoin/NLJ/PWMJ (the operators\' documented convention)']

P = 'datafusion_physical_plan::joins::'
FINAL = P + 'utils::need_produce_result_in_final'
RFINAL = P + 'utils::need_produce_right_in_final'
SHJ = P + 'symmetric_hash_join::need_to_produce_result_in_final'
PW_FINAL = P + 'piecewise_merge_join::utils::need_produce_result_in_final'
EMPTY_BUILD = 'datafusion_common::join_type::JoinType::empty_build_side_produces_empty_result'
EMPTY_MAP = 'datafusion_common::join_type::JoinType::empty_map_produces_empty_result'
BJS = P + 'utils::build_join_schema'
SIDE = ['left', 'right']


def one_sided(jt, side):
    so = M.sides_in_output(jt)
    return so[side] and not so[1 - side]


def final_bounds(jt, side):
    """(must, may) for 'rows of this type are produced for build `side` after the probe phase'"""
    must = oracle('depends_on_unmatched', jt, side)
    may = must or one_sided(jt, side)
    return must, may


def check_final_table(ctx, rule, fnpath, side, tab, restrict=None, facts=None):
    facts = facts or ctx.facts
    rec = facts.fn(fnpath)
    bad = 0
    for jt, v in tab.items():
        if restrict and jt not in restrict:
            continue
        must, may = final_bounds(jt, side)
        inst = '%s(%s)' % (fnpath.rsplit('::', 1)[1], jt)
        if must and not b(v):
            bad += 1
            ctx.fail(rule, inst, ctx.loc(rec), 'output of %s depends on unmatched %s rows, but the table says no final pass is needed' % (jt, SIDE[side]),
                     key='%s|%s|%s' % (rule, fnpath.rsplit('::', 2)[1], inst))
        elif b(v) and not may:
            bad += 1
            ctx.fail(rule, inst, ctx.loc(rec), '%s rows are determined per probe row, a final pass over the %s side would emit extra rows' % (jt, SIDE[side]),
                     key='%s|%s|%s' % (rule, fnpath.rsplit('::', 2)[1], inst))
        else:
            ctx.ok(rule, inst, sample={'fn': fnpath, 'jt': jt, 'code': b(v), 'must': must, 'may': may})
    return bad


def run(ctx):
    f = ctx.facts
    t_final = jt_table(ctx, 'final-build-left', FINAL, False)
    if t_final:
        check_final_table(ctx, 'final-build-left', FINAL, 0, t_final)
    t_rfinal = jt_table(ctx, 'final-right', RFINAL, False)
    if t_rfinal:
        check_final_table(ctx, 'final-right', RFINAL, 1, t_rfinal)
    # piecewise merge: classic (two-sided) joins only; existence joins use a different stream
    t_pw = jt_table(ctx, 'final-pwmj', PW_FINAL, False)
    if t_pw:
        check_final_table(ctx, 'final-pwmj', PW_FINAL, 0, t_pw, restrict=M.TWO_SIDED)
    # symmetric hash join: table(build_side, jt); law: == asymmetric tables and mirror symmetry
    rec = ctx.fn(SHJ, 'final-symmetric')
    if rec:
        sides = enum_domain(f, JS)
        shj = {}
        for sv in sides:
            for jtv in enum_domain(f, JT):
                outs = Explorer(f).run(rec, [sv, jtv])
                v = single(outs)
                if v is None:
                    ctx.undecided('final-symmetric', 'shj(%s,%s)' % (sv.name, jtv.name), 'not constant')
                else:
                    shj[(sv.name, jtv.name)] = b(v)
        sw = {jt: c[0] for jt, c in oracle('derive_swap').items()}
        for (s, jt), v in shj.items():
            if s == 'None':
                continue
            side = 0 if s == 'Left' else 1
            must, may = final_bounds(jt, side)
            inst = 'shj(%s,%s)' % (s, jt)
            if (must and not v) or (v and not may):
                ctx.fail('final-symmetric', inst, ctx.loc(rec), 'symmetric hash join final-emission table is %s but model bounds are must=%s may=%s' % (v, must, may),
                         key='final-symmetric|' + inst)
            else:
                ctx.ok('final-symmetric', inst)
            # mirror law: table(Left, jt) == table(Right, swap(jt))
            o = 'Right' if s == 'Left' else 'Left'
            if shj.get((o, sw[jt])) != v:
                ctx.fail('final-symmetric-mirror', inst, ctx.loc(rec), 'table(%s,%s)=%s but table(%s,%s)=%s' % (s, jt, v, o, sw[jt], shj.get((o, sw[jt]))),
                         key='final-symmetric-mirror|' + inst)
            else:
                ctx.ok('final-symmetric-mirror', inst)
            # agreement with the asymmetric operators' tables
            asym = t_final if side == 0 else t_rfinal
            if asym and b(asym[jt]) != v:
                ctx.fail('final-sibling', inst, ctx.loc(rec), 'symmetric table %s differs from %s(%s)=%s' % (v, 'need_produce_result_in_final' if side == 0 else 'need_produce_right_in_final', jt, b(asym[jt])),
                         key='final-sibling|' + inst)
            else:
                ctx.ok('final-sibling', inst)
    # empty-side short circuits: build side = left
    for rule, fnp, desc in (('empty-build', EMPTY_BUILD, 'the build (left) input is empty'),
                            ('empty-map', EMPTY_MAP, 'no build row can match (empty hash map)')):
        tab = jt_table(ctx, rule, fnp, True)
        if not tab:
            continue
        rec = f.fn(fnp)
        for jt, v in tab.items():
            if rule == 'empty-build':
                allowed = oracle('empty_side_gives_empty', jt, 0)
            else:
                # empty map: left may be non-empty but nothing matches -> result must be empty for all L with no matches
                allowed = oracle('no_match_gives_empty', jt)
            inst = '%s(%s)' % (fnp.rsplit('::', 1)[1], jt)
            if b(v) and not allowed:
                ctx.fail(rule, inst, ctx.loc(rec), 'short-circuits to an empty result when %s, but the model result can be non-empty' % desc,
                         key='%s|%s' % (rule, inst))
            else:
                ctx.ok(rule, inst, nontrivial=b(v), sample={'fn': fnp, 'jt': jt, 'code': b(v), 'model_allows': allowed})
    # probe-side tables: the probe (streamed) side's columns must be in the output whenever the
    # output is one-sided (otherwise the operator would stream the side it does not emit)
    for fnp in (P + 'sort_merge_join::exec::SortMergeJoinExec::probe_side', P + 'piecewise_merge_join::exec::PiecewiseMergeJoinExec::probe_side'):
        tab = jt_table(ctx, 'probe-side', fnp, True)
        if not tab:
            continue
        rec = f.fn(fnp)
        for jt, v in tab.items():
            so = M.sides_in_output(jt)
            inst = '%s(%s)' % (fnp.rsplit('::', 2)[1] + '::probe_side', jt)
            side = {'Left': 0, 'Right': 1}.get(v.name)
            if side is None or (not all(so) and not so[side]):
                ctx.fail('probe-side', inst, ctx.loc(rec), 'probe side %s has no columns in the output of %s' % (v.name, jt), key='probe-side|' + inst)
            else:
                ctx.ok('probe-side', inst, sample={'fn': fnp, 'jt': jt, 'probe': v.name})
    check_build_join_schema(ctx)
    # selftest
    finaliser_bypass(ctx)
    st = ctx.st
    import common
    probe = common.Ctx(ctx.pid, ctx.tier, st, st, {})
    probe.known = []
    import statemach
    statemach.check(probe, st, 'dfscan_selftest::machine::GoodStream', rule='st-fin')
    statemach.check(probe, st, 'dfscan_selftest::machine::BadStream', rule='st-fin')
    _, lm = statemach.check(probe, st, 'dfscan_selftest::machine::LimitStream', rule='st-fin')
    ctx.selftest('finaliser-bypass reports a refill handler that jumps to Done while the global emission is still owed (BadStream), silent on the guarded version (GoodStream) '
                 'and on a limit-reached jump where the only common entry condition is dispatch-wide (LimitStream; its Build state with a computed successor is not terminal)',
                 sorted(v['key'] for v in probe.viol if v['rule'] == 'st-fin') == ['st-fin|BadStream: Fill -> Done in handle_fill']
                 and lm is not None and lm['T'] == {'Finished'} and lm['F'] == {'Exhausted'} and lm['G'].get('Exhausted') == {})
    tab = {}
    rec = st.fn('dfscan_selftest::tables::bad_need_produce_result_in_final')
    for jtv in enum_domain(st, 'dfscan_selftest::tables::JoinType'):
        tab[jtv.name] = single(Explorer(st).run(rec, [jtv]))
    bad = check_final_table(probe, 'st', 'dfscan_selftest::tables::bad_need_produce_result_in_final', 0, tab, facts=st)
    ctx.selftest('final-table bound detects LeftAnti missing from the final set', bad > 0)


def finaliser_bypass(ctx):
    """join stream state machines of the dispatcher + handlers shape that have a finaliser state (NestedLoopJoinStream: EmitGlobalRightUnmatched):
    no handler jumps to the terminal state while the condition under which the finaliser is entered elsewhere is not excluded (rules/statemach.py)"""
    import statemach
    f = ctx.facts
    n = 0
    for p, a in sorted(f.adts.items()):
        if a.get('ext') or a.get('kind') != 'struct' or not p.startswith('datafusion_physical_plan::joins::'):
            continue
        fl = [x for x in a['variants'][0]['fields'] if x[0] == 'state']
        if not fl or f.adts.get(fl[0][1], {}).get('kind') != 'enum':
            continue
        # cheap shape prefilter on the callee index: some method of the struct calls at least four sibling methods
        sib = [d for d in f.fn_index if (d.startswith(p + '::') or d.startswith('<' + p + ' as ')) and '{closure' not in d]
        if not any(len(set(c for c in f.callees.get(d, ()) if c in sib and c != d)) >= 4 for d in sib):
            continue
        # the thorough tier spends more on summarising large machines (HashJoinStream::process_probe_batch has thousands of paths)
        tb, bud = (60, 4000000) if ctx.tier == 'thorough' else (4, 400000)
        try:
            m = statemach.analyse(f, p, time_budget=tb, budget=bud)
        except Undecidable as ex:
            ctx.skip('finaliser-bypass', p, 'state machine not summarised within the budget (%s)' % ex)
            continue
        if not m or not m['T'] or not m['F']:
            ctx.skip('finaliser-bypass', p, 'not a dispatcher + handlers machine with a finaliser state')
            continue
        n += 1
        statemach.check(ctx, f, p, time_budget=tb, budget=bud, m=m)
    ctx.floor('finaliser-bypass', 'join stream state machines with a finaliser state', n, 1)


def check_build_join_schema(ctx):
    """column-side selection of the physical build_join_schema: the set of input schemas whose
    fields are read, and the presence of a non-nullable boolean mark column, per join type"""
    f = ctx.facts
    rule = 'join-schema-sides'
    rec = ctx.fn(BJS, rule)
    if rec is None:
        return
    FIELDS = 'arrow_schema::schema::Schema::fields'
    FNEW = 'arrow_schema::field::Field::new'
    for jtv in enum_domain(f, JT, True):
        # the per-side field selection may live in closures of build_join_schema or in private helpers next to it
        ex = Explorer(f, inline_depth=2, watch=(FIELDS, FNEW), inline_only=(BJS.rsplit('::', 1)[0] + '::',))
        outs = ex.run(rec, [R(sym('left')), R(sym('right')), jtv])
        jt = strip(jtv).name
        sides = set()
        mark = []
        for o in outs:
            for e in o.events:
                if e[0] == 'callargs' and e[1] == FIELDS:
                    t = strip(e[2][0])
                    if isinstance(t, U) and t.tag in ('left', 'right'):
                        sides.add(t.tag)
                if e[0] == 'callargs' and e[1] == FNEW:
                    mark.append(tuple(show(a) for a in e[2]))
        want = set(s for s, p in zip(SIDE, M.sides_in_output(jt)) if p)
        inst = 'build_join_schema(%s)' % jt
        if sides != want:
            ctx.fail(rule, inst, ctx.loc(rec), 'reads fields of %s but the model output has columns of %s' % (sorted(sides), sorted(want)), key=rule + '|' + inst)
        else:
            ctx.ok(rule, inst, sample={'jt': jt, 'sides': sorted(sides), 'mark': mark})
        hm = M.has_mark(jt)
        if hm != bool(mark):
            ctx.fail('join-schema-mark', inst, ctx.loc(rec), 'mark column present=%s but join type %s mark' % (bool(mark), 'has a' if hm else 'has no'), key='join-schema-mark|' + inst)
        elif mark and any(m[2] != '0' for m in mark):
            ctx.fail('join-schema-mark', inst, ctx.loc(rec), 'mark column declared nullable: %s' % (mark,), key='join-schema-mark|nullable|' + inst)
        else:
            ctx.ok('join-schema-mark', inst, nontrivial=hm)
