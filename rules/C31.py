"""C31 — dynamic filters: (expression, generation) consistency of DynamicFilterPhysicalExpr and
the join-type gate of dynamic filter pushdown."""
from jt import *
from locks import *
import C16

TECHNIQUE = 'static analysis: exhaustive path enumeration over MIR with symbolic guards (read/write atomicity of (expr, generation), monotone cache, lock graph) + finite table of the pushdown gate vs the join model'
EXPLANATION = ('DynamicFilterPhysicalExpr: (a) current() obtains the expression and the generation from ONE read guard of `inner` '
               '(a torn read pairs a new expression with an old generation and poisons the generation-keyed cache); (b) update() '
               'installs the new expression together with generation = old + 1 under one write guard and broadcasts only after '
               'releasing it; (c) the remap cache is overwritten only on the `generation > cached` edge (or when empty); (d) no '
               'function of the module holds guards of `inner` and `current_cache` at the same time. Gate: '
               'HashJoinExec::allow_join_dynamic_filter_pushdown can return true only for join types where, in the reference model, '
               'removing probe rows that match no build row never changes the result. Bounds/IN-list contents and timing are not decided.')
ASSUMPTIONS = ['reference join model', 'the probe side of HashJoinExec is the right input']

DF = 'datafusion_physical_expr::expressions::dynamic_filters::'
CUR = DF + 'DynamicFilterPhysicalExpr::current'
UPD = DF + 'DynamicFilterPhysicalExpr::update'
GATE = 'datafusion_physical_plan::joins::hash_join::exec::HashJoinExec::allow_join_dynamic_filter_pushdown'
HJ = 'datafusion_physical_plan::joins::hash_join::exec::HashJoinExec'


def explore(facts, rec, prefix, depth=1, **kw):
    return run_traces(facts, rec, C16.args_for(rec), hook=lock_hook, inline_depth=depth, inline_only=(prefix,), budget=600000,
                      time_budget=60, **kw)


def lets(o, name):
    return [e[2] for e in o.events if e[0] == 'let' and e[1] == name]


def check_current(ctx, facts, fnpath, prefix, rule='atomic-read'):
    rec = facts.fn(fnpath)
    if rec is None:
        ctx.lost(rule, fnpath)
        return 1
    ctx.analysed_fns.add(fnpath)
    outs = explore(facts, rec, prefix)
    bad = 0
    problems = set()
    n = 0
    for o in outs:
        g = [tag_of(v) for v in lets(o, 'generation')]
        x = [tag_of(v) for v in lets(o, 'expr')]
        if not g or not x:
            continue
        n += 1
        acq = [e for e in o.events if e[0] == 'callargs' and is_lock_call(e[1]) and (tag_of(e[2][0]) or '').endswith('.inner')]
        if len(acq) != 1:
            problems.add('`inner` is locked %d times on one path: expression and generation can come from different generations' % len(acq))
        gt, xt = g[0] or '', x[0] or ''
        if not (gt.startswith('guard(') and gt.endswith('.generation')):
            problems.add('generation is not read through the guard (%s)' % gt)
        if not xt.startswith('guard('):
            problems.add('expression is not read through the guard (%s)' % xt)
        # cache write only on should_write
        sw = [v for v in lets(o, 'should_write')]
        wrote = [e for e in o.events if e[0] == 'assign' and e[1].startswith('guard(') and 'current_cache' in e[1]]
        if wrote:
            defs = [show(v) for v in sw]
            okdef = any(d.startswith('?gt(?guard(') and 'generation' in d for d in defs) and any(d == '1' for d in defs) or \
                all(d == '1' or (d.startswith('?gt(') and 'generation' in d.split(',')[0]) for d in defs) and defs
            if not sw:
                problems.add('the cache is overwritten without a should_write decision')
            elif not okdef:
                problems.add('the cache is overwritten under a condition other than `generation > cached` (%s)' % defs)
    if n == 0:
        problems.add('no path reads (expr, generation) — anchor changed')
    # the branch: on paths where the comparison is false the cache must not be written: checked via alias refinement
    for o in outs:
        ob = dict(o.obs)
    if problems:
        bad += 1
        ctx.fail(rule, fnpath.rsplit('::', 1)[-1], ctx.loc(rec), '; '.join(sorted(problems)), key='%s|%s' % (rule, fnpath.rsplit('::', 1)[-1]))
    else:
        ctx.ok(rule, fnpath.rsplit('::', 1)[-1], sample={'fn': fnpath, 'paths_reading_state': n})
    return bad


def check_cache_edge(ctx, facts, fnpath, prefix, rule='monotone-cache'):
    """cache assignment happens only on paths where should_write was refined to true"""
    rec = facts.fn(fnpath)
    if rec is None:
        return 1
    outs = explore(facts, rec, prefix, observe=('should_write',))
    bad = 0
    n = 0
    for o in outs:
        wrote = [e for e in o.events if e[0] == 'assign' and e[1].startswith('guard(') and 'current_cache' in e[1]]
        sw = strip(dict(o.obs).get('should_write', TOP))
        if wrote:
            n += 1
            if not (isinstance(sw, I) and sw.n == 1):
                bad += 1
    if bad or n == 0:
        ctx.fail(rule, 'current[cache write]', ctx.loc(rec), 'the remap cache is written on a path where should_write is not true (or no cache write found: %d)' % n,
                 key=rule + '|current')
        return 1
    ctx.ok(rule, 'current[cache write]', sample={'paths_writing_cache': n})
    return 0


def check_update(ctx, facts, fnpath, prefix, rule='atomic-write'):
    rec = facts.fn(fnpath)
    if rec is None:
        ctx.lost(rule, fnpath)
        return 1
    ctx.analysed_fns.add(fnpath)
    outs = explore(facts, rec, prefix)
    problems = set()
    n = 0
    for o in outs:
        if ret_kind(o) == 'Err':
            continue
        n += 1
        acq = [i for i, e in enumerate(o.events) if e[0] == 'callargs' and is_lock_call(e[1]) and (tag_of(e[2][0]) or '').endswith('.inner')]
        if len(acq) != 1:
            problems.add('`inner` is locked %d times: expression and generation are not installed atomically' % len(acq))
            continue
        writes = [(i, e) for i, e in enumerate(o.events) if e[0] == 'assign' and e[1].startswith('guard(') and '.inner' in e[1]]
        whole = [(i, e) for i, e in writes if isinstance(strip(e[2]), A) and strip(e[2]).name == 'Inner']
        if not whole:
            problems.add('no whole-state store of Inner{expr, generation} under the guard')
            continue
        st = strip(whole[0][1][2])
        ad = facts.adts[st.adt]
        fld = {f[0]: k for k, f in enumerate(ad['variants'][0]['fields'])}
        gen = show(read_proj(st, [('f', fld['generation'])]))
        if not (gen.startswith('?add(?guard(') and 'generation' in gen and gen.rstrip(').0').endswith(',1')) and 'new_generation' not in gen:
            # new_generation is a named local: look up its definition
            pass
        defs = [show(v) for v in lets(o, 'new_generation')]
        if not any(d.startswith('?add(?guard(') and '.generation,1)' in d for d in defs + [gen]):
            problems.add('the stored generation is not old generation + 1 (%s / %s)' % (gen, defs))
        ex = show(read_proj(st, [('f', fld['expr'])]))
        allowed = set(['?new_expr'] + [show(v) for v in lets(o, 'new_expr')])
        if ex not in allowed:
            problems.add('the stored expression is not the new expression (%s)' % ex)
        # broadcast after release
        rel = [i for i, e in enumerate(o.events) if (e[0] == 'callargs' and e[1] == 'core::mem::drop' and (tag_of(e[2][0]) or '').startswith('guard(')) or
               (e[0] == 'drop' and e[1].startswith('guard(') and e[1].endswith('.inner)'))]
        snd = [i for i, e in enumerate(o.events) if e[0] == 'callargs' and e[1].endswith('::send') and 'watch' in e[1]]
        if not snd:
            problems.add('waiters are not notified after the update')
        elif not rel or min(rel) > snd[0]:
            problems.add('waiters are notified while the write guard is still held')
    if n == 0:
        problems.add('no successful path found')
    if problems:
        ctx.fail(rule, 'update', ctx.loc(rec), '; '.join(sorted(problems)), key=rule + '|update')
        return 1
    ctx.ok(rule, 'update', sample={'fn': fnpath, 'ok_paths': n})
    return 0


def check_lock_graph(ctx, facts, prefix, file_suffix, rule='lock-graph'):
    bad = 0
    n = 0
    for d, i in sorted(set(C16.module_fns(facts, prefix, file_suffix))):
        rec = facts.fn(d, i)
        if rec.get('coroutine'):
            continue
        try:
            outs = explore(facts, rec, prefix)
        except Undecidable as e:
            ctx.skip(rule, d, str(e))
            continue
        locks = 0
        problems = set()
        for o in outs:
            steps, edges, live = guard_timeline(o)
            locks += sum(1 for e in o.events if e[0] == 'callargs' and is_lock_call(e[1]))
            for a, b_, line in edges:
                problems.add('%s locked while %s is held (line %s)' % (b_.rsplit('::', 1)[-1][:60], a.rsplit('::', 1)[-1][:60], line))
        if locks:
            n += 1
            if problems:
                bad += 1
                ctx.fail(rule, d, ctx.loc(rec), '; '.join(sorted(problems)), key='%s|%s' % (rule, d))
            else:
                ctx.ok(rule, d, sample={'fn': d, 'paths': len(outs)})
    return bad, n


def run(ctx):
    f = ctx.facts
    check_current(ctx, f, CUR, DF)
    check_cache_edge(ctx, f, CUR, DF)
    check_update(ctx, f, UPD, DF)
    bad, n = check_lock_graph(ctx, f, DF, 'dynamic_filters/mod.rs')
    ctx.floor('lock-graph', 'functions of dynamic_filters/mod.rs that take a lock', n, 10)
    # gate
    rec = ctx.fn(GATE, 'pushdown-gate')
    adt = f.adts.get(HJ)
    if rec and adt:
        fi = [k for k, fl in enumerate(adt['variants'][0]['fields']) if fl[0] == 'join_type'][0]
        for jtv in enum_domain(f, JT):
            selfv = R(U(((('f', fi), jtv),), 'self'))
            outs = Explorer(f, inline_depth=1, inline_only=('datafusion_common::join_type::',)).run(rec, [selfv, TOP])
            rets = set(show(o.ret) for o in outs)
            safe = oracle('drop_unmatched_side_safe', jtv.name, 1)
            inst = 'allow_join_dynamic_filter_pushdown[%s]' % jtv.name
            if not safe and rets != {'0'}:
                ctx.fail('pushdown-gate', inst, ctx.loc(rec), 'a dynamic filter may be pushed to the probe side of a %s join, but in the model dropping unmatched probe rows changes the result' % jtv.name,
                         key='pushdown-gate|' + inst)
            else:
                ctx.ok('pushdown-gate', inst, nontrivial=not safe, sample={'jt': jtv.name, 'may_return': sorted(rets), 'model_safe': safe})
    # selftests
    import common
    st = ctx.st
    probe = common.Ctx(ctx.pid, ctx.tier, st, st, {})
    probe.known = []
    SD = 'dfscan_selftest::dynf::'
    b1 = check_current(probe, st, SD + 'Dyn::bad_current', SD, rule='st')
    ctx.selftest('atomic-read detects expr and generation read under two separate guards', b1 > 0)
    b2 = check_update(probe, st, SD + 'Dyn::bad_update', SD, rule='st2')
    ctx.selftest('atomic-write detects generation bumped under a second guard', b2 > 0)
