"""C31 — dynamic filters: (expression, generation) consistency of DynamicFilterPhysicalExpr and
the join-type gate of dynamic filter pushdown."""
from jt import *
from locks import *
import C16
import re

TECHNIQUE = 'static analysis: exhaustive path enumeration over MIR with symbolic guards (read/write atomicity of (expr, generation), monotone cache, lock graph) + finite table of the pushdown gate vs the join model'
EXPLANATION = ('DynamicFilterPhysicalExpr: (a) current() obtains the expression and the generation from ONE read guard of `inner` '
               '(a torn read pairs a new expression with an old generation and poisons the generation-keyed cache); (b) update() '
               'installs the new expression together with generation = old + 1 under one write guard and broadcasts only after '
               'releasing it; (c) the remap cache is overwritten only on the `generation > cached` edge (or when empty); (d) no '
               'function of the module holds guards of `inner` and `current_cache` at the same time. Gate: '
               'HashJoinExec::allow_join_dynamic_filter_pushdown can return true only for join types where, in the reference model, '
               'removing probe rows that match no build row never changes the result. Bounds/IN-list contents and timing are not decided.')
# path rules cut loops after a bounded number of iterations: complete over rule instances, not over all unrollings
EXHAUSTIVE = False
ASSUMPTIONS = ['reference join model', 'the probe side of HashJoinExec is the right input']

DF = 'datafusion_physical_expr::expressions::dynamic_filters::'
CUR = DF + 'DynamicFilterPhysicalExpr::current'
UPD = DF + 'DynamicFilterPhysicalExpr::update'
GATE = 'datafusion_physical_plan::joins::hash_join::exec::HashJoinExec::allow_join_dynamic_filter_pushdown'
HJ = 'datafusion_physical_plan::joins::hash_join::exec::HashJoinExec'


def explore(facts, rec, prefix, depth=1, **kw):
    return run_traces(facts, rec, C16.args_for(rec), hook=lock_hook, inline_depth=depth, inline_only=(prefix,), budget=600000,
                      time_budget=60, **kw)


def lets(o, name):
    return [e[2] for e in o.events if e[0] == 'let' and e[1] == name]


class GuardIds:
    """lock hook that gives every acquisition its own id: guard#<n>(<mutex place>)"""
    def __init__(self):
        self.n = 0

    def __call__(self, ex, name, deff, args):
        if is_lock_call(name):
            self.n += 1
            return sym('guard#%d(%s)' % (self.n, tag_of(args[0]) or '?'))
        return None


_INNER_G = re.compile(r'guard#(\d+)\([^()]*\.inner\)')
_GEN = re.compile(r'^\??guard#(\d+)\([^()]*\.inner\)\.generation$')
_CACHE = re.compile(r'^guard#(\d+)\([^()]*\.current_cache\)$')


def check_current(ctx, facts, fnpath, prefix, rule='atomic-read'):
    """name-free: local helpers are inlined, values are followed by origin (which acquisition of which lock they were read under)"""
    rec = facts.fn(fnpath)
    if rec is None:
        ctx.lost(rule, fnpath)
        return 1
    ctx.analysed_fns.add(fnpath)
    try:
        outs = run_traces(facts, rec, C16.args_for(rec), hook=GuardIds(), inline_depth=2, inline_only=(prefix,), budget=900000, time_budget=60, try_tags=True)
    except Undecidable as e:
        ctx.undecided(rule, fnpath.rsplit('::', 1)[-1], str(e))
        return 1
    torn, mono, hitp = set(), set(), set()
    n_write = n_hit = 0
    for o in outs:
        evs = list(o.events)
        for k, e in enumerate(evs):
            if e[0] != 'assign' or not _CACHE.match(e[1] or ''):
                continue
            n_write += 1
            ck = _CACHE.match(e[1]).group(1)
            v = strip(e[2])
            pair = strip(read_proj(v, [('f', 0)])) if isinstance(v, A) and v.name == 'Some' else None
            if not isinstance(pair, T) or len(pair.items) != 2:
                torn.add('the value stored in the remap cache is not a (generation, expression) pair built here: %s' % show(v)[:80])
                continue
            g, x = show(pair.items[0]), show(pair.items[1])
            mg = _GEN.match(g)
            if not mg:
                torn.add('the generation stored in the cache (%s) is not read from `inner` through its guard' % g[:60])
                continue
            xs = set(_INNER_G.findall(x))
            if xs != {mg.group(1)}:
                torn.add('the cache receives generation %s but an expression read under %s: the pair does not come from ONE acquisition of `inner` '
                         '(an update between the two reads files the older expression under the newer generation)' % (
                             g.lstrip('?')[:50], ('acquisition(s) #' + ','.join(sorted(xs))) if xs else 'no guard of `inner`'))
            # monotone: written only when the cache is empty or on the true edge of generation > cached generation
            since = [x_ for x_ in evs[:k]]
            empty = any(x_[0] == 'variant' and norm_tag(x_[1] or '') == 'guard#%s(%s)' % (ck, _CACHE.match(e[1]).group(0).split('(', 1)[1][:-1]) and x_[3] == 'None' for x_ in since)
            newer = any(x_[0] == 'branch' and x_[2] == 1 and str(x_[1]).startswith('gt(%s,' % g) and ('guard#%s(' % ck) in str(x_[1]) for x_ in since)
            if not (empty or newer):
                mono.add('the cache entry is overwritten on a path that did not take the `generation > cached generation` edge (nor found the cache empty)')
        # cache hit: the cached expression is returned only when its generation equals a generation read from `inner`
        r = strip(o.ret)
        if isinstance(r, A) and r.name == 'Ok':
            rt = show(read_proj(r, [('f', 0)]))
            mh = re.match(r'^\??(guard#\d+\([^()]*\.current_cache\))\.0\.1$', rt)
            if mh:
                n_hit += 1
                cg = mh.group(1) + '.0.0'
                okb = False
                for x_ in evs:
                    if x_[0] == 'branch' and x_[2] == 1 and str(x_[1]).startswith('eq('):
                        a_, b_ = str(x_[1])[3:-1].split(',', 1)
                        a_, b_ = a_.lstrip('?'), b_.lstrip('?')
                        if (a_ == cg and _GEN.match(b_)) or (b_ == cg and _GEN.match(a_)):
                            okb = True
                if not okb:
                    hitp.add('a cached expression is returned without comparing its generation with the generation of `inner`')
    problems = sorted(torn | hitp)
    if n_write == 0:
        problems.append('no path stores into the remap cache (anchor changed)')
    if n_hit == 0:
        problems.append('no cache-hit path found (anchor changed)')
    bad = 0
    if problems:
        bad += 1
        ctx.fail(rule, fnpath.rsplit('::', 1)[-1], ctx.loc(rec), '; '.join(problems), key='%s|%s' % (rule, fnpath.rsplit('::', 1)[-1]))
    else:
        ctx.ok(rule, fnpath.rsplit('::', 1)[-1], sample={'fn': fnpath, 'paths': len(outs), 'cache_writes': n_write, 'cache_hits': n_hit})
    if mono:
        bad += 1
        ctx.fail('monotone-cache', 'current[cache write]', ctx.loc(rec), '; '.join(sorted(mono)), key='monotone-cache|current')
    elif n_write:
        ctx.ok('monotone-cache', 'current[cache write]', sample={'paths_writing_cache': n_write})
    return bad


def check_cache_edge(ctx, facts, fnpath, prefix, rule='monotone-cache'):
    return 0     # decided inside check_current (same paths)


def check_update(ctx, facts, fnpath, prefix, rule='atomic-write'):
    rec = facts.fn(fnpath)
    if rec is None:
        ctx.lost(rule, fnpath)
        return 1
    ctx.analysed_fns.add(fnpath)
    outs = explore(facts, rec, prefix)
    problems = set()
    n = 0
    for o in outs:
        if ret_kind(o) == 'Err':
            continue
        n += 1
        acq = [i for i, e in enumerate(o.events) if e[0] == 'callargs' and is_lock_call(e[1]) and (tag_of(e[2][0]) or '').endswith('.inner')]
        if len(acq) != 1:
            problems.add('`inner` is locked %d times: expression and generation are not installed atomically' % len(acq))
            continue
        writes = [(i, e) for i, e in enumerate(o.events) if e[0] == 'assign' and e[1].startswith('guard(') and '.inner' in e[1]]
        whole = [(i, e) for i, e in writes if isinstance(strip(e[2]), A) and strip(e[2]).name == 'Inner']
        if not whole:
            problems.add('no whole-state store of Inner{expr, generation} under the guard')
            continue
        st = strip(whole[0][1][2])
        ad = facts.adts[st.adt]
        fld = {f[0]: k for k, f in enumerate(ad['variants'][0]['fields'])}
        gen = show(read_proj(st, [('f', fld['generation'])]))
        if not (gen.startswith('?add(?guard(') and 'generation' in gen and gen.rstrip(').0').endswith(',1')) and 'new_generation' not in gen:
            # new_generation is a named local: look up its definition
            pass
        defs = [show(v) for v in lets(o, 'new_generation')]
        if not any(d.startswith('?add(?guard(') and '.generation,1)' in d for d in defs + [gen]):
            problems.add('the stored generation is not old generation + 1 (%s / %s)' % (gen, defs))
        ex = show(read_proj(st, [('f', fld['expr'])]))
        allowed = set(['?new_expr'] + [show(v) for v in lets(o, 'new_expr')])
        if ex not in allowed:
            problems.add('the stored expression is not the new expression (%s)' % ex)
        # broadcast after release
        rel = [i for i, e in enumerate(o.events) if (e[0] == 'callargs' and e[1] == 'core::mem::drop' and (tag_of(e[2][0]) or '').startswith('guard(')) or
               (e[0] == 'drop' and e[1].startswith('guard(') and e[1].endswith('.inner)'))]
        snd = [i for i, e in enumerate(o.events) if e[0] == 'callargs' and e[1].endswith('::send') and 'watch' in e[1]]
        if not snd:
            problems.add('waiters are not notified after the update')
        elif not rel or min(rel) > snd[0]:
            problems.add('waiters are notified while the write guard is still held')
    if n == 0:
        problems.add('no successful path found')
    if problems:
        ctx.fail(rule, 'update', ctx.loc(rec), '; '.join(sorted(problems)), key=rule + '|update')
        return 1
    ctx.ok(rule, 'update', sample={'fn': fnpath, 'ok_paths': n})
    return 0


def check_lock_graph(ctx, facts, prefix, file_suffix, rule='lock-graph'):
    bad = 0
    n = 0
    for d, i in sorted(set(C16.module_fns(facts, prefix, file_suffix))):
        rec = facts.fn(d, i)
        if rec.get('coroutine'):
            continue
        try:
            outs = explore(facts, rec, prefix)
        except Undecidable as e:
            ctx.skip(rule, d, str(e))
            continue
        locks = 0
        problems = set()
        for o in outs:
            steps, edges, live = guard_timeline(o)
            locks += sum(1 for e in o.events if e[0] == 'callargs' and is_lock_call(e[1]))
            for a, b_, line in edges:
                problems.add('%s locked while %s is held (line %s)' % (b_.rsplit('::', 1)[-1][:60], a.rsplit('::', 1)[-1][:60], line))
        if locks:
            n += 1
            if problems:
                bad += 1
                ctx.fail(rule, d, ctx.loc(rec), '; '.join(sorted(problems)), key='%s|%s' % (rule, d))
            else:
                ctx.ok(rule, d, sample={'fn': d, 'paths': len(outs)})
    return bad, n


def publication_widening(ctx, facts, upd=UPD, scope=('datafusion_physical_plan',), rule='publication-widening-agreement', expr_ty='dyn datafusion_physical_expr_common::physical_expr::PhysicalExpr'):
    """Sibling publication sites agree (contradiction rule): the publishers of a dynamic filter are the functions that call `update`.  If, in one
    impl, some publication passes its argument through a method of the same impl that reads `self` (the NULL-preserving widening of the join
    accumulator: it consults null_aware / null_equality), then every publication of that impl does so on every path - a filter shape published
    without the widening drops probe rows the join still needs."""
    import re as _re
    import C16 as _C16
    from traces import run_traces as _rt
    EXPR = expr_ty

    def is_transformer(fn):
        # a method of the publisher that takes a filter expression and answers a filter expression (expr -> expr)
        sg = facts.sig(fn)
        return bool(sg) and EXPR in sg[0] and any(EXPR in t for t in sg[2:])
    pubs = {}
    for c in facts.callers_of(upd):
        r = facts.fn(c)
        if r is None or r['crate'] not in scope or '::test' in c:
            continue
        owner = c.split('::{closure')[0].rsplit('::', 1)[0]
        pubs.setdefault(owner, set()).add(c.split('::{closure')[0])
    n = 0
    for owner, fns in sorted(pubs.items()):
        sites = []      # (fn, line, set of owner-method names applied to the argument)
        for d in sorted(fns):
            for body in [d] + sorted(k for k in facts.fn_index if k.startswith(d + '::{closure')):
                rec = facts.fn(body)
                if rec is None:
                    continue
                args = [MR(-1, 0, (), sym('st')), MR(-1, 1, (), sym('cx'))] if rec.get('coroutine') else _C16.args_for(rec)
                try:
                    outs = _rt(facts, rec, args, inline_depth=0, time_budget=30, budget=800000, loop_visits=1, try_tags=True)
                except Undecidable:
                    continue
                for o in outs:
                    for e in o.events:
                        if e[0] == 'callargs' and e[1] == upd and len(e[2]) > 1:
                            t = tag_of(e[2][1]) or ''
                            ws = set(m for m in _re.findall(r'call:([A-Za-z_0-9]+)@\d+\(self[,)]', t) if is_transformer(owner + '::' + m))
                            if _re.match(r'^(try:)?call:lit@\d+', t):
                                ws.add('LITERAL')
                            sites.append((d, e[3], frozenset(ws)))
        if not sites:
            continue
        wideners = set.union(*[set(w) for _, _, w in sites]) - {'LITERAL'}
        if not wideners:
            ctx.skip(rule, owner, 'no publication of this type routes its argument through a method of the type')
            continue
        n += 1
        # publishing a bare literal (the `lit(true)` placeholder that keeps every row) needs no widening
        missing = [(d, l) for d, l, w in sites if not (w & wideners) and 'LITERAL' not in w]
        inst = owner.rsplit('::', 1)[-1]
        if missing:
            d, l = missing[0]
            ctx.fail(rule, inst, ctx.loc(facts.fn(d), l), 'a path of %s publishes a filter that did not go through %s, which every other publication of this type applies: that filter '
                     'shape can discard probe rows (e.g. NULL keys of a null-equal / null-aware join) that contribute to the result' % (d.rsplit('::', 1)[-1], '/'.join(sorted(wideners))),
                     key='%s|%s' % (rule, inst))
        else:
            ctx.ok(rule, inst, sample={'publisher': inst, 'publication_paths': len(sites), 'widening': sorted(wideners)})
    return n


def run(ctx):
    f = ctx.facts
    npw = publication_widening(ctx, f)
    ctx.floor('publication-widening-agreement', 'publisher types that widen what they publish', npw, 1)
    check_current(ctx, f, CUR, DF)
    check_cache_edge(ctx, f, CUR, DF)
    check_update(ctx, f, UPD, DF)
    bad, n = check_lock_graph(ctx, f, DF, 'dynamic_filters/mod.rs')
    ctx.floor('lock-graph', 'functions of dynamic_filters/mod.rs that take a lock', n, 10)
    # gate
    rec = ctx.fn(GATE, 'pushdown-gate')
    adt = f.adts.get(HJ)
    if rec and adt:
        fi = [k for k, fl in enumerate(adt['variants'][0]['fields']) if fl[0] == 'join_type'][0]
        for jtv in enum_domain(f, JT):
            selfv = R(U(((('f', fi), jtv),), 'self'))
            outs = Explorer(f, inline_depth=1, inline_only=('datafusion_common::join_type::',)).run(rec, [selfv, TOP])
            rets = set(show(o.ret) for o in outs)
            safe = oracle('drop_unmatched_side_safe', jtv.name, 1)
            inst = 'allow_join_dynamic_filter_pushdown[%s]' % jtv.name
            if not safe and rets != {'0'}:
                ctx.fail('pushdown-gate', inst, ctx.loc(rec), 'a dynamic filter may be pushed to the probe side of a %s join, but in the model dropping unmatched probe rows changes the result' % jtv.name,
                         key='pushdown-gate|' + inst)
            else:
                ctx.ok('pushdown-gate', inst, nontrivial=not safe, sample={'jt': jtv.name, 'may_return': sorted(rets), 'model_safe': safe})
    # selftests
    import common
    st = ctx.st
    probe = common.Ctx(ctx.pid, ctx.tier, st, st, {})
    probe.known = []
    SD = 'dfscan_selftest::dynf::'
    check_current(probe, st, SD + 'Dyn::bad_current', SD, rule='st')
    check_current(probe, st, SD + 'Dyn::bad_current_reread', SD, rule='st')
    torn = [v['key'] for v in probe.viol if 'ONE acquisition' in v['msg']]
    ctx.selftest('atomic-read detects expr and generation read under two separate guards, directly (bad_current) and through helpers (bad_current_reread)',
                 any('bad_current_reread' in k for k in torn) and any(k.endswith('bad_current') for k in torn))
    n0 = len(probe.viol)
    check_current(probe, st, SD + 'Dyn::good_current_split', SD, rule='st')
    ctx.selftest('atomic-read accepts current() split into helpers that keep one snapshot under one guard', len(probe.viol) == n0)
    b2 = check_update(probe, st, SD + 'Dyn::bad_update', SD, rule='st2')
    ctx.selftest('atomic-write detects generation bumped under a second guard', b2 > 0)
    n0 = len(probe.viol)
    publication_widening(probe, st, upd=SD + 'Filt::update', scope=('dfscan_selftest',), rule='st-pub', expr_ty='dyn dfscan_selftest::dynf::Px')
    ctx.selftest('publication-widening agreement reports a publisher that widens only one of its filter shapes (BadPub), silent on GoodPub',
                 sorted(v['key'] for v in probe.viol[n0:]) == ['st-pub|BadPub'])
