"""C07 — aggregate state can be split, merged and retracted: capability flag <=> override,
and state arity agreement between writer and reader."""
from enumtab import *

TECHNIQUE = 'static analysis: impl/override census from the type-checked program; constant evaluation of capability flags (A1); literal state-vector arity from MIR'
EXPLANATION = ('For every impl of Accumulator and AggregateUDFImpl in the workspace: supports_retract_batch() constantly true <=> '
               'retract_batch is overridden (the default returns not_impl_err); groups_accumulator_supported() able to return true => '
               'create_groups_accumulator is overridden; create_sliding_accumulator overridden => every Accumulator type it constructs '
               'supports retraction; and, where both are literal, the number of values written by state() equals 1 + the largest '
               'constant index merge_batch reads from its `states` argument (the partial->final column agreement). For every impl of '
               'GroupsAccumulator (18): evaluate(emit_to) and state(emit_to) drain the same per-group fields (every field one of them writes '
               'and update_batch advances is written by the other), so a partial emit through either leaves the remaining groups aligned. '
               'Numeric laws of split/merge/retract are not decided.')
ASSUMPTIONS = ['the default bodies of retract_batch / create_groups_accumulator return not-implemented errors (checked: they are trait defaults)']

ACC = 'datafusion_expr_common::accumulator::Accumulator'
UDAF = 'datafusion_expr::udaf::AggregateUDFImpl'


def items_of(impl):
    return {x[0]: x[1] for x in impl['items']}


def const_bool(facts, d, nargs=None):
    """set of possible constant returns of a bool method ('0','1','?')"""
    rec = facts.fn(d)
    if rec is None:
        return {'?'}
    try:
        outs = Explorer(facts, inline_depth=1, time_budget=10).run(rec, [TOP] * rec['argc'])
    except Undecidable:
        return {'?'}
    return set(show(o.ret) if isinstance(strip(o.ret), I) else '?' for o in outs)


def state_len(facts, d):
    rec = facts.fn(d)
    if rec is None:
        return None
    try:
        outs = Explorer(facts, inline_depth=0, time_budget=10).run(rec, [MR(-1, 0, (), sym('self'))] + [TOP] * (rec['argc'] - 1))
    except Undecidable:
        return None
    lens = set()
    for o in outs:
        r = strip(o.ret)
        if isinstance(r, A) and r.name == 'Err':
            continue
        if isinstance(r, A) and r.name == 'Ok':
            v = strip(read_proj(r, [('f', 0)]))
            if isinstance(v, T):
                lens.add(len(v.items))
                continue
        lens.add(None)
    if len(lens) == 1 and None not in lens:
        return lens.pop()
    return None


def merge_max_index(rec):
    """largest constant index read from argument 2 (`states`) in merge_batch; None if any non-constant index"""
    from resultflow import aliases
    al = aliases(rec, 2)
    consts = {}
    for b in rec['bb']:
        for st in b['s']:
            if st[0] == '=' and not st[1][1] and st[2][0] == 'use' and st[2][1][0] == 'k' and 'int' in st[2][1][1]:
                consts[st[1][0]] = st[2][1][1]['int']
    idx = set()
    nonconst = False

    def scan_place(loc, projs):
        nonlocal nonconst
        if loc not in al:
            return
        for p in projs:
            if isinstance(p, list) and p[0] == 'ci' and not p[2]:
                idx.add(p[1])
            elif isinstance(p, list) and p[0] == 'i':
                if p[1] in consts:
                    idx.add(consts[p[1]])
                else:
                    nonconst = True
    for b in rec['bb']:
        if b.get('cu'):
            continue
        for st in b['s']:
            if st[0] == '=':
                rv = st[2]
                if rv[0] == 'use' and rv[1][0] in ('c', 'm'):
                    scan_place(*rv[1][1])
                elif rv[0] in ('ref', 'discr'):
                    scan_place(*rv[1])
        t = b['t']
        if t[0] == 'call':
            for a in t[2]:
                if a[0] in ('c', 'm'):
                    scan_place(*a[1])
            nm = (t[1].get('res') or t[1].get('def') or '') if isinstance(t[1], dict) else ''
            # states.get(i) / iteration over states: non-literal
            if t[2] and t[2][0][0] in ('c', 'm') and t[2][0][1][0] in al and nm.endswith(('::iter', '::get', '::into_iter', '::len', '::first', '::last')):
                if nm.endswith(('::iter', '::into_iter', '::get')):
                    nonconst = True
    if nonconst or not idx:
        return None
    return max(idx)


def check_accumulators(ctx, facts, trait=ACC, rule='retract-flag-override'):
    bad = 0
    n = 0
    nret = 0
    for imp in facts.impls_of(trait):
        it = items_of(imp)
        n += 1
        flag = it.get('supports_retract_batch')
        over = 'retract_batch' in it
        vals = const_bool(facts, flag) if flag else {'0'}
        inst = imp['self']
        if vals == {'1'} and not over:
            bad += 1
            ctx.fail(rule, inst, '%s:%s' % (imp['file'], imp['line']), 'supports_retract_batch() is true but retract_batch is not overridden: sliding windows get the default not_impl error',
                     key='%s|%s' % (rule, inst))
        elif over and vals == {'0'}:
            bad += 1
            ctx.fail(rule, inst, '%s:%s' % (imp['file'], imp['line']), 'retract_batch is overridden but supports_retract_batch() is false: the executor never uses it and falls back silently',
                     key='%s|unused|%s' % (rule, inst))
        else:
            if over:
                nret += 1
            ctx.ok(rule, inst, nontrivial=over, sample={'impl': inst, 'supports_retract_batch': sorted(vals), 'retract_batch_overridden': over} if over else None)
        # arity
        if 'state' in it and 'merge_batch' in it:
            sl = state_len(facts, it['state'])
            mrec = facts.fn(it['merge_batch'])
            mi = merge_max_index(mrec) if mrec else None
            if sl is not None and mi is not None:
                if mi + 1 != sl:
                    bad += 1
                    ctx.fail('state-arity', inst, ctx.loc(mrec), 'state() writes %d value(s) but merge_batch reads states[%d]: partial and final stages disagree on the state columns' % (sl, mi),
                             key='state-arity|%s' % inst)
                else:
                    ctx.ok('state-arity', inst, sample={'impl': inst, 'state_len': sl, 'merge_reads_up_to': mi})
            else:
                ctx.skip('state-arity', inst, 'state()/merge_batch are not literal (state_len=%s, max_index=%s)' % (sl, mi))
    return bad, n, nret



GACC = 'datafusion_expr_common::groups_accumulator::GroupsAccumulator'


def emit_siblings_agree(ctx, f, trait=GACC, rule='emit-siblings-agree', a='evaluate', b='state', upd='update_batch'):
    """evaluate(emit_to) and state(emit_to) of a GroupsAccumulator both hand out the first n groups and drop them from every
    per-group vector; they must drain the same state: every field that one of them writes and that update_batch advances must be
    written by the other too.  A vector that only one of them drains leaves the remaining groups misaligned after a partial emit."""
    import C13
    n = 0
    for i in f.impls_of(trait):
        owner = i.get('self_adt')
        items = dict((x[0], x[1]) for x in i['items'] if x[2])
        if not owner or a not in items or b not in items:
            continue
        n += 1
        wa = C13.tree_writes(f, items[a], owner)
        wb = C13.tree_writes(f, items[b], owner)
        wu = C13.tree_writes(f, items[upd], owner) if upd in items else (wa | wb)
        ctx.analysed_fns.update((items[a], items[b]))
        only_a, only_b = sorted((wa - wb) & wu), sorted((wb - wa) & wu)
        inst = owner.rsplit('::', 1)[-1]
        if only_a or only_b:
            rec = f.fn(items[b])
            ctx.fail(rule, inst, ctx.loc(rec), '%s() drains %s but %s() does not; %s() drains %s but %s() does not: after a partial emit through one of them the per-group '
                     'vectors no longer line up' % (a, only_a, b, b, only_b, a), key='%s|%s' % (rule, owner))
        else:
            ctx.ok(rule, inst, sample={'accumulator': owner, 'per_group_state': sorted(wa & wu)} if n <= 6 else None)
    return n

def run(ctx):
    f = ctx.facts
    bad, n, nret = check_accumulators(ctx, f)
    ctx.floor('retract-flag-override', 'impl Accumulator', n, 55)
    ctx.floor('retract-flag-override', 'accumulators overriding retract_batch', nret, 13)
    retract_ok = set()
    for imp in f.impls_of(ACC):
        it = items_of(imp)
        if 'retract_batch' in it and imp.get('self_adt'):
            retract_ok.add(imp['self_adt'])
    acc_adts = set(i.get('self_adt') for i in f.impls_of(ACC) if i.get('self_adt'))
    nu = 0
    for imp in f.impls_of(UDAF):
        it = items_of(imp)
        nu += 1
        inst = imp['self']
        sup = it.get('groups_accumulator_supported')
        if sup:
            vals = const_bool(f, sup)
            if vals != {'0'} and 'create_groups_accumulator' not in it:
                ctx.fail('groups-flag-override', inst, '%s:%s' % (imp['file'], imp['line']), 'groups_accumulator_supported() can return true but create_groups_accumulator is not overridden (default: not implemented)',
                         key='groups-flag-override|' + inst)
            else:
                ctx.ok('groups-flag-override', inst, sample={'impl': inst, 'supported_returns': sorted(vals)})
        cs = it.get('create_sliding_accumulator')
        if cs:
            built = set()
            tree = f.call_tree(cs, depth=1)
            for d in tree:
                for adt, fns in f.constructors.items():
                    pass
            for adt in acc_adts:
                if any(d in f.constructors.get(adt, ()) for d in tree):
                    built.add(adt)
            badb = [a for a in built if a not in retract_ok]
            if not built:
                ctx.skip('sliding-retracts', inst, 'no accumulator construction found in create_sliding_accumulator call tree')
            elif badb:
                ctx.fail('sliding-retracts', inst, ctx.loc(f.fn(cs)), 'create_sliding_accumulator builds %s which does not implement retract_batch' % badb, key='sliding-retracts|' + inst)
            else:
                ctx.ok('sliding-retracts', inst, sample={'impl': inst, 'sliding_accumulators': sorted(built)})
    ctx.floor('groups-flag-override', 'impl AggregateUDFImpl', nu, 38)
    ng = emit_siblings_agree(ctx, f)
    ctx.floor('emit-siblings-agree', 'impl GroupsAccumulator with both evaluate and state', ng, 16)
    # selftest
    import common
    st = ctx.st
    probe = common.Ctx(ctx.pid, ctx.tier, st, st, {})
    probe.known = []
    b, _, _ = check_accumulators(probe, st, trait='dfscan_selftest::aggs::Accumulator', rule='st')
    ctx.selftest('flag/override and arity rules fire on the seeded accumulators', b >= 2)
    emit_siblings_agree(probe, st, trait='dfscan_selftest::aggs::GAcc', rule='st-emit')
    keys = [v['key'] for v in probe.viol if v['key'].startswith('st-emit|')]
    ctx.selftest('emit-siblings rule reports a state() that does not drain what evaluate() drains (AvgBad), accepts AvgGood',
                 any('AvgBad' in k for k in keys) and not any('AvgGood' in k for k in keys))
