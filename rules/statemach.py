"""Finaliser-bypass rule for stream state machines (a contradiction rule in the sense of Engler et al.).

A stream struct has a field `state` of an enum type; a dispatcher method matches on it and calls one handler per state; handlers assign the
next state.  From the code alone:
  * terminal states T       : states whose handler assigns no successor;
  * finaliser states F      : non-terminal states all of whose successors are terminal (e.g. "emit the globally unmatched right rows, then Done");
  * the owed-condition G_F   : the literals over `self` (fields and argument-free getters) that hold on EVERY path which enters F.
A path of some other handler that jumps straight to a terminal state while no literal of G_F is excluded on it (dispatch conditions included)
skips a finalisation that, by the code's own belief, is owed under G_F: reported.  Paths that test and exclude one literal of G_F are fine.
"""
import re
from traces import *
import C16


def _lit(t):
    t = norm_tag(str(t))
    return re.sub(r'@\d+', '', t)


def _self_literal(tag, selfname='self'):
    """normalised literal name if the tested value is a field of self or an argument-free getter on self"""
    t = str(tag)
    n = _lit(t)
    if n.startswith(selfname + '.') and '(' not in n:
        return n
    m = re.match(r'^call:([A-Za-z_0-9]+)@\d+\((%s)\)$' % re.escape(selfname), t)
    if m:
        return 'call:%s(self)' % m.group(1)
    m = re.match(r'^(is_some|is_none)\((%s\.[A-Za-z_0-9.]+)\)$' % re.escape(selfname), t)
    if m:
        return '%s(%s)' % (m.group(1), m.group(2))
    # a pure-looking predicate over fields of self only: need_produce_result_in_final(self.join_type)
    m = re.match(r'^call:([A-Za-z_0-9]+)@\d+\(((?:%s(?:\.[A-Za-z_0-9]+)*,?)+)\)$' % re.escape(selfname), t)
    if m:
        return 'call:%s(%s)' % (m.group(1), m.group(2))
    return None


def _path_summary(o, state_suffix='.state'):
    """-> (successors assigned in order, literals dict or None if contradictory, first handler-call index info)"""
    lits = {}
    ok = True
    succ = []
    for e in o.events:
        if e[0] == 'branch' and e[1]:
            name = _self_literal(e[1])
            if name is None:
                continue
            if e[2] == 0:
                v = 0
            elif e[2] == 1 or (len(e) > 3 and e[3] == (0,)):
                v = 1
            else:
                continue
            if lits.setdefault(name, v) != v:
                ok = False
        elif e[0] == 'assign':
            place = str(e[1])
            if place.endswith(state_suffix) and isinstance(strip(e[2]), A):
                succ.append(strip(e[2]).name)
            elif place.endswith(state_suffix):
                succ.append('?')        # a successor computed elsewhere (self.state = self.next_state(..)): the state is not terminal
            elif place.startswith('self.') and '(' not in place and isinstance(strip(e[2]), I) and strip(e[2]).n in (0, 1):
                lits[place] = strip(e[2]).n       # a flag set on the path holds afterwards
    return succ, (lits if ok else None)


def analyse(facts, stream_adt, state_field='state', time_budget=4, budget=400000):
    """-> dict(states, handler_of, trans, T, F, G) or raises Undecidable / returns None when the shape is not a dispatcher + handlers machine"""
    a = facts.adts.get(stream_adt)
    if not a:
        return None
    fidx = [i for i, fl in enumerate(a['variants'][0]['fields']) if fl[0] == state_field]
    if not fidx:
        return None
    senum = a['variants'][0]['fields'][fidx[0]][1]
    se = facts.adts.get(senum)
    if not se or se['kind'] != 'enum':
        return None
    states = [v['name'] for v in se['variants']]
    prefix = stream_adt + '::'
    gen = [d for d in facts.fn_index if (d.startswith(prefix) or d.startswith(stream_adt + '<')) and '{closure' not in d]
    # also methods of generic instantiations `Adt::<..>::m`
    gen += [d for d in facts.fn_index if d.startswith(stream_adt + '::<') and '{closure' not in d and d not in gen]
    # trait impl methods (the dispatcher is usually Stream::poll_next)
    gen += [d for d in facts.fn_index if d.startswith('<' + stream_adt + ' as ') and '{closure' not in d]
    gen += [d for d in facts.fn_index if d.startswith('<' + stream_adt + '<') and ' as ' in d and '{closure' not in d]
    genset = set(gen)

    def _keep(e):
        # only what the rule reads: successor assignments and flag writes, conditions over self, calls of sibling methods
        if e[0] == 'assign':
            return str(e[1]).startswith('self.') or str(e[1]).endswith('.' + state_field)
        if e[0] == 'branch':
            return 'self' in str(e[1])
        if e[0] == 'callargs':
            return e[1] in genset
        return e[0] == 'loopcut'
    summ = {}
    for d in sorted(set(gen)):
        rec = facts.fn(d)
        if rec is None or rec.get('coroutine'):
            continue
        outs = run_traces(facts, rec, C16.args_for(rec), inline_depth=0, time_budget=time_budget, budget=budget, loop_visits=1, try_tags=True, keep=_keep, kill_dead=True)
        paths = []
        for o in outs:
            succ, lits = _path_summary(o, '.' + state_field)
            if lits is None:
                continue
            calls_ = [e[1] for e in o.events if e[0] == 'callargs' and e[1] in gen]
            paths.append((succ, lits, calls_))
        summ[d] = paths
    assigners = set(d for d, ps in summ.items() if any(p[0] for p in ps))
    # handlers take `&mut self` (or Pin<&mut Self>); `&self` methods the dispatcher consults are getters, not handlers
    mutators = set(d for d in summ if facts.fn(d)['argc'] >= 1 and '&mut ' in facts.fn(d)['locals'][1][0])
    # dispatcher: the method that calls the largest number of state-assigning methods (at least 3)
    disp = sorted(summ, key=lambda d: -len(set(c for p in summ[d] for c in p[2] if c in assigners)))
    if not disp or len(set(c for p in summ[disp[0]] for c in p[2] if c in assigners)) < 3:
        return None
    disp = disp[0]
    drec = facts.fn(disp)
    handler_of = {}
    per_state = {}
    for vi, v in enumerate(states):
        selfv = U((((('f', fidx[0])), A(senum, vi, v, ())),), 'self')
        args = C16.args_for(drec)
        args[0] = MR(-1, 0, (), selfv) if isinstance(args[0], MR) else (R(selfv) if isinstance(args[0], R) else selfv)
        outs = run_traces(facts, drec, args, inline_depth=0, time_budget=time_budget, budget=budget, loop_visits=1, try_tags=True, keep=_keep, kill_dead=True)
        for o in outs:
            succ, lits = _path_summary(o, '.' + state_field)
            if lits is None:
                continue
            sib = [e[1] for e in o.events if e[0] == 'callargs' and e[1] in summ and e[1] != disp and e[1] in mutators]
            # the handler of the state is the first sibling that assigns a state; `&self` getters the dispatcher consults first
            # (`if self.buffer_finished() { return }`) are not handlers.  A state none of whose siblings assigns anything keeps the last one.
            first = next((c for c in sib if c in assigners), sib[-1] if sib else None)
            if first:
                handler_of.setdefault(v, {}).setdefault(first, []).append(lits)
            per_state.setdefault(v, []).append((bool(first), bool(succ)))
    def expand(h, depth):
        """paths of handler h with the state-assigning sub-handlers it calls followed (handle_x -> handle_x_memory_limited)"""
        out = []
        for succ, lits, calls_ in summ.get(h, []):
            subs = [c for c in calls_ if c in assigners and c != h]
            if not subs or depth >= 2:
                out.append((succ, lits, h))
                continue
            for succ2, lits2, h2 in expand(subs[0], depth + 1):
                merged = dict(lits)
                if any(merged.setdefault(k, x) != x for k, x in lits2.items()):
                    continue
                out.append((succ + succ2, merged, h2))
        return out

    inline_terminal = set(v for v, ps in per_state.items() if ps and not any(h or sc for h, sc in ps))
    trans = {}      # state -> list of (succ list, lits incl. dispatch, handler)
    # literals the dispatcher establishes before EVERY handler call (e.g. "the output buffer is not finished"): they say nothing about one
    # state in particular, so they cannot be the condition under which a finalisation is owed
    dispatch_wide = None
    for v, hs in handler_of.items():
        for h, dl in hs.items():
            for l in dl:
                dispatch_wide = dict(l) if dispatch_wide is None else {k: x for k, x in dispatch_wide.items() if l.get(k) == x}
    dispatch_wide = dispatch_wide or {}
    for v, hs in handler_of.items():
        for h, dl in hs.items():
            # dispatch literals common to every way of reaching h from v
            common = dict(dl[0])
            for l in dl[1:]:
                common = {k: x for k, x in common.items() if l.get(k) == x}
            for succ, lits, hh in expand(h, 0):
                merged = dict(common)
                bad = False
                for k, x in lits.items():
                    if merged.setdefault(k, x) != x:
                        bad = True
                if not bad:
                    trans.setdefault(v, []).append((succ, merged, hh))
    T = set(v for v in states if v in handler_of and not any(s for s, _, _ in trans.get(v, [])))
    # a state the dispatcher answers itself (no handler call, no successor assigned on any of its paths) is terminal too
    T |= inline_terminal
    F = set()
    for v in states:
        if v in T or v not in trans:
            continue
        succs = set(s[-1] for s, _, _ in trans[v] if s)
        if succs and succs <= T:
            F.add(v)
    G = {}
    for fstate in F:
        lits_list = [l for v in trans for s, l, _ in trans[v] if s and s[-1] == fstate]
        if not lits_list:
            continue
        g = dict(lits_list[0])
        for l in lits_list[1:]:
            g = {k: x for k, x in g.items() if l.get(k) == x}
        G[fstate] = {k: x for k, x in g.items() if dispatch_wide.get(k) != x}
    return {'states': states, 'dispatcher': disp, 'handler_of': {v: sorted(hs) for v, hs in handler_of.items()}, 'trans': trans, 'T': T, 'F': F, 'G': G, 'enum': senum}


def check(ctx, facts, stream_adt, rule='finaliser-bypass', state_field='state', time_budget=4, budget=400000, m=None):
    try:
        m = m or analyse(facts, stream_adt, state_field, time_budget=time_budget, budget=budget)
    except Undecidable as ex:
        ctx.undecided(rule, stream_adt, str(ex))
        return 1, None
    if m is None:
        ctx.lost(rule, stream_adt + ' (dispatcher + handlers state machine)')
        return 1, None
    bad = 0
    short = stream_adt.rsplit('::', 1)[-1]
    for fstate in sorted(m['F']):
        if fstate not in m['G']:
            bad += 1
            ctx.fail(rule, '%s.%s' % (short, fstate), stream_adt, 'the finaliser state %s has a handler but no transition enters it any more: its finalisation is never run' % fstate,
                     key='%s|%s.%s|never-entered' % (rule, short, fstate))
    for fstate, g in sorted(m['G'].items()):
        if not g:
            ctx.skip(rule, '%s.%s' % (short, fstate), 'no condition over self is common to all paths entering this finaliser state')
            continue
        for v in m['states']:
            if v in m['F'] or v in m['T']:
                continue
            for succ, lits, h in m['trans'].get(v, []):
                if not succ or succ[-1] not in m['T']:
                    continue
                excluded = [k for k, x in g.items() if k in lits and lits[k] != x]
                inst = '%s: %s -> %s in %s' % (short, v, succ[-1], h.rsplit('::', 1)[-1])
                if excluded:
                    ctx.ok(rule, inst, sample={'transition': inst, 'excludes': excluded[0], 'owed_condition_of_%s' % fstate: g})
                else:
                    bad += 1
                    rec = facts.fn(h)
                    ctx.fail(rule, inst, ctx.loc(rec), 'jumps to the terminal state %s although the condition under which the finaliser state %s is entered (%s) is not excluded on this path '
                             '(known here: %s): the finalisation is skipped' % (succ[-1], fstate, ' and '.join('%s=%d' % kv for kv in sorted(g.items())),
                                                                              ', '.join('%s=%d' % kv for kv in sorted(lits.items())) or 'nothing'), key='%s|%s' % (rule, inst))
    return bad, m
