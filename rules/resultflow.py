"""A5 — what happens to a Result produced by a call (flow-insensitive def-use over one MIR body).

classify(rec, block_index) -> set of fates for the destination local of the call terminating that block:
  'propagated'  moved into Try::branch (the `?` operator), returned, or stored/sent/passed on
  'matched'     its discriminant is inspected (manual handling)
  'panic'       consumed by unwrap/expect
  'swallow:<fn>' consumed by ok()/unwrap_or*/is_ok/is_err/unwrap_or_default ...
  'dropped'     never used (let _ = ...)
"""
from taint import place_root, rv_locals

ERR_TYPES = ('datafusion_common::error::DataFusionError', 'arrow_schema::error::ArrowError', 'parquet::errors::ParquetError',
             'std::io::error::Error', 'object_store::Error', 'tokio::runtime::task::error::JoinError', 'object_store::path::Error', 'dfscan_selftest::errs::DfErr')
PANICKERS = ('::unwrap', '::expect', '::unwrap_unchecked', '::unwrap_err', '::expect_err')
SWALLOWERS = ('::ok', '::unwrap_or', '::unwrap_or_else', '::unwrap_or_default', '::is_ok', '::is_err', '::is_ok_and', '::err', '::map_or', '::map_or_else',
              '::is_err_and')
ADAPTERS = ('::map_err', '::map', '::and_then', '::or_else', '::context', '::with_context', '::inspect_err', '::inspect', '::into', '::from',
            '::map_ok', '::transpose', '::flatten', '::as_ref', '::as_mut', '::cloned', '::copied', '::boxed')


def split_generic(t):
    """top-level generic arguments of `Path<...>`"""
    k = t.find('<')
    if k < 0 or not t.endswith('>'):
        return t, []
    inner = t[k + 1:-1]
    out, depth, cur = [], 0, ''
    for ch in inner:
        if ch in '<([':
            depth += 1
        elif ch in '>)]':
            depth -= 1
        if ch == ',' and depth == 0:
            out.append(cur.strip())
            cur = ''
        else:
            cur += ch
    if cur.strip():
        out.append(cur.strip())
    return t[:k], out


def result_err_type(ty):
    """error type E if ty is (Poll<)?(Option<)?Result<_, E>, else None"""
    t = ty
    while True:
        head, args = split_generic(t)
        if head in ('core::task::poll::Poll', 'core::option::Option') and args:
            t = args[0]
            continue
        if head == 'core::result::Result' and len(args) == 2:
            return args[1]
        return None


def is_result_of_err(ty):
    e = result_err_type(ty)
    return e is not None and any(e.startswith(x) for x in ERR_TYPES)


def aliases(rec, local):
    """locals that hold (a projection / reference / move of) the same value: no calls, no arithmetic"""
    al = {local}
    changed = True
    while changed:
        changed = False
        for b in rec['bb']:
            if b.get('cu'):
                continue
            for st in b['s']:
                if st[0] != '=' or st[1][1]:
                    continue
                rv = st[2]
                src = None
                if rv[0] == 'use' and rv[1][0] in ('c', 'm'):
                    src = rv[1][1][0]
                elif rv[0] in ('ref', 'rawptr'):
                    src = rv[1][0]
                elif rv[0] == 'cast' and rv[2][0] in ('c', 'm'):
                    src = rv[2][1][0]
                if src in al and st[1][0] not in al:
                    al.add(st[1][0])
                    changed = True
            t = b['t']
            if t[0] == 'call' and isinstance(t[1], dict):
                nm = t[1].get('res') or t[1].get('def') or ''
                if nm.endswith(('Deref>::deref', 'DerefMut>::deref_mut', '::as_ref', '::as_mut', 'AsRef>::as_ref')) and t[2] and \
                        t[2][0][0] in ('c', 'm') and t[2][0][1][0] in al and t[3][0] not in al and not t[3][1]:
                    al.add(t[3][0])
                    changed = True
    return al


def payload_reads(rec, local):
    """(ok_read, err_read_locals): does code derived from `local` read the Ok payload; which locals receive the Err payload"""
    derived = aliases(rec, local)
    ok_read = False
    err_dest = set()
    for b in rec['bb']:
        if b.get('cu'):
            continue
        items = [(st[1][0], st[2]) for st in b['s'] if st[0] == '=']
        for d, rv in items:
            places = []
            if rv[0] == 'use' and rv[1][0] in ('c', 'm'):
                places.append(rv[1][1])
            elif rv[0] in ('ref', 'discr', 'rawptr'):
                places.append(rv[1])
            elif rv[0] == 'agg':
                places += [o[1] for o in rv[2] if o[0] in ('c', 'm')]
            for loc, projs in places:
                if loc not in derived:
                    continue
                names = [p[2] for p in projs if isinstance(p, list) and p[0] == 'd']
                if 'Err' in names and rv[0] != 'discr':
                    err_dest.add(d)
                elif 'Ok' in names and rv[0] != 'discr':
                    ok_read = True
        t = b['t']
        if t[0] == 'call':
            for a in t[2]:
                if a[0] in ('c', 'm') and a[1][0] in derived:
                    names = [p[2] for p in a[1][1] if isinstance(p, list) and p[0] == 'd']
                    if 'Err' in names:
                        err_dest.add(t[3][0])
                    elif 'Ok' in names:
                        ok_read = True
    return ok_read, err_dest


def whole_value_forwarded(rec, local):
    """the item (or its Option/Result level) is moved on WITHOUT selecting the Ok arm and reaches the
    return value or another call — e.g. `other => return Poll::Ready(other)`"""
    from taint import propagate
    derived = aliases(rec, local)
    whole = set()
    for b in rec['bb']:
        if b.get('cu'):
            continue
        for st in b['s']:
            if st[0] != '=':
                continue
            rv = st[2]
            ops = []
            if rv[0] == 'use':
                ops = [rv[1]]
            elif rv[0] == 'agg':
                ops = list(rv[2])
            for o in ops:
                if o[0] == 'm' and o[1][0] in derived:
                    names = [p[2] for p in o[1][1] if isinstance(p, list) and p[0] == 'd']
                    if 'Ok' not in names and 'Err' not in names and o[1][0] != st[1][0]:
                        whole.add(st[1][0])
    if not whole:
        return False
    # exclude flows that go through the Ok payload: start only from `whole`
    reach = propagate(rec, whole)
    if 0 in reach:
        return True
    for b in rec['bb']:
        t = b['t']
        if t[0] == 'call' and not b.get('cu'):
            name = (t[1].get('res') or t[1].get('def') or '') if isinstance(t[1], dict) else ''
            if any(a[0] in ('c', 'm') and a[1][0] in whole for a in t[2]) and not name.endswith(('::drop', 'Try>::branch')):
                return True
    return False


def uses_of(rec, local):
    """[(kind, detail)] kind in 'stmt','call','switch','drop','ret','yield'"""
    out = []
    for bi, b in enumerate(rec['bb']):
        if b.get('cu'):
            continue
        for st in b['s']:
            if st[0] == '=':
                if local in rv_locals(st[2]):
                    out.append(('stmt', st, bi))
        t = b['t']
        if t[0] == 'call':
            args = [place_root(a) for a in t[2]]
            if local in args:
                out.append(('call', t, bi))
        elif t[0] == 'switch':
            if place_root(t[1]) == local:
                out.append(('switch', t, bi))
        elif t[0] == 'drop':
            if t[1][0] == local:
                out.append(('drop', t, bi))
        elif t[0] == 'yield':
            if place_root(t[1]) == local:
                out.append(('yield', t, bi))
    return out


def bool_is_branched(rec, local, depth=0):
    """the boolean held by `local` (or a copy / negation of it) is the operand of a conditional branch"""
    if depth > 4:
        return False
    for kind, x, bi in uses_of(rec, local):
        if kind == 'switch':
            return True
        if kind == 'stmt' and not x[1][1] and x[2][0] in ('use', 'un', 'unop', 'not') and x[1][0] != local:
            if bool_is_branched(rec, x[1][0], depth + 1):
                return True
    return False


def fate(rec, local, depth=0, seen=None):
    seen = seen or set()
    if local in seen or depth > 6:
        return {'propagated'}
    seen.add(local)
    if local == 0:
        return {'propagated'}
    fates = set()
    uses = uses_of(rec, local)
    real = [u for u in uses if u[0] != 'drop']
    if not real:
        return {'dropped'}
    for kind, x, bi in real:
        if kind == 'switch' or kind == 'yield':
            fates.add('matched' if kind == 'switch' else 'propagated')
        elif kind == 'stmt':
            rv = x[2]
            d = x[1][0]
            if rv[0] == 'discr':
                fates.add('matched')
            elif rv[0] in ('use', 'ref', 'cast', 'agg', 'rawptr'):
                if x[1][1]:       # stored into a field/deref of something: handed on
                    fates.add('propagated')
                else:
                    fates |= fate(rec, d, depth + 1, seen)
            else:
                fates.add('propagated')
        elif kind == 'call':
            fd = x[1]
            name = (fd.get('res') or fd.get('def') or '') if isinstance(fd, dict) else ''
            d = x[3][0]
            if name.endswith('Try>::branch') or name.endswith('Try::branch'):
                fates.add('propagated')
            elif ('core::result::Result' in name or 'core::option::Option' in name or 'core::task::poll::Poll' in name) and name.endswith(PANICKERS):
                fates.add('panic')
            elif ('core::result::Result' in name) and name.endswith(('::is_ok', '::is_err')) and bool_is_branched(rec, d):
                # `let ok = x.is_ok(); if ok { .. } else { .. }` inspects the outcome just like matching on it
                fates.add('matched')
            elif ('core::result::Result' in name) and name.endswith(SWALLOWERS):
                fates.add('swallow:' + name.rsplit('::', 1)[-1])
            elif name.endswith(ADAPTERS) or name.endswith('Deref>::deref') or 'core::clone::Clone' in name:
                fates |= fate(rec, d, depth + 1, seen)
            elif name == 'core::mem::drop':
                fates.add('dropped')
            else:
                fates.add('propagated')   # handed to some other function (send, push, Ready(..), ...)
    return fates or {'propagated'}


def result_sites(rec, want_callee=None):
    """yields (block_index, callee_name, dest_local, line) for calls whose destination is a Result<_, engine error>"""
    for bi, b in enumerate(rec['bb']):
        if b.get('cu'):
            continue
        t = b['t']
        if t[0] != 'call' or not isinstance(t[1], dict) or 'def' not in t[1]:
            continue
        if t[3][1]:
            continue
        d = t[3][0]
        ty = rec['locals'][d][0]
        name = t[1].get('res') or t[1]['def']
        if want_callee is not None:
            if not want_callee(name):
                continue
        elif not is_result_of_err(ty):
            continue
        if t[6]:     # from macro expansion (assert!, debug!, format!) — not user-written handling
            pass
        yield bi, name, d, t[5]
