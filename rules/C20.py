"""C20 — execution errors always surface; no truncated result counts as success."""
from resultflow import *
from enumtab import *
from taint import propagate
import C19

TECHNIQUE = 'static analysis: def-use fate of every stream item / task-join result (error payload must reach a sink) over the execution crates'
EXPLANATION = ('For every call in physical-plan, datasource*, execution, common-runtime and core (non-test) whose result is a stream item '
               'or task result — Poll<Option<Result<_,E>>>, Option<Result<_,E>>, or Result<_, JoinError> with E an engine error type — '
               'the Err payload must reach a sink: the `?` operator, the function\'s return value, a send/push/store, or a whole-value '
               'forward (`other => return Poll::Ready(other)`). Reported: a match that reads the Ok payload but never the Err payload '
               '(`while let Some(Ok(b)) = input.next()` turns a failed input into end-of-input), an Err payload that is read but goes '
               'nowhere, and results consumed only by ok()/is_ok()/unwrap_or*/`let _`. Each site accepted today is frozen with a reason. '
               'Error locals: a user-named local of engine-Result type that is re-assigned or captured mutably by a closure (so that it may hold an Err on '
               'some paths) never reaches the end of its scope un-moved on a path whose answer is a locally built non-error value (found the dropped '
               'comparison error of the order-sensitive array_agg sort, repaired by a fix commit). '
               'Fan-out completeness: every loop that sends to each output channel taken from an iterator (the error / end-of-input fan-out of '
               'RepartitionExec::wait_for_task and any like it) runs until the iterator is exhausted on every path, so a failed send to an '
               'output that hung up cannot keep the error from the outputs still being read. '
               'Bounded time and absence of hangs are not decided.')
# path rules cut loops after a bounded number of iterations: complete over rule instances, not over all unrollings
EXHAUSTIVE = False
ASSUMPTIONS = ['flow-insensitive def-use: a payload that reaches a sink on some path counts as handled',
               'error types: DataFusionError, ArrowError, ParquetError, io::Error, object_store::Error, JoinError']

SCOPE = ('datafusion_physical_plan', 'datafusion_execution', 'datafusion_datasource', 'datafusion_datasource_parquet', 'datafusion_datasource_csv',
         'datafusion_datasource_json', 'datafusion_datasource_arrow', 'datafusion_common_runtime', 'datafusion')
ACCEPTED = {
    ('file_stream::scan_state::ScanState::poll_scan', 'FutureExt::poll_unpin'):
        'OnError::Skip is an explicit, opt-in policy of FileStream (counted in file_open_errors); the default OnError::Fail forwards the error',
    ('file_stream::scan_state::ScanState::poll_scan', 'StreamExt::poll_next_unpin'):
        'OnError::Skip is an explicit, opt-in policy of FileStream (counted in file_scan_errors); the default OnError::Fail forwards the error',
    ('listing_table_factory::ListingTableFactory::create_inner::{closure#0}', 'list_files_for_scan::{closure#0}'):
        'pre-warming the statistics cache is an optimisation: the error is logged and the first scan surfaces it',
    ('opener::RowGroupsPrunedParquetOpen::load_bloom_filters::{closure#0}', 'get_row_group_column_bloom_filter::{closure#0}'):
        'bloom filters are an optional pruning aid: on a read error the row group is kept (counted in predicate_evaluation_errors)',
    ('write::orchestration::spawn_writer_tasks_and_join::{closure#0}::{closure#4}', 'MaybeDone::<Fut>::take_output'):
        'Option::unwrap on MaybeDone::take_output after join!: the future is known to be Done; the inner Result is then `?`-propagated',
}


def t_expanded(rec, bi):
    return bool(rec['bb'][bi]['t'][6])


def is_item_type(ty):
    if ty.startswith('core::task::poll::Poll<core::option::Option<core::result::Result<') or ty.startswith('core::option::Option<core::result::Result<') \
            or ty.startswith('core::task::poll::Poll<core::result::Result<'):
        return is_result_of_err(ty)
    e = result_err_type(ty)
    return e is not None and e.startswith('tokio::runtime::task::error::JoinError')


def contains(v, pfx):
    v0 = strip(v)
    if isinstance(v0, U):
        if not v0.tag:
            return False
        t = norm_tag(v0.tag)
        return t == pfx or t.startswith(pfx + '.') or ('(' + pfx) in v0.tag or (',' + pfx) in v0.tag
    if isinstance(v0, T):
        return any(contains(x, pfx) for x in v0.items)
    if isinstance(v0, A):
        return any(contains(x, pfx) for _, x in v0.fields)
    if isinstance(v0, C):
        return any(contains(x, pfx) for x in v0.caps)
    return False


def err_arm_paths(facts, rec, callee_short, line):
    """path-sensitive: on every explored path where THIS item was refined to the Err variant, the item or its
    Err payload must reach the return value, a non-logging call, or a store.  Returns (n_err_paths, bad_paths) or None."""
    import C16
    from traces import run_traces
    site = 'call:%s@%s' % (callee_short, line)
    try:
        outs = run_traces(facts, rec, C16.args_for(rec) if not rec.get('coroutine') else [MR(-1, 0, (), sym('st')), MR(-1, 1, (), sym('cx'))][:rec['argc']],
                          inline_depth=0, time_budget=8, budget=300000, loop_visits=1)
    except Undecidable:
        return None
    nerr = 0
    bad = 0
    for o in outs:
        idx = [i for i, e in enumerate(o.events) if e[0] == 'variant' and e[3] == 'Err' and norm_tag(e[1]).startswith(site)]
        if not idx:
            continue
        nerr += 1
        base = o.events[idx[0]][1]
        sunk = contains(o.ret, site)
        if not sunk:
            for e in o.events[idx[0]:]:
                if e[0] == 'callargs':
                    nm = e[1]
                    if nm.endswith(('::drop', 'Debug>::fmt', 'Display>::fmt')) or 'core::fmt' in nm or nm.startswith('log::') or (len(e) > 3 and False):
                        continue
                    if any(contains(a, site) for a in e[2]):
                        sunk = True
                        break
                elif e[0] == 'assign' and contains(e[2], site):
                    sunk = True
                    break
        if not sunk:
            bad += 1
    return nerr, bad


def item_sites(ctx, facts, scope, rule='error-payload-reaches-sink'):
    n = 0
    bad = 0
    for d, i, e in facts.all_fn_entries():
        if e[7] not in scope or '::test::' in d or '::test_util' in d or '::tests::' in d:
            continue
        rec = facts.fn(d, i)
        for bi, name, dl, line in result_sites(rec):
            ty = rec['locals'][dl][0]
            if not is_item_type(ty):
                continue
            n += 1
            fs = fate(rec, dl)
            inst = '%s <- %s' % (d, name.rsplit('::', 2)[-2] + '::' + name.rsplit('::', 1)[-1])
            key = '%s|%s' % (rule, inst)
            problem = None
            if 'matched' in fs:
                okr, errd = payload_reads(rec, dl)
                if okr and not errd and not whole_value_forwarded(rec, dl):
                    problem = 'the Ok payload of this item is used but the Err payload is never read and the item is not forwarded whole: a failed input looks like end-of-input / success'
                elif errd:
                    reach = propagate(rec, errd)
                    sunk = 0 in reach
                    if not sunk:
                        for b in rec['bb']:
                            t = b['t']
                            if b.get('cu') or t[0] != 'call' or t[6]:
                                continue
                            nm = (t[1].get('res') or t[1].get('def') or '') if isinstance(t[1], dict) else ''
                            if nm.endswith(('::drop', 'Debug>::fmt', 'Display>::fmt')) or 'core::fmt' in nm or nm.startswith('log::'):
                                continue
                            if any(a[0] in ('c', 'm') and a[1][0] in reach for a in t[2]):
                                sunk = True
                                break
                        # stored into a field / through a reference
                        for b in rec['bb']:
                            for st in b['s']:
                                if st[0] == '=' and st[1][1] and st[2][0] in ('use', 'agg') and any(l in reach for l in __import__('taint').rv_locals(st[2])):
                                    sunk = True
                    if not sunk and whole_value_forwarded(rec, dl):
                        sunk = True
                    if not sunk:
                        problem = 'the Err payload is read but reaches neither the return value, a channel/collection, nor another function: the error is dropped'
            if problem is None and 'matched' in fs and not t_expanded(rec, bi):
                r = err_arm_paths(facts, rec, name.rsplit('::', 1)[-1], line)
                if r is None:
                    ctx.skip(rule, inst, 'path-sensitive Err-arm check exceeded its budget; flow-insensitive result stands')
                elif r[1] > 0:
                    problem = 'on %d of %d explored paths where this item is Err, neither the item nor its error reaches the return value, a channel/collection or another function: the failure is turned into something else (e.g. end of stream)' % (r[1], r[0])
            lossy = [x for x in fs if x == 'dropped' or x.startswith('swallow') or x == 'panic']
            if problem is None and lossy and not ('matched' in fs or 'propagated' in fs):
                problem = 'the item/result is consumed only by %s' % sorted(lossy)
            if problem:
                acc = [r for (fsuf, csuf), r in ACCEPTED.items() if d.endswith(fsuf) and name.endswith(csuf)]
                if acc:
                    ctx.ok(rule, inst, sample={'site': inst, 'accepted_because': acc[0]})
                else:
                    bad += 1
                    ctx.fail(rule, inst, ctx.loc(rec, line), problem, key=key)
            else:
                ctx.ok(rule, inst, sample={'site': inst, 'item_type': ty[:90], 'fate': sorted(fs)} if n % 25 == 1 else None)
    return bad, n


def error_locals_not_dropped(ctx, f, scope, rule='error-local-not-dropped', accepted=None):
    """Path rule: a user-named local whose type is a Result (or Poll/Option of one) over an engine error type, and whose value may be
    an Err on some path (unknown or Err at that point), must not reach the end of its scope un-moved on that path — it has to be
    returned, `?`-ed, matched or handed to a sink.  A stored error that one path returns and another path silently drops (e.g. an
    error kept in a local across a loop and forgotten when the function answers Pending) turns a failed input into a normal end."""
    import resultflow as rf
    from traces import run_traces, Undecidable, show, strip, A, T
    import C53
    accepted = accepted or {}
    n = 0
    for d, i, e in f.all_fn_entries():
        s_ = d[1:] if d.startswith('<') else d
        if not s_.startswith(scope) or '::test' in d or '::tests::' in d:
            continue
        rec = f.fn(d, i)
        if 'bb' not in rec:
            continue
        cand = [k for k, (t, nm) in enumerate(rec['locals']) if nm and k > rec['argc'] and rf.is_result_of_err(t)]
        if not cand:
            continue
        # only locals that are assigned more than once or captured mutably by a closure can differ between paths; a single-assignment
        # local that is dropped unused is already a compiler warning (unused_must_use / unused variable)
        multi = []
        for k in cand:
            asg = sum(1 for b in rec['bb'] for st in b['s'] if st[0] == '=' and st[1][0] == k and not st[1][1] and not b.get('cu'))
            asg += sum(1 for b in rec['bb'] if b['t'][0] == 'call' and not b.get('cu') and b['t'][3][0] == k and not b['t'][3][1])
            capt = any(st[0] == '=' and st[2][0] == 'ref' and len(st[2]) > 2 and st[2][2] and st[2][1][0] == k for b in rec['bb'] for st in b['s'])
            if asg > 1 or capt:
                multi.append(k)
        if not multi:
            continue
        n += 1
        ctx.analysed_fns.add(d)

        def keep(ev):
            return ev[0] in ('drop', 'loopcut', 'let')
        try:
            outs = run_traces(f, rec, C53.fn_args(rec), inline_depth=0, loop_visits=2, time_budget=2, budget=400000, try_tags=True, keep=keep, kill_dead=False)
        except Undecidable as ex:
            ctx.skip(rule, d, 'not enumerable: %s' % str(ex)[:60])
            continue
        bad = set()
        for o in outs:
            rs = show(o.ret)
            if 'Err(' in rs or rs.startswith('Err'):
                continue          # some error surfaces on this path; a second pending error being dropped with it is not a swallowed failure
            if not isinstance(strip(o.ret), (A, T)) or '?call:' in rs:
                continue          # the answer is (or contains) the result of a helper: whether it carries the error is not visible here
            evs = list(o.events)
            for k, ev in enumerate(evs):
                if ev[0] == 'drop' and len(ev) > 4 and ev[4] and ev[3] in multi:
                    nm = rec['locals'][ev[3]][1]
                    if any(x[0] == 'let' and x[1] == nm for x in evs[k + 1:]):
                        continue  # the old value is dropped by a re-assignment (another error takes its place), not at the end of its scope
                    bad.add((nm, ev[2]))
        inst = d
        if bad and d in accepted:
            ctx.ok(rule, inst, 'accepted: ' + accepted[d], nontrivial=False)
        elif bad:
            nm, line = sorted(bad)[0]
            ctx.fail(rule, inst, ctx.loc(rec, line), 'the local `%s` can hold an error (its value is not known to be Ok) and reaches the end of its scope on a path that neither '
                     'returns nor inspects it: the error is silently dropped on that path' % nm, key='%s|%s|%s' % (rule, d, nm))
        else:
            ctx.ok(rule, inst, sample={'fn': d, 'locals': [rec['locals'][k][1] for k in multi]} if n <= 5 else None)
    return n


import fanout


def run(ctx):
    f = ctx.facts
    bad, n = item_sites(ctx, f, SCOPE)
    ctx.floor('error-payload-reaches-sink', 'stream-item / task-result call sites', n, 250)
    ne = error_locals_not_dropped(ctx, f, tuple(x + '::' for x in SCOPE) + ('datafusion_functions_aggregate::', 'datafusion_functions_aggregate_common::'))
    ctx.counts['functions with a re-assigned / captured engine-Result local'] = ne
    # error fan-out: a loop sending the final message / the error to each output channel must reach every channel
    fanout.check(ctx, 'fan-out-complete', lambda c: (c[1:] if c.startswith('<') else c).startswith(SCOPE),
                 must_cover=['datafusion_physical_plan::repartition::RepartitionExec::wait_for_task'], floor=1)
    import common
    st = ctx.st
    probe = common.Ctx(ctx.pid, ctx.tier, st, st, {})
    probe.known = []
    b, m = item_sites(probe, st, ('dfscan_selftest',), rule='st')
    ctx.selftest('payload rule reports `while let Some(Ok(v)) = it.poll_next()` and accepts the `?` version', b == 1 and m >= 2)
