"""C02 — results independent of configuration: the join-side swap algebra that
`JoinSelection` (a pure statistics/configuration effect) relies on.

Decides: (a) JoinType::swap / JoinSide::negate are involutions and swap agrees
with the reference join model; supports_swap(jt) => the model has a swap
partner; (b) every `swap_inputs` sibling passes swap(jt), exchanged children,
exchanged `on` pairs, JoinFilter::swap, swap_join_projection and re-orders the
output exactly for the types whose model output has columns of both sides.
(c) [single routing seed] is decided under C10 and not repeated here.
"""
from jt import *

TECHNIQUE = 'finite-domain constant propagation over MIR (A1) + reference join model; sibling agreement of swap_inputs'
EXPLANATION = ('Static decision of the join-swap algebra: exhaustive tables of JoinType::swap, JoinSide::negate, '
               'supports_swap extracted from MIR and compared with a brute-force relational model; symbolic '
               'path exploration of every swap_inputs implementation per join type (children exchanged, on-pairs '
               'exchanged, filter swapped, projection remapped, output reorder iff both sides are in the output). '
               'The skip-partial-aggregation switch (a pure threshold effect) must not change which rows an aggregate sees: at every engine call site of GroupsAccumulator::update_batch / convert_to_state the FILTER mask is forwarded, never the constant None. Decides these structural clauses only, not result equality across configurations.')
ASSUMPTIONS = ['rustc mir_built is a faithful lowering of the source',
               'the reference model (oracles/joins.py: NULL-aware equi-join over relations of <=2 rows) is the SQL semantics of the ten join types',
               'callee names used as events: reorder_output_after_swap, swap_join_projection, JoinFilter::swap keep their meaning']

SWAP = 'datafusion_common::join_type::JoinType::swap'
NEGATE = 'datafusion_common::join_type::JoinSide::negate'
SUPPORTS = 'datafusion_common::join_type::JoinType::supports_swap'
REORDER = 'datafusion_physical_plan::joins::utils::reorder_output_after_swap'
SWAPPROJ = 'datafusion_physical_plan::joins::utils::swap_join_projection'
FSWAP = 'datafusion_physical_plan::joins::join_filter::JoinFilter::swap'

SIBLINGS = [
    'datafusion_physical_plan::joins::hash_join::exec::HashJoinExec',
    'datafusion_physical_plan::joins::nested_loop_join::NestedLoopJoinExec',
    'datafusion_physical_plan::joins::sort_merge_join::exec::SortMergeJoinExec',
    'datafusion_physical_plan::joins::cross_join::CrossJoinExec',
    'datafusion_physical_plan::joins::piecewise_merge_join::exec::PiecewiseMergeJoinExec',
]


def involution(ctx, rule, name, tab, where):
    bad = [k for k, v in tab.items() if tab.get(v.name) is None or tab[v.name].name != k]
    if bad:
        ctx.fail(rule, name, where, 'not an involution at %s: %s' % (bad, {k: tab[k].name for k in bad}),
                 key='%s|%s' % (rule, name))
        return False
    ctx.ok(rule, name, sample={'rule': rule, 'fn': name, 'table': {k: v.name for k, v in tab.items()}})
    return True


def field_index(adt, name):
    for i, f in enumerate(adt['variants'][0]['fields']):
        if f[0] == name:
            return i
    return None


def flat_tags(v, out):
    v0 = strip(v)
    if isinstance(v0, U):
        if v0.tag:
            out.append(v0.tag)
    elif isinstance(v0, T):
        for x in v0.items:
            flat_tags(x, out)
    elif isinstance(v0, A):
        for _, x in v0.fields:
            flat_tags(x, out)
    return out


def model_schema(ex, args):
    v = strip(args[0])
    if isinstance(v, U) and v.tag:
        return sym(v.tag + '.schema()')
    return None


def model_into_vec(ex, args):
    def find(v):
        v = strip(v)
        if isinstance(v, T):
            return v
        if isinstance(v, U):
            for _, c in v.ch:
                r = find(c)
                if r is not None:
                    return r
        return None
    return find(args[0])


MODELS = {
    'datafusion_physical_plan::execution_plan::ExecutionPlan::schema': model_schema,
    'alloc::boxed::box_assume_init_into_vec_unsafe': model_into_vec,
}


def analyse_swap_inputs(ctx, facts, adt_path, fnpath, swap_oracle, rule='swap_inputs'):
    """returns number of violations found (used for the selftest as well)"""
    nviol = 0
    short = adt_path.rsplit('::', 1)[1]
    rec = facts.fn(fnpath)
    adt = facts.adts.get(adt_path)
    if rec is None or adt is None:
        ctx.lost(rule, fnpath)
        return 1
    ctx.analysed_fns.add(fnpath)
    fi_jt = field_index(adt, 'join_type')
    fi_proj = field_index(adt, 'projection')
    fi_on = field_index(adt, 'on')
    fi_filter = field_index(adt, 'filter')
    jts = facts.variant_names(JT) if fi_jt is not None else [None]
    no_inline = ('datafusion_physical_plan::joins::utils::', FSWAP)
    diverges_all = True
    for jt in jts:
        ch = []
        if jt is not None:
            ch.append((('f', fi_jt), mk_variant(facts, JT, jt)))
        if fi_proj is not None:
            ch.append((('f', fi_proj), A('core::option::Option', 0, 'None', ())))
        selfv = R(U(tuple(sorted(ch, key=lambda kv: repr(kv[0]))), 'self'))
        extra = [TOP] * (rec['argc'] - 1)
        ex = Explorer(facts, inline_depth=2, no_inline=no_inline, models=MODELS,
                      watch=('datafusion_physical_plan::joins::',), budget=400000)
        # only small getters / the table functions are inlined; constructors are events
        ex.inline_only = ('datafusion_common::join_type::', adt_path + '::left', adt_path + '::right', adt_path + '::on',
                          adt_path + '::filter', adt_path + '::join_type')
        try:
            outs = ex.run(rec, [selfv] + extra)
        except Undecidable as e:
            ctx.undecided(rule, '%s[%s]' % (short, jt), str(e))
            nviol += 1
            continue
        okouts = [o for o in outs if not (isinstance(strip(o.ret), A) and strip(o.ret).name == 'Err')]
        if not okouts:
            continue
        diverges_all = False
        inst = '%s[%s]' % (short, jt or '-')
        where = ctx.loc(rec)
        problems = []
        for o in okouts:
            calls = set(e[1] for e in o.events if e[0] == 'call')
            fnargs = set(e[1] for e in o.events if e[0] == 'fnarg')
            cargs = [(e[1], e[2]) for e in o.events if e[0] == 'callargs']
            # 1. swapped join type reaches a constructor
            if jt is not None:
                want = swap_oracle[jt]
                seen = set()
                for name, args in cargs:
                    if name in (REORDER, SWAPPROJ) or name.startswith(adt_path + '::join_type'):
                        continue
                    for a in args:
                        sa = strip(a)
                        if isinstance(sa, A) and sa.adt == JT:
                            seen.add(sa.name)
                if want not in seen or (seen - {want}):
                    problems.append('join type passed to the new join is %s, model requires swap(%s)=%s' % (
                        sorted(seen) or 'not a constant', jt, want))
            # 2. children exchanged
            got = False
            for name, args in cargs:
                tags = flat_tags(T(tuple(args)), [])
                tl = [t for t in tags if t in ('self.left', 'self.right')]
                if 'self.left' in tl and 'self.right' in tl and name != REORDER:
                    got = True
                    if tl.index('self.right') > tl.index('self.left'):
                        problems.append('children not exchanged in call to %s: %s' % (name, tl))
            if not got:
                problems.append('no constructor call receives both self.left and self.right')
            # 4. filter swapped
            if fi_filter is not None and FSWAP not in calls and FSWAP not in fnargs:
                problems.append('JoinFilter::swap is not applied to the filter')
            # 5. projection remapped
            if fi_proj is not None and SWAPPROJ not in calls:
                problems.append('swap_join_projection is not applied to the embedded projection')
            # 6. reorder iff both sides are in the output (projection = None here)
            two_sided = all(M.sides_in_output(jt)) if jt is not None else True
            if two_sided and REORDER not in calls:
                problems.append('output has columns of both sides but reorder_output_after_swap is not reached')
            if not two_sided and REORDER in calls:
                problems.append('one-sided output is re-ordered after swap')
            if REORDER in calls:
                for name, args in cargs:
                    if name == REORDER:
                        tags = flat_tags(T(tuple(args)), [])
                        tl = [t for t in tags if t.endswith('.schema()')]
                        if tl[:2] != ['self.left.schema()', 'self.right.schema()']:
                            problems.append('reorder_output_after_swap receives schemas %s' % tl)
        if problems:
            nviol += 1
            ctx.fail(rule, inst, where, '; '.join(sorted(set(problems))), key='%s|%s' % (rule, inst))
        else:
            ctx.ok(rule, inst, sample={'rule': rule, 'operator': short, 'join_type': jt,
                                       'paths_ok': len(okouts), 'paths_err': len(outs) - len(okouts)})
    # 3. on-pairs exchanged: every closure of swap_inputs taking a pair must return it exchanged
    if fi_on is not None and not diverges_all:
        found = 0
        for d, ents in facts.fn_index.items():
            if d.startswith(fnpath + '::{closure'):
                crec = facts.fn(d)
                if crec['argc'] != 2:
                    continue
                ex = Explorer(facts, inline_depth=1)
                outs = ex.run(crec, [TOP, R(T((sym('p.0'), sym('p.1'))))])
                rets = set(show(o.ret) for o in outs)
                if any('p.' in r for r in rets):
                    found += 1
                    if rets != {'(?p.1,?p.0)'}:
                        nviol += 1
                        ctx.fail(rule, short + '[on-pairs]', ctx.loc(crec), 'on-pair closure returns %s, expected (r,l)' % sorted(rets),
                                 key='%s|%s[on-pairs]' % (rule, short))
                    else:
                        ctx.ok(rule, short + '[on-pairs]', sample={'closure': d, 'returns': sorted(rets)})
        if found == 0:
            nviol += 1
            ctx.fail(rule, short + '[on-pairs]', ctx.loc(rec), 'operator has an `on` field but swap_inputs has no pair-exchanging closure',
                     key='%s|%s[on-pairs]|missing' % (rule, short))
    if diverges_all:
        ctx.skip(rule, short, 'swap_inputs never returns Ok (unimplemented/todo!)')
        return nviol, False
    return nviol, True


def run(ctx):
    f = ctx.facts
    # ---- (a) algebra
    tab = jt_table(ctx, 'swap-involution', SWAP, True)
    sw = oracle('derive_swap')
    swap_oracle = {}
    if tab:
        involution(ctx, 'swap-involution', 'JoinType::swap', tab, ctx.loc(f.fn(SWAP)))
        for jt, v in tab.items():
            cands = sw[jt]
            if v.name in cands:
                ctx.ok('swap-model', 'JoinType::swap(%s)' % jt, sample={'jt': jt, 'code': v.name, 'model': cands})
            else:
                ctx.fail('swap-model', 'JoinType::swap(%s)' % jt, ctx.loc(f.fn(SWAP)),
                         'swap(%s)=%s but in the reference model join(L,R,%s) == join(R,L,x) only for x in %s' % (jt, v.name, jt, cands),
                         key='swap-model|%s' % jt)
    swap_oracle = {jt: c[0] for jt, c in sw.items() if c}
    rec = ctx.fn(NEGATE, 'negate-involution')
    if rec:
        t = table(f, NEGATE, [enum_domain(f, JS, True)])
        nt = {show(k[0]): single(v) for k, v in t.items()}
        if any(v is None for v in nt.values()):
            ctx.undecided('negate-involution', NEGATE, 'not a finite table')
        else:
            involution(ctx, 'negate-involution', 'JoinSide::negate', nt, ctx.loc(rec))
            # Left<->Right must be exchanged (None is a fixpoint)
            if nt['Left'].name != 'Right' or nt['Right'].name != 'Left':
                ctx.fail('negate-involution', 'JoinSide::negate[L<->R]', ctx.loc(rec), 'negate does not exchange Left and Right',
                         key='negate-involution|exchange')
    st = jt_table(ctx, 'supports-swap', SUPPORTS, True)
    if st:
        for jt, v in st.items():
            if b(v) and not sw[jt]:
                ctx.fail('supports-swap', jt, ctx.loc(f.fn(SUPPORTS)), 'supports_swap(%s) but the model has no swap partner' % jt,
                         key='supports-swap|' + jt)
            else:
                ctx.ok('supports-swap', jt)
    # ---- (b) siblings
    impls = 0
    have = 0
    for adt in SIBLINGS:
        fnp = adt + '::swap_inputs'
        if f.fn(fnp) is None:
            ctx.lost('swap_inputs', fnp)
            continue
        have += 1
        nv, implemented = analyse_swap_inputs(ctx, f, adt, fnp, swap_oracle)
        impls += int(implemented)
    # new siblings: any other `swap_inputs` in physical-plan joins is analysed the same way
    for d in list(f.fn_index):
        if d.endswith('::swap_inputs') and d.startswith('datafusion_physical_plan::') and d.rsplit('::', 1)[0] not in SIBLINGS:
            adt = d.rsplit('::', 1)[0]
            if adt in f.adts:
                have += 1
                nv, implemented = analyse_swap_inputs(ctx, f, adt, d, swap_oracle)
                impls += int(implemented)
    ctx.floor('swap_inputs', 'swap_inputs implementations analysed', impls, 4)
    # ---- (d) a strategy switch that depends on thresholds must not change which rows an aggregate sees: the FILTER reaches the accumulator
    import C06
    nf = C06.filter_reaches_accumulator(ctx, f, 'datafusion_expr_common::groups_accumulator::GroupsAccumulator::',
                                        lambda c: (c[1:] if c.startswith('<') else c).startswith('datafusion_physical_plan'))
    ctx.floor('filter-reaches-accumulator', 'engine call sites of GroupsAccumulator::update_batch / convert_to_state', nf, 5)
    # ---- selftests (seeded positives in /verif/selftest)
    stf = ctx.st
    t = table(stf, 'dfscan_selftest::tables::Jt::bad_swap', [enum_domain(stf, 'dfscan_selftest::tables::Jt', True)])
    nt = {show(k[0]): single(v) for k, v in t.items()}
    bad = [k for k, v in nt.items() if nt[v.name].name != k]
    ctx.selftest('involution detects bad_swap', bool(bad))
