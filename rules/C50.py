"""C50 — queries accepted over unbounded inputs keep producing results."""
import pending
from jt import *

TECHNIQUE = 'finite-domain constant propagation over MIR (A1); guard dominance on the sanity check; declared-vs-actual emission cross-table'
EXPLANATION = ('(a) SanityCheckPlan::check_finiteness_requirements: with boundedness / pipeline behaviour as the finite '
               'domain, every path that sees (unbounded AND Final emission) or requires_infinite_memory reaches the error '
               'return. (b) Declared emission vs. actual emission, per join operator that derives its EmissionType from the '
               'join type (HashJoinExec, NestedLoopJoinExec): a type declared Incremental (with a bounded build side and an '
               'incremental probe side) must not be a type whose rows the operator emits only in its final phase '
               '(need_produce_result_in_final) — otherwise a plan over an unbounded probe side is accepted and never '
               'delivers rows that a finite prefix determines. (c) Pending needs a wake source: in every poll body of the engine crates that '
               'constructs Poll::Pending (72 today: streams, futures, their helpers), on every path the construction is preceded by an inner '
               'poll observed Pending (delegation, incl. results inspected with is_pending/is_ready), a hand-out or wake of the task waker, or '
               'a coop budget call; three bodies whose Pending rests on a data-dependent loop-remainder / generator protocol are frozen with '
               'the reason read in the source (rules/pending.py). A stream that answers Pending out of thin air parks its query forever. '
               'Liveness of streams at run time beyond this is not decided.')
# path rules cut loops after a bounded number of iterations: complete over rule instances, not over all unrollings
EXHAUSTIVE = False
ASSUMPTIONS = ['need_produce_result_in_final(jt) is the operators\' actual final-phase emission table (its own soundness is C05)']

P = 'datafusion_physical_plan::joins::'
SANITY = 'datafusion_physical_optimizer::sanity_checker::check_finiteness_requirements'
ET = 'datafusion_physical_plan::execution_plan::EmissionType'
BD = 'datafusion_physical_plan::execution_plan::Boundedness'


def emission_table(ctx, facts, fnpath, jt_adt=JT):
    rec = facts.fn(fnpath)
    if rec is None:
        ctx.lost('declared-emission', fnpath)
        return None
    ctx.analysed_fns.add(fnpath)
    ji = [i for i, (t, n) in enumerate(rec['locals']) if n == 'join_type' and 0 < i <= rec['argc']]
    if not ji:
        ctx.lost('declared-emission', fnpath + '#join_type')
        return None
    tab = {}
    for jtv in enum_domain(facts, jt_adt):
        args = [TOP] * rec['argc']
        args[ji[0] - 1] = jtv
        ex = Explorer(facts, inline_depth=0, observe=('emission_type',), budget=2000000)
        outs = ex.run(rec, args)
        vals = set()
        for o in outs:
            v = strip(dict(o.obs).get('emission_type', TOP))
            if isinstance(v, A):
                vals.add(v.name)
        vals.discard('Final')   # the unbounded-build-side branch
        if len(vals) != 1:
            ctx.undecided('declared-emission', '%s(%s)' % (fnpath, jtv.name), 'emission type by join type is not a constant: %s' % sorted(vals))
            return None
        tab[jtv.name] = vals.pop()
    return tab


def check_declared(ctx, rule, opname, em, final, where):
    bad = 0
    for jt, e in em.items():
        inst = '%s[%s]' % (opname, jt)
        if e == 'Incremental' and final[jt]:
            bad += 1
            ctx.fail(rule, inst, where, 'declares EmissionType::Incremental for %s, but %s rows are emitted only in the final phase '
                     '(need_produce_result_in_final): with an unbounded probe side the plan is accepted and these rows are never delivered' % (jt, jt),
                     key='%s|%s' % (rule, inst))
        else:
            ctx.ok(rule, inst, nontrivial=final[jt] or e == 'Incremental', sample={'op': opname, 'jt': jt, 'declared': e, 'final_phase_only': final[jt]})
    return bad


def run(ctx):
    f = ctx.facts
    # (a) sanity check
    rec = ctx.fn(SANITY, 'sanity-finiteness')
    if rec:
        bd = f.adts.get(BD)
        et = f.adts.get(ET)
        if not bd or not et:
            ctx.lost('sanity-finiteness', BD)
        else:
            vb = {v['name']: i for i, v in enumerate(bd['variants'])}
            B = 'datafusion_physical_plan::execution_plan::ExecutionPlan::boundedness'
            PB = 'datafusion_physical_plan::execution_plan::ExecutionPlan::pipeline_behavior'
            DC = 'datafusion_physical_plan::execution_plan::<impl dyn datafusion_physical_plan::execution_plan::ExecutionPlan>::downcast_ref'
            cases = []
            for bname in ('Bounded', 'Unbounded'):
                for rim in ((None,) if bname == 'Bounded' else (0, 1)):
                    for ename in [v['name'] for v in et['variants']]:
                        cases.append((bname, rim, ename))
            for bname, rim, ename in cases:
                bval = A(BD, vb[bname], bname, ((0, I(rim)),) if rim is not None else ())
                eval_ = mk_variant(f, ET, ename)
                def hook(ex, name, deff, args, bv=bval, ev=eval_):
                    if deff.endswith('ExecutionPlanProperties::boundedness') or deff.endswith('ExecutionPlan::boundedness'):
                        return bv
                    if deff.endswith('ExecutionPlanProperties::pipeline_behavior') or deff.endswith('ExecutionPlan::pipeline_behavior'):
                        return ev
                    if deff.endswith('::downcast_ref'):
                        return A('core::option::Option', 0, 'None', ())
                    return None
                ex = Explorer(f, inline_depth=2, model_hook=hook,
                              inline_only=('datafusion_physical_plan::execution_plan::Boundedness',))
                outs = ex.run(rec, [TOP, TOP])
                rets = set(strip(o.ret).name if isinstance(strip(o.ret), A) else '?' for o in outs)
                must_reject = (bname == 'Unbounded' and (rim == 1 or ename == 'Final'))
                inst = 'check_finiteness(%s%s,%s)' % (bname, '' if rim is None else '{requires_infinite_memory:%d}' % rim, ename)
                if must_reject and rets != {'Err'}:
                    ctx.fail('sanity-finiteness', inst, ctx.loc(rec), 'an unbounded pipeline-breaking operator is accepted (returns %s)' % sorted(rets),
                             key='sanity-finiteness|' + inst)
                elif '?' in rets:
                    ctx.undecided('sanity-finiteness', inst, 'return value not constant: %s' % sorted(rets))
                else:
                    ctx.ok('sanity-finiteness', inst, nontrivial=must_reject, sample={'boundedness': bname, 'requires_infinite_memory': rim, 'emission': ename, 'returns': sorted(rets)})
    # (b) declared vs actual emission
    final = jt_table(ctx, 'declared-emission', P + 'utils::need_produce_result_in_final', False)
    n = 0
    if final:
        fin = {k: b(v) for k, v in final.items()}
        for opname, fnp in (('HashJoinExec', P + 'hash_join::exec::HashJoinExec::compute_properties'),
                            ('NestedLoopJoinExec', P + 'nested_loop_join::NestedLoopJoinExec::compute_properties')):
            em = emission_table(ctx, f, fnp)
            if em:
                n += 1
                check_declared(ctx, 'declared-emission', opname, em, fin, ctx.loc(f.fn(fnp)))
    ctx.floor('declared-emission', 'join operators deriving EmissionType from the join type', n, 2)
    # (c) a stream may answer Pending only if something will wake it again (whole engine: every poll body that constructs Poll::Pending)
    scope = lambda c: (c[1:] if c.startswith('<') else c).startswith(('datafusion_physical_plan', 'datafusion_datasource', 'datafusion_execution',
                                                                     'datafusion_common_runtime', 'datafusion::')) and '::test::' not in c
    pending.sweep(ctx, 'pending-needs-wake-source', scope, floor=65)
    # selftest
    import common
    st = ctx.st
    probe = common.Ctx(ctx.pid, ctx.tier, st, st, {})
    probe.known = []
    bad = check_declared(probe, 'st', 'Seeded', {'LeftAnti': 'Incremental', 'Inner': 'Incremental'}, {'LeftAnti': True, 'Inner': False}, 'selftest')
    ctx.selftest('declared-vs-actual rule flags Incremental + final-phase-only', bad == 1)
    pending.sweep(probe, 'st-pending', lambda c: 'dfscan_selftest::pendings' in c, accepted={})
    keys = [v['key'] for v in probe.viol if v['key'].startswith('st-pending|')]
    ctx.selftest('pending rule reports Pending out of thin air (bad_thin_air, F::poll) and accepts delegation / waker registration',
                 any('bad_thin_air' in k for k in keys) and any('pendings::F as' in k for k in keys) and not any('good_' in k for k in keys))
