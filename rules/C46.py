"""C46 — benchmark placeholders: explicit values take precedence over environment values over defaults (the one structural clause)."""
import re
from traces import *

TECHNIQUE = ('static analysis: ordered-trace path exploration over MIR (A2) of the placeholder lookup chain: order and conditions under which the explicit map, '
             'the environment callback and the default capture group are consulted and returned')
EXPLANATION = ('Instances are found by resolved callees in the benchmarks crate: a *lookup* function is one that calls HashMap::get on a '
               '&HashMap<String, String> parameter and invokes an Fn parameter (the environment callback); a *consumer* is a function or closure that '
               'calls a lookup function and regex Captures::get (the `:-default` capture group). Rules over every path: (1) explicit-before-env: the '
               'environment is consulted only after the explicit map answered None, and when the map answers Some that value is returned without '
               'consulting the environment; (2) default-last: a default-derived value is returned only on paths where the lookup answered None, a '
               'lookup hit is never replaced by the default, and in an Option combinator (or / or_else / unwrap_or ...) that joins both, the lookup '
               'is the receiver and the default the fallback. The other half of C46 (validation of persisted results: CSV text round trip and cell '
               'comparison) is value-level and not decided.')
EXHAUSTIVE = True
ASSUMPTIONS = ['std Option::or / or_else / unwrap_or* prefer the receiver']

SCOPE = ('datafusion_benchmarks',)
COMB = ('or', 'or_else', 'unwrap_or', 'unwrap_or_else', 'map_or', 'map_or_else', 'xor')


def deep_tags(v, out=None):
    out = set() if out is None else out
    v0 = strip(v)
    if isinstance(v0, U):
        if v0.tag:
            out.add(v0.tag)
        for _, c in v0.ch:
            deep_tags(c, out)
    elif isinstance(v0, T):
        for x in v0.items:
            deep_tags(x, out)
    elif isinstance(v0, A):
        for _, x in v0.fields:
            deep_tags(x, out)
    elif isinstance(v0, (R, MR)):
        deep_tags(v0.v, out)
    return out


def is_map_get(name):
    return name.startswith('std::collections::hash::map::HashMap') and name.endswith('::get')


def is_fn_call(name):
    return name in ('core::ops::function::Fn::call', 'core::ops::function::FnMut::call_mut', 'core::ops::function::FnOnce::call_once')


def discover(facts, scope, default_pred):
    lookups, consumers = [], []
    for d, i, e in facts.all_fn_entries():
        if e[7] not in scope or '::tests::' in d or not e[8]:
            continue
        cs = facts.callees.get(d, ())
        if any(is_map_get(c) for c in cs) and any(is_fn_call(c) for c in cs) and any('HashMap<alloc::string::String, alloc::string::String>' in t for t in e[8][1:]):
            lookups.append(d)
    for d, i, e in facts.all_fn_entries():
        if e[7] not in scope or '::tests::' in d:
            continue
        cs = facts.callees.get(d, ())
        if any(c in lookups for c in cs) and any(default_pred(c) for c in cs):
            consumers.append(d)
    return sorted(set(lookups)), sorted(set(consumers))


def args_for(rec):
    if rec['k'] == 'closure':
        return [R(sym('env'))] + [R(sym('a%d' % i)) for i in range(1, rec['argc'])]
    return [R(sym(rec['locals'][i + 1][1] or 'a%d' % i)) if rec['locals'][i + 1][0].startswith('&') else sym(rec['locals'][i + 1][1] or 'a%d' % i) for i in range(rec['argc'])]


def check(ctx, facts, scope=SCOPE, default_pred=None, r1='explicit-before-env', r2='default-last'):
    default_pred = default_pred or (lambda c: c.startswith('regex::') and 'Captures' in c and c.endswith('::get'))
    lookups, consumers = discover(facts, scope, default_pred)
    bad = 0
    for d in lookups:
        rec = facts.fn(d)
        outs = run_traces(facts, rec, args_for(rec), inline_depth=0, time_budget=20, try_tags=True)
        ctx.analysed_fns.add(d)
        problems = set()
        for o in outs:
            site = None
            none_seen = some_seen = False
            env_called = False
            for e in o.events:
                if e[0] == 'callargs' and is_map_get(e[1]):
                    site = 'call:get@%s' % e[3]
                elif e[0] == 'variant' and site and norm_tag(e[1]) == site:
                    none_seen |= e[3] == 'None'
                    some_seen |= e[3] == 'Some'
                elif e[0] == 'callparam' or (e[0] == 'callargs' and is_fn_call(e[1])):
                    env_called = True
                    if not none_seen:
                        problems.add('the environment is consulted before the explicit map has answered None')
            if some_seen:
                if env_called:
                    problems.add('the environment is consulted although the explicit map has a value')
                ts = tag_of(read_proj(strip(o.ret), [('f', 0)])) if isinstance(strip(o.ret), A) else tag_of(o.ret)
                if not (ts and site and site in ts):
                    problems.add('the explicit map has a value but something else is returned')
        if problems:
            bad += 1
            ctx.fail(r1, d, ctx.loc(rec), '; '.join(sorted(problems)), key='%s|%s' % (r1, d))
        else:
            ctx.ok(r1, d, sample={'lookup': d, 'paths': len(outs)})
    for d in consumers:
        rec = facts.fn(d)
        outs = run_traces(facts, rec, args_for(rec), inline_depth=0, time_budget=20, try_tags=True)
        ctx.analysed_fns.add(d)
        problems = set()
        for o in outs:
            lsites, dsites = set(), set()
            lnone = lsome = False
            joined_ok = False
            for e in o.events:
                if e[0] == 'callargs':
                    if e[1] in lookups:
                        lsites.add('call:%s@%s' % (e[1].rsplit('::', 1)[-1], e[3]))
                    elif default_pred(e[1]):
                        dsites.add('call:%s@%s' % (e[1].rsplit('::', 1)[-1], e[3]))
                    elif e[1].startswith('core::option::Option') and e[1].rsplit('::', 1)[-1] in COMB and len(e[2]) > 1:
                        t0 = ' '.join(sorted(deep_tags(e[2][0])))
                        rest = ' '.join(' '.join(sorted(deep_tags(a))) for a in e[2][1:])
                        l0, d0 = any(s in t0 for s in lsites), any(s in t0 for s in dsites)
                        l1, d1 = any(s in rest for s in lsites), any(s in rest for s in dsites)
                        if l0 and d1 and not d0:
                            joined_ok = True        # lookup.or(default): std prefers the receiver, the default is only the fallback
                        if d0 and l1:
                            problems.add('Option::%s joins the default and the looked-up value with the default as the preferred receiver' % e[1].rsplit('::', 1)[-1])
                elif e[0] == 'variant' and norm_tag(e[1]) in lsites:
                    lnone |= e[3] == 'None'
                    lsome |= e[3] == 'Some'
            r = strip(o.ret)
            pay = read_proj(r, [('f', 0)]) if isinstance(r, A) and r.name in ('Ok', 'Some') else r
            tp = tag_of(pay) or ''
            from_default = any(s in tp for s in dsites) and not any(s in tp for s in lsites)
            if from_default and lsites and not lnone and not joined_ok:
                problems.add('a default-derived value is returned on a path where the lookup has not answered None')
            if lsome and from_default:
                problems.add('the lookup found a value but the default is returned')
        if problems:
            bad += 1
            ctx.fail(r2, d, ctx.loc(rec), '; '.join(sorted(problems)), key='%s|%s' % (r2, d))
        else:
            ctx.ok(r2, d, sample={'consumer': d, 'paths': len(outs)})
    return bad, len(lookups), len(consumers)


def run(ctx):
    f = ctx.facts
    bad, nl, nc = check(ctx, f)
    ctx.floor('explicit-before-env', 'lookup functions (explicit map + environment callback)', nl, 1)
    ctx.floor('default-last', 'consumers joining the lookup with the default capture group', nc, 2)
    import common
    st = ctx.st
    probe = common.Ctx(ctx.pid, ctx.tier, st, st, {})
    probe.known = []
    check(probe, st, scope=('dfscan_selftest',), default_pred=lambda c: c.endswith('repl::Caps::get'), r1='st1', r2='st2')
    keys = sorted(v['key'] for v in probe.viol)
    ctx.selftest('precedence rules report a lookup that asks the environment first and a consumer whose default wins over the lookup; silent on the correct pair',
                 keys == ['st1|dfscan_selftest::repl::lookup_env_first', 'st2|dfscan_selftest::repl::resolve_default_first'])
