"""C21 — disk usage accounting stays exact: the disk-usage protocol in disk_manager.rs."""
from traces import *
from collections import Counter
import re

TECHNIQUE = 'static analysis: exhaustive path enumeration over MIR with symbolic place tags (A2 pairing/ordering rules over event traces); who-may-write census'
EXPLANATION = ('Every path through FileSpillWriter::write, Drop for RefCountedTempFile and DiskManager::create_tmp_file is '
               'enumerated from MIR with symbolic origins for places (self.disk_manager.used_disk_space, ...). Rules: (1) charge '
               'pairing — after used_disk_space.fetch_add(len) every exit either rolls the same amount back (error exits) or '
               'transfers it to the file\'s current_file_disk_usage (the success exit), including the `?`/early-return exits; (2) the '
               'limit lookup and the charge precede write_all; (3) the last-reference drop subtracts exactly the loaded '
               'current_file_disk_usage once and decrements active_files_count once, and the other branch does neither; (4) '
               'who-may-write: read-modify-write operations on used_disk_space / active_files_count / current_file_disk_usage '
               'occur only in the functions of this protocol; (5) active_files_count is incremented only on paths that return the '
               'file handle. The byte-level IPC round trip of spill files is not decided.')
# path rules cut loops after a bounded number of iterations: complete over rule instances, not over all unrollings
EXHAUSTIVE = False
ASSUMPTIONS = ['atomic counters are only reachable through the named fields (no raw-pointer aliasing)',
               'paths are enumerated with loops cut after 2 iterations; the analysed functions are loop-free']

DM = 'datafusion_execution::disk_manager::'
WRITE = '<datafusion_execution::disk_manager::FileSpillWriter as std::io::Write>::write'
DROP = '<datafusion_execution::disk_manager::RefCountedTempFile as core::ops::drop::Drop>::drop'
CREATE = DM + 'DiskManager::create_tmp_file'
USED = 'used_disk_space'
FILEUSE = 'current_file_disk_usage'
ACTIVE = 'active_files_count'


def linear(expr):
    """'len' | 'sub(?len,?written).0' | 'add(a,b).0' -> Counter of atoms with integer coefficients (None if not linear)"""
    e = expr.strip().lstrip('?')
    if e.endswith('.0') and (e.startswith('add(') or e.startswith('sub(')):
        e = e[:-2]
    m = re.match(r'^(add|sub)\((.*)\)$', e)
    if not m:
        return Counter({e: 1}) if e else None
    inner = m.group(2)
    depth, cut = 0, None
    for i, ch in enumerate(inner):
        if ch == '(':
            depth += 1
        elif ch == ')':
            depth -= 1
        elif ch == ',' and depth == 0:
            cut = i
            break
    if cut is None:
        return None
    a, b = linear(inner[:cut]), linear(inner[cut + 1:])
    if a is None or b is None:
        return None
    out = Counter(a)
    for k, v in b.items():
        out[k] += v if m.group(1) == 'add' else -v
    return Counter({k: v for k, v in out.items() if v})


def atom_events(o):
    """ordered (op, field, amount_repr, line) for atomic RMW ops"""
    out = []
    for name, args, line in calls(o, is_atomic):
        op = atomic_op(name)
        tg = tag_of(args[0]) or '?'
        out.append((op, tg.rsplit('.', 1)[-1], show(args[1]) if len(args) > 1 else '', line, tg))
    return out


def check_write(ctx, facts, fnpath, rule='charge-pairing'):
    rec = facts.fn(fnpath)
    if rec is None:
        ctx.lost(rule, fnpath)
        return 1
    ctx.analysed_fns.add(fnpath)
    outs = run_traces(facts, rec, [MR(-1, 0, (), sym('self')), sym('buf')],
                      inline_only=(fnpath.rsplit('::', 1)[0].strip('<').split(' as ')[0].rsplit('::', 1)[0] + '::',), inline_depth=2)
    bad = 0
    charged_paths = 0
    for pi, o in enumerate(outs):
        ev = atom_events(o)
        adds = [e for e in ev if e[0] == 'fetch_add' and e[1] == USED]
        subs = [e for e in ev if e[0] == 'fetch_sub' and e[1] == USED]
        xfer = [e for e in ev if e[0] == 'fetch_add' and e[1] == FILEUSE]
        rk = ret_kind(o)
        names = [c[0] for c in calls(o)]
        wrote = any(n.endswith('::write_all') or n.endswith('::write') and 'std::io::Write' in n for n in names)
        inst = 'write[path %s: %s]' % (rk, ' -> '.join('%s(%s)' % (e[0], e[1]) for e in ev) or 'no accounting')
        problems = []
        if adds:
            charged_paths += 1
            amt = adds[0][2]
            if len(adds) != 1:
                problems.append('global usage charged %d times on one path' % len(adds))
            released = [e for e in subs if e[2] == amt] + [e for e in xfer if e[2] == amt]
            # symbolic balance: bytes that stay charged globally must equal the bytes recorded for the file
            lin = [linear(e[2]) for e in adds + subs + xfer]
            if all(x is not None for x in lin):
                g = Counter()
                for e in adds:
                    g.update(linear(e[2]))
                for e in subs:
                    g.subtract(linear(e[2]))
                fl = Counter()
                for e in xfer:
                    fl.update(linear(e[2]))
                g = Counter({k: v for k, v in g.items() if v})
                fl = Counter({k: v for k, v in fl.items() if v})
                if g != fl:
                    problems.append('after this %s exit the global counter keeps %s charged but the file records %s: dropping the file will not bring usage back to where it was' % (
                        rk, dict(g) or 0, dict(fl) or 0))
                released = released or [1] if g == fl else released
            if len(released) != 1 and not all(x is not None for x in lin):
                problems.append('charge of %s to used_disk_space is %s on the %s exit (needs exactly one rollback or one transfer to the file\'s usage)' % (
                    amt, 'neither rolled back nor transferred' if not released else 'released %d times' % len(released), rk))
            if rk == 'Ok' and not xfer:
                problems.append('success exit without recording the bytes in current_file_disk_usage (drop would never release them)')
            if rk == 'Err' and xfer and not subs:
                pass  # charging a failed write to the file is released on file drop: acceptable
            # ordering: charge before write
            if wrote:
                order = [c[0] for c in calls(o)]
                wi = min(i for i, n in enumerate(order) if n.endswith('::write_all') or (n.endswith('::write') and 'std::io::Write' in n))
                ai = min(i for i, n in enumerate(order) if is_atomic(n) and atomic_op(n) == 'fetch_add')
                li = [i for i, n in enumerate(order) if n.endswith('max_temp_directory_size')]
                if ai > wi or not li or li[0] > wi:
                    problems.append('write_all is reached before the charge / limit lookup')
        else:
            if wrote:
                problems.append('bytes are written on a path that never charges used_disk_space')
            if subs or xfer:
                problems.append('release without a charge')
        if problems:
            bad += 1
            ctx.fail(rule, inst, ctx.loc(rec), '; '.join(problems), key='%s|%s|%s' % (rule, fnpath.rsplit('::', 1)[1], inst))
        else:
            ctx.ok(rule, inst, nontrivial=bool(adds), sample={'fn': fnpath, 'exit': rk, 'trace': fmt_trace(o, lambda n: is_atomic(n) or 'write_all' in n or 'max_temp' in n)})
    if charged_paths < 3:
        bad += 1
        ctx.fail(rule, 'write[paths]', ctx.loc(rec), 'expected at least 3 charged paths (limit exceeded, write failed, success), found %d' % charged_paths,
                 key=rule + '|paths')
    return bad


def check_drop(ctx):
    rule = 'drop-release'
    f = ctx.facts
    rec = ctx.fn(DROP, rule)
    if rec is None:
        return

    def hook(ex, name, deff, args):
        if is_atomic(name) and atomic_op(name) == 'load':
            return sym('load(%s)' % (tag_of(args[0]) or '?'))
        return None
    # private accessors of the module (e.g. `self.current_disk_usage()` for the load) are followed
    outs = run_traces(f, rec, [MR(-1, 0, (), sym('self'))], hook=hook, inline_depth=2, inline_only=(DM, '<' + DM))
    kinds = set()
    for o in outs:
        ev = atom_events(o)
        subs_used = [e for e in ev if e[1] == USED]
        subs_act = [e for e in ev if e[1] == ACTIVE]
        inst = 'drop[%s]' % (' -> '.join('%s(%s,%s)' % (e[0], e[1], e[2]) for e in ev) or 'no accounting')
        problems = []
        if subs_used or subs_act:
            kinds.add('release')
            if len(subs_used) != 1 or subs_used[0][0] != 'fetch_sub' or not subs_used[0][2].endswith('load(self.%s)' % FILEUSE):
                problems.append('last-reference drop must subtract exactly the loaded current_file_disk_usage once from used_disk_space, got %s' % (subs_used,))
            if len(subs_act) != 1 or subs_act[0][0] != 'fetch_sub' or subs_act[0][2] != '1':
                problems.append('last-reference drop must decrement active_files_count exactly once by 1, got %s' % (subs_act,))
            guard = [c for c in calls(o) if c[0].endswith('::strong_count')]
            if not guard:
                problems.append('release is not guarded by the last-reference test')
        else:
            kinds.add('none')
        if problems:
            ctx.fail(rule, inst, ctx.loc(rec), '; '.join(problems), key=rule + '|' + inst)
        else:
            ctx.ok(rule, inst, sample={'fn': DROP, 'trace': fmt_trace(o, lambda n: is_atomic(n) or 'strong_count' in n)})
    if kinds != {'release', 'none'}:
        ctx.fail(rule, 'drop[branches]', ctx.loc(rec), 'expected one releasing branch (last reference) and one non-releasing branch, found %s' % sorted(kinds),
                 key=rule + '|branches')


def check_create(ctx, facts, fnpath, rule='active-count-pairing'):
    rec = facts.fn(fnpath)
    if rec is None:
        ctx.lost(rule, fnpath)
        return 1
    ctx.analysed_fns.add(fnpath)
    outs = run_traces(facts, rec, [R(sym('self')), sym('desc')], inline_depth=0, budget=400000)
    bad = 0
    n_inc = 0
    for o in outs:
        ev = [e for e in atom_events(o) if e[1] == ACTIVE]
        rk = ret_kind(o)
        built = any(e[0] == 'agg' and e[2] == 'RefCountedTempFile' for e in o.events)
        if not ev and not built:
            continue
        inst = 'create_tmp_file[%s exit, inc=%d, handle=%s]' % (rk, len(ev), built)
        if ev:
            n_inc += 1
        if ev and rk != 'Ok':
            bad += 1
            ctx.fail(rule, inst, ctx.loc(rec), 'active_files_count is incremented on a path that returns an error: nothing will ever decrement it',
                     key=rule + '|inc-on-error')
        elif built and rk == 'Ok' and len(ev) != 1:
            bad += 1
            ctx.fail(rule, inst, ctx.loc(rec), 'a file handle is returned with %d increments of active_files_count (drop decrements once)' % len(ev),
                     key=rule + '|handle-without-inc')
        else:
            ctx.ok(rule, inst)
    if n_inc == 0:
        bad += 1
        ctx.fail(rule, 'create_tmp_file[inc]', ctx.loc(rec), 'no path increments active_files_count (anchor lost?)', key=rule + '|no-inc')
    return bad


def check_census(ctx):
    """who may write the three counters"""
    rule = 'who-may-write'
    f = ctx.facts
    allowed = {
        USED: {WRITE, DROP},
        FILEUSE: {WRITE},
        ACTIVE: {CREATE, DROP},
    }
    callers = set()
    for callee, cs in f.callers.items():
        if is_atomic(callee) and atomic_op(callee) in ATOMIC_RMW:
            for c in cs:
                if c.startswith('datafusion_execution::') or c.startswith('<datafusion_execution::'):
                    callers.add(c)
    n = 0
    for c in sorted(callers):
        rec = f.fn(c)
        if rec is None or rec.get('coroutine'):
            continue
        args = [MR(-1, i, (), sym('a%d' % i)) if rec['locals'][i + 1][0].startswith('&mut') else
                R(sym('self' if i == 0 else 'a%d' % i)) if rec['locals'][i + 1][0].startswith('&') else sym('a%d' % i) for i in range(rec['argc'])]
        try:
            outs = run_traces(f, rec, args, inline_depth=0, budget=200000, time_budget=20)
        except Undecidable as e:
            ctx.undecided(rule, c, str(e))
            continue
        fields = set()
        for o in outs:
            for name, a, line in calls(o, is_atomic):
                if atomic_op(name) in ATOMIC_RMW:
                    tg = tag_of(a[0]) or '?'
                    fields.add(tg.rsplit('.', 1)[-1])
        for fld in fields & set(allowed):
            n += 1
            # a private helper whose every caller is a function of the protocol for this counter (or such a helper) is part of the protocol:
            # its effect is accounted for in its callers' path rules above, where it is followed
            def inherits(fn, seen=()):
                if fn in allowed[fld]:
                    return True
                r = f.fn(fn)
                if r is None or r.get('pub') or fn in seen:
                    return False
                cs = [x.split('::{closure')[0] for x in f.callers_of(fn)]
                return bool(cs) and all(inherits(x, seen + (fn,)) for x in cs)
            if c not in allowed[fld] and not inherits(c):
                ctx.fail(rule, '%s in %s' % (fld, c), ctx.loc(rec), 'counter %s is modified outside the accounting protocol (allowed: %s)' % (fld, sorted(allowed[fld])),
                         key='%s|%s|%s' % (rule, fld, c))
            else:
                ctx.ok(rule, '%s in %s' % (fld, c), sample={'counter': fld, 'writer': c})
    ctx.floor(rule, 'counter writers found', n, 5)


def run(ctx):
    check_write(ctx, ctx.facts, WRITE)
    check_drop(ctx)
    check_create(ctx, ctx.facts, CREATE)
    check_census(ctx)
    # selftests: the pre-fix shapes of both defects, seeded in the selftest crate
    import common
    st = ctx.st
    probe = common.Ctx(ctx.pid, ctx.tier, st, st, {})
    probe.known = []
    b1 = check_write(probe, st, '<dfscan_selftest::disk::BadWriter as std::io::Write>::write', rule='st')
    ctx.selftest('charge pairing detects a missing rollback on the write_all error exit', b1 > 0)
    b2 = check_create(probe, st, 'dfscan_selftest::disk::Dm::bad_create_tmp_file', rule='st2')
    ctx.selftest('active-count pairing detects an increment before a fallible creation', b2 > 0)
