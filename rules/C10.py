"""C10 — repartitioning delivers every row exactly once to the right partition: structural clauses."""
from traces import *
import C16
import hashbuf
import fanout

TECHNIQUE = 'static analysis: who-may-seed census and value-origin of the routing hash state; call-graph must-reach; path enumeration of the task-completion fan-out; pending-needs-delegation on the output stream'
EXPLANATION = ('(a) Single routing seed: SeededRandomState::with_seed is called only by the two seed constants and the plan decoder; '
               'BatchPartitioner::partition_iter hashes with REPARTITION_RANDOM_STATE.random_state(); HashJoinExec::execute routes '
               'partitioned dynamic filters with that same constant (named local repartition_random_state). (b) RangeExpr::evaluate '
               'and BatchPartitioner::partition_range_indices both reach range_partition_id. (c) RepartitionExec::wait_for_task: in '
               'each of its three arms every output channel yielded by the iteration is sent a terminal message — Some(Err(..)) '
               'carrying the join error or the task error in the two failure arms, None on success; and every loop that sends to each channel of a collection (wherever it lives in the call tree of wait_for_task) runs until its iterator is exhausted on every path — a failed send to an output that was dropped early must not stop the others from receiving theirs. (e) PerPartitionStream::'
               'poll_next_inner returns Pending only by delegation to an inner poll. Clause (d) — no engine error of pull_from_input is '
               'swallowed — is decided by the C20 site rule. (f) Both routers hash into a buffer that is all zeros on every path (vec![0; n] or clear()+resize(n, 0)), so the hash of a NULL key cannot depend on an earlier batch. Exact placement of rows, spilling order and schedules are not decided.')
# path rules cut loops after a bounded number of iterations: complete over rule instances, not over all unrollings
EXHAUSTIVE = False
ASSUMPTIONS = ['loops unrolled twice: "every output" is checked per iteration of the for-loop over txs']

RP = 'datafusion_physical_plan::repartition::'
SEED = 'datafusion_physical_plan::joins::hash_join::partitioned_hash_eval::SeededRandomState::with_seed'
ALLOWED_SEEDERS = {
    RP + 'REPARTITION_RANDOM_STATE': 'the one routing seed',
    'datafusion_physical_plan::joins::hash_join::exec::HASH_JOIN_SEED': 'hash-table seed of the join (not used for routing)',
    'datafusion_physical_plan::joins::hash_join::partitioned_hash_eval::HashExpr::try_from_proto': 'decoder: restores the seed that was serialised',
}


def run(ctx):
    f = ctx.facts
    # (a)
    seeders = set(f.callers_of(SEED))
    if not seeders:
        ctx.lost('single-routing-seed', SEED)
    for s_ in sorted(seeders):
        if s_ in ALLOWED_SEEDERS:
            ctx.ok('single-routing-seed', 'with_seed <- ' + s_, sample={'caller': s_, 'why': ALLOWED_SEEDERS[s_]})
        else:
            rec = f.fn(s_)
            ctx.fail('single-routing-seed', 'with_seed <- ' + s_, ctx.loc(rec) if rec else s_, 'a new seeded hash state is created here: rows routed with it would not meet rows routed with REPARTITION_RANDOM_STATE',
                     key='single-routing-seed|' + s_)
    PI = RP + 'BatchPartitioner::partition_iter'
    rec = ctx.fn(PI, 'single-routing-seed')
    if rec:
        tree = [PI] + sorted(d for d in f.fn_index if d.startswith(PI + '::{closure'))
        found = False
        badv = []
        for d in tree:
            r = f.fn(d)
            if not any(c.endswith('::create_hashes') for c in f.callees.get(d, [])):
                continue
            args = C16.args_for(r) if r['k'] != 'closure' else [MR(-1, 0, (), sym('env'))] + [sym('a%d' % i) for i in range(1, r['argc'])]
            try:
                outs = run_traces(f, r, args, inline_depth=0, time_budget=30, loop_visits=1, budget=600000)
            except Undecidable as e:
                ctx.undecided('single-routing-seed', d, str(e))
                continue
            for o in outs:
                for e in o.events:
                    if e[0] == 'callargs' and e[1].endswith('::create_hashes'):
                        found = True
                        t = ' '.join(tag_of(a) or '' for a in e[2])
                        if 'REPARTITION_RANDOM_STATE' not in t:
                            badv.append(t[:120])
        if badv or not found:
            ctx.fail('single-routing-seed', 'partition_iter', ctx.loc(rec), 'hash partitioning does not hash with REPARTITION_RANDOM_STATE (%s)' % (badv[:1] or 'create_hashes not found'),
                     key='single-routing-seed|partition_iter')
        else:
            ctx.ok('single-routing-seed', 'partition_iter uses REPARTITION_RANDOM_STATE')
    HX = '<datafusion_physical_plan::joins::hash_join::exec::HashJoinExec as datafusion_physical_plan::execution_plan::ExecutionPlan>::execute'
    rec = ctx.fn(HX, 'single-routing-seed')
    if rec:
        vals = set()
        for b in rec['bb']:
            for st in b['s']:
                # keyed by type, not by the local's name: every SeededRandomState local initialised in this body
                if st[0] == '=' and not st[1][1] and rec['locals'][st[1][0]][0].endswith('partitioned_hash_eval::SeededRandomState') \
                        and rec['locals'][st[1][0]][1]:
                    rv = st[2]
                    if rv[0] == 'use' and rv[1][0] == 'k':
                        vals.add(rv[1][1].get('unev', '?'))
                    else:
                        vals.add('non-const')
        if vals == {RP + 'REPARTITION_RANDOM_STATE'}:
            ctx.ok('single-routing-seed', 'HashJoinExec::execute routes dynamic filters with REPARTITION_RANDOM_STATE')
        else:
            ctx.fail('single-routing-seed', 'HashJoinExec::execute', ctx.loc(rec), 'the routing hash state of the dynamic filter is initialised from %s, not from REPARTITION_RANDOM_STATE' % sorted(vals),
                     key='single-routing-seed|hashjoin-execute')
    # (b)
    cs = set(f.callers_of(RP + 'range_partition_id'))
    need = {'<datafusion_physical_plan::repartition::RangeExpr as datafusion_physical_expr_common::physical_expr::PhysicalExpr>::evaluate',
            RP + 'BatchPartitioner::partition_range_indices'}
    if need <= cs:
        ctx.ok('range-routing-shared', 'range_partition_id', sample={'callers': sorted(cs)})
    else:
        ctx.fail('range-routing-shared', 'range_partition_id', RP + 'range_partition_id', 'not both the range expression and the batch partitioner route through range_partition_id (callers: %s)' % sorted(cs),
                 key='range-routing-shared|callers')
    # (c)
    W = RP + 'RepartitionExec::wait_for_task::{closure#0}'
    rec = ctx.fn(W, 'terminal-message-to-every-output')
    if rec:
        outs = run_traces(f, rec, [MR(-1, 0, (), sym('st')), MR(-1, 1, (), sym('cx'))], inline_depth=0, time_budget=40, loop_visits=2, budget=900000)
        arms = {'join-error': [0, 0], 'task-error': [0, 0], 'success': [0, 0]}
        problems = set()
        for o in outs:
            arm = None
            jtag = None
            for e in o.events:
                if e[0] == 'variant':
                    t = norm_tag(e[1])
                    if t.endswith('.0') and not t.endswith('.0.0') and e[3] == 'Err':
                        arm, jtag = 'join-error', t
                    elif t.endswith('.0.0') and e[3] == 'Err':
                        arm, jtag = 'task-error', t
                    elif t.endswith('.0.0') and e[3] == 'Ok':
                        arm, jtag = 'success', t
            if arm is None:
                continue
            nexts = sum(1 for e in o.events if e[0] == 'variant' and 'call:next@' in norm_tag(e[1]) and e[3] == 'Some')
            sends = [e for e in o.events if e[0] == 'callargs' and e[1].endswith('DistributionSender::<T>::send')]
            arms[arm][0] += 1
            if len(sends) != nexts:
                problems.add('%s arm: %d output channel(s) taken from txs but %d message(s) sent' % (arm, nexts, len(sends)))
            for s_ in sends:
                msg = strip(s_[2][1])
                if arm == 'success':
                    if not (isinstance(msg, A) and msg.name == 'None'):
                        problems.add('success arm sends %s instead of the end-of-input marker None' % show(msg)[:60])
                else:
                    okk = isinstance(msg, A) and msg.name == 'Some' and isinstance(strip(read_proj(msg, [('f', 0)])), A) and strip(read_proj(msg, [('f', 0)])).name == 'Err'
                    root = jtag.rsplit('.0', 1)[0] if jtag else ''
                    base = jtag.split('.0')[0] if jtag else ''
                    if not okk:
                        problems.add('%s arm sends %s, not Some(Err(..)): the output would see end-of-input instead of the error' % (arm, show(msg)[:60]))
                    elif base and base not in show(msg) and base.split('@')[0] not in show(msg):
                        problems.add('%s arm: the error sent (%s) is not built from the result of the failed task' % (arm, show(msg)[:80]))
                arms[arm][1] += 1
        hidden = []
        for a, (np_, ns) in arms.items():
            if np_ == 0:
                problems.add('arm %s not found' % a)
            elif ns == 0:
                hidden.append(a)       # the sends of this arm are not in this body (moved to a helper): content not checked here
        for a in hidden:
            ctx.skip('terminal-message-to-every-output', 'wait_for_task[%s arm]' % a, 'no send in this body on the arm: the fan-out was moved to a helper; '
                     'completeness is decided by fan-out-complete, the message content is not visible')
        if problems:
            ctx.fail('terminal-message-to-every-output', 'wait_for_task', ctx.loc(rec), '; '.join(sorted(problems)), key='terminal-message-to-every-output|wait_for_task')
        else:
            ctx.ok('terminal-message-to-every-output', 'wait_for_task', sample={'paths_per_arm': {a: v[0] for a, v in arms.items()}, 'sends_checked': {a: v[1] for a, v in arms.items()}})
    # (c2) every loop that sends to each output channel of a collection runs to exhaustion (no exit on a failed send)
    fanout.check(ctx, 'fan-out-complete', lambda c: (c[1:] if c.startswith('<') else c).startswith('datafusion_physical_plan::repartition'),
                 must_cover=[RP + 'RepartitionExec::wait_for_task'], floor=1)
    # (e)
    P = RP + 'PerPartitionStream::poll_next_inner'
    rec = ctx.fn(P, 'pending-is-delegated')
    if rec:
        try:
            outs = run_traces(f, rec, C16.args_for(rec), inline_depth=0, time_budget=40, loop_visits=1, budget=900000)
            npend, bad = 0, 0
            for o in outs:
                if ret_kind(o) != 'Pending':
                    continue
                npend += 1
                deleg = any(e[0] == 'variant' and e[3] == 'Pending' for e in o.events)
                if not deleg:
                    bad += 1
            if npend == 0:
                ctx.fail('pending-is-delegated', 'poll_next_inner', ctx.loc(rec), 'no Pending path found', key='pending-is-delegated|none')
            elif bad:
                ctx.fail('pending-is-delegated', 'poll_next_inner', ctx.loc(rec), '%d of %d Pending returns are not the Pending of an inner poll: nothing registered a waker' % (bad, npend),
                         key='pending-is-delegated|poll_next_inner')
            else:
                ctx.ok('pending-is-delegated', 'poll_next_inner', sample={'pending_paths': npend})
        except Undecidable as e:
            ctx.undecided('pending-is-delegated', 'poll_next_inner', str(e))
    # (f) the routing hashes are computed into a zeroed buffer (a stale slot makes equal NULL keys route differently)
    ROUTERS = (RP + 'BatchPartitioner::partition_iter',
               '<datafusion_physical_plan::joins::hash_join::partitioned_hash_eval::HashExpr as datafusion_physical_expr_common::physical_expr::PhysicalExpr>::evaluate')
    nr = hashbuf.check_callers(ctx, 'routing-hash-buffer-zeroed', select=lambda c: c in ROUTERS)
    if nr < 2:
        ctx.lost('routing-hash-buffer-zeroed', 'create_hashes call in partition_iter / HashExpr::evaluate')
    ctx.selftest('who-may-seed census is non-empty', len(seeders) >= 3)
