"""C40 — file caches honour their validity rules and stay within budget."""
import re
from deltas import *
from locks import lock_hook
import C16

TECHNIQUE = 'static analysis: exhaustive path enumeration over MIR; entry/size accounting balance per path; guard dominance of validity checks; call-graph reachability of invalidation'
EXPLANATION = ('DefaultCacheState: (a) every entry entering the LRU queue adds key.size()+value.size() to memory_used and every entry '
               'leaving it (remove, LRU pop, replaced old entry) subtracts both sizes of that entry; clear zeroes; no other function '
               'writes memory_used; (b) put and update_cache_limit reach evict_entries after growing usage / lowering the limit; (c) both '
               'is_valid_for implementations return true only through the true edges of the size AND last_modified comparisons; (d) each '
               'consumer of the file statistics / metadata caches touches the cached payload only behind the true edge of is_valid_for; '
               '(e) SessionContext::invalidate_caches drops the table\'s entries from both the list-files and the file-statistics cache '
               'and is called from the deregistration paths; (f) get/contains_key return a hit only on the not-expired path; (g) the expiry stamp of a cache '
               'entry is only given a value by constructing the entry (no later assignment or mutable borrow of it in the cache module). LRU order is not decided.')
# path rules cut loops after a bounded number of iterations: complete over rule instances, not over all unrollings
EXHAUSTIVE = False
ASSUMPTIONS = ['LruQueue::{put,remove,pop,clear} are the only ways entries enter or leave the queue']

DC = 'datafusion_execution::cache::default_cache::'
DCS = DC + 'DefaultCacheState::<K, V>::'
CM = 'datafusion_execution::cache::cache_manager::'


def explore(facts, rec, depth=0, prefix=DC, protocol=(), **kw):
    # private helpers of the module are followed (an extracted `release_entry` is part of its caller); the protocol functions themselves are
    # call events (put -> evict_entries is a rule, not a body to merge)
    def helper(name):
        n = name[1:] if name.startswith('<') else name
        return n.startswith(prefix) and name not in protocol and '::is_valid_for' not in name
    return run_traces(facts, rec, C16.args_for(rec), hook=lock_hook, inline_depth=depth, inline_only=None, inline_pred=helper, time_budget=40, budget=600000, **kw)


def size_calls(o):
    """line -> ('key'|'value', arg tag) for CacheKey::size / CacheValue::size style calls"""
    out = {}
    for name, args, line in calls(o):
        if name.rsplit('::', 1)[-1] == 'size' and args:
            kind = 'key' if 'CacheKey' in name or 'Key' in name.rsplit('::', 2)[-2] else 'value'
            out['call:size@%s' % line] = (kind, tag_of(args[0]) or '?')
    return out


def md(facts, o, field='memory_used'):
    """ordered ('+'|'-'|'=', amount_string) for assignments to <anything>.memory_used"""
    out = []
    prev = None
    for e in o.events:
        if e[0] == 'assign' and e[1].rsplit('.', 1)[-1] == field:
            v = show(e[2])
            m = None
            if v.startswith(('?add(', '?sub(')) and v.endswith(').0'):
                inner = v[5:-3]
                depth, cut = 0, None
                for i, ch in enumerate(inner):
                    if ch == '(':
                        depth += 1
                    elif ch == ')':
                        depth -= 1
                    elif ch == ',' and depth == 0:
                        cut = i
                if cut is not None:
                    m = (v[1:4], inner[cut + 1:])
            if v == '0':
                out.append(('=', '0'))
            elif m:
                out.append(('+' if m[0] == 'add' else '-', m[1]))
            else:
                out.append(('?', v))
    return out


def has_let(o, name):
    return sum(1 for e in o.events if e[0] == 'let' and e[1] == name)


def check_accounting(ctx, facts, prefix, names, rule='accounting-balance'):
    """names: dict method -> def path"""
    bad = 0
    for m, d in names.items():
        rec = facts.fn(d)
        if rec is None:
            ctx.lost(rule, d)
            bad += 1
            continue
        ctx.analysed_fns.add(d)
        outs = explore(facts, rec, prefix=prefix, protocol=tuple(names.values()))
        problems = set()
        nrel = 0
        for o in outs:
            if any(e[0] == 'loopcut' for e in o.events):
                continue
            sc = size_calls(o)
            ds = md(facts, o)
            qcalls = [(c[0].rsplit('::', 1)[-1], c[2]) for c in calls(o) if 'LruQueue' in c[0] or 'Queue' in c[0].rsplit('::', 2)[-2]]
            enter = sum(1 for q, _ in qcalls if q == 'put')
            leave = 0
            who = []
            if m == 'put':
                # LruQueue::put returns the replaced entry: it has left the queue unless that very result was seen to be None
                puts = [e for e in o.events if e[0] == 'callargs' and e[1].rsplit('::', 1)[-1] == 'put' and 'Queue' in e[1]]
                leave = 0
                for pe in puts:
                    site = 'call:put@%s' % pe[3]
                    none_seen = any(e[0] == 'variant' and norm_tag(e[1]) == site and e[3] == 'None' for e in o.events)
                    if not none_seen:
                        leave += 1
                who = ['old_entry'] * leave
            elif m == 'remove':
                leave = 1 if ret_kind(o) == 'Some' else 0
                who = ['entry'] * leave
            elif m == 'evict_entries':
                leave = has_let(o, 'evicted')
                who = ['evicted'] * leave
            plus = [a for s, a in ds if s == '+']
            minus = [a for s, a in ds if s == '-']
            if enter or leave or ds:
                nrel += 1
            if m == 'clear':
                if [q for q, _ in qcalls] != ['clear'] or ds != [('=', '0')]:
                    problems.add('clear must empty the queue and zero memory_used (got queue ops %s, usage writes %s)' % ([q for q, _ in qcalls], ds))
                continue
            if any(s in ('?', '=') for s, a in ds) and m != 'evict_entries':
                problems.add('unrecognised write to memory_used: %s' % ds)
            if len(plus) != enter:
                problems.add('%d entr%s enter the queue but memory_used is increased %d times' % (enter, 'y' if enter == 1 else 'ies', len(plus)))
            for a in plus:
                parts = re.findall(r'call:size@\d+', a)
                kinds = sorted(sc.get(p, ('?', '?'))[0] for p in parts)
                if kinds != ['key', 'value']:
                    problems.add('the charge for a new entry is not key.size()+value.size() (%s)' % a)
            if len(minus) != 2 * leave:
                problems.add('%d entr%s leave the queue but memory_used is decreased %d times (needs key and value size of each)' % (
                    leave, 'y' if leave == 1 else 'ies', len(minus)))
            else:
                for k in range(leave):
                    pair = minus[2 * k:2 * k + 2]
                    kinds = sorted(sc.get(norm_tag(p.lstrip('?')), ('?', '?'))[0] for p in pair)
                    if kinds != ['key', 'value']:
                        problems.add('a leaving entry is not credited with its key size and its value size (%s)' % pair)
                    vt = [sc.get(norm_tag(p.lstrip('?')), ('?', '?')) for p in pair if sc.get(norm_tag(p.lstrip('?')), ('?', '?'))[0] == 'value']
                    wtags = [tag_of(e[2]) or '' for e in o.events if e[0] == 'let' and who and e[1] == who[k]]
                    if vt and who and wtags and not any(vt[0][1].startswith(w) for w in wtags if w) and not vt[0][1].startswith(who[k]):
                        problems.add('the value size credited on leave is taken from %s, not from the leaving entry %s' % (vt[0][1], who[k]))
            if m == 'put' and enter:
                names_ = [c[0] for c in calls(o)]
                pi = max(i for i, n in enumerate(names_) if n.endswith('::put') and 'Queue' in n)
                if not any(n.endswith('evict_entries') for n in names_[pi:]):
                    problems.add('usage grows but evict_entries is not reached before returning')
        inst = '%s' % d.rsplit('::', 1)[-1]
        if nrel == 0:
            problems.add('no path touches the queue or the usage counter (anchor changed?)')
        if problems:
            bad += 1
            ctx.fail(rule, inst, ctx.loc(rec), '; '.join(sorted(problems)), key='%s|%s' % (rule, inst))
        else:
            ctx.ok(rule, inst, sample={'fn': d, 'paths': len(outs)})
    return bad


def check_valid_for(ctx, facts, d, rule='validity-guard'):
    rec = facts.fn(d)
    if rec is None:
        ctx.lost(rule, d)
        return 1
    ctx.analysed_fns.add(d)
    outs = explore(facts, rec, prefix=d.rsplit('::', 2)[0] + '::')
    n_true = 0
    problems = set()
    for o in outs:
        r = strip(o.ret)
        if isinstance(r, I) and r.n == 0:
            continue
        n_true += 1
        took = [e[1] for e in o.events if e[0] == 'branch' and e[2] == 1]
        if tag_of(o.ret):
            took.append(tag_of(o.ret))
        if not any('.size' in t and t.startswith(('eq(', 'call:eq')) or ('size' in t and 'eq' in t) for t in took):
            problems.add('can return true without the file size comparison being true')
        if not any('last_modified' in t for t in took):
            problems.add('can return true without the last_modified comparison being true')
    if n_true == 0:
        problems.add('never returns true?')
    inst = d.rsplit('::', 2)[-2] + '::is_valid_for'
    if problems:
        ctx.fail(rule, inst, ctx.loc(rec), '; '.join(sorted(problems)), key='%s|%s' % (rule, inst))
        return 1
    ctx.ok(rule, inst, sample={'fn': d, 'true_paths': n_true})
    return 0


def is_plumbing(name):
    """Option/Result combinators and the `?` machinery move the wrapper around the cached entry; they do not read the entry"""
    return name.startswith(('core::option::Option::', 'core::result::Result::')) or 'core::ops::try_trait::' in name


def check_consumer(ctx, facts, d, rule='use-behind-validity'):
    rec = facts.fn(d)
    if rec is None:
        ctx.lost(rule, d)
        return 1
    ctx.analysed_fns.add(d)
    args = [MR(-1, 0, (), sym('st')), MR(-1, 1, (), sym('cx'))][:rec['argc']]
    try:
        outs = run_traces(facts, rec, args, hook=lock_hook, inline_depth=0, time_budget=60, budget=1500000, loop_visits=1, try_tags=True)
    except Undecidable as e:
        ctx.undecided(rule, d, str(e))
        return 1
    bad = 0
    uses = 0
    for o in outs:
        validated = False
        # the cached payload is whatever is_valid_for is asked about on this path (its receiver), under any local name
        ctags = set()
        for e in o.events:
            if e[0] == 'callargs' and e[1].endswith('::is_valid_for') and e[2]:
                t = tag_of(e[2][0])
                if t:
                    ctags.add(t)
        if not ctags:
            continue
        for e in o.events:
            if e[0] == 'branch' and e[1] and 'is_valid_for' in e[1]:
                validated = (e[2] == 1)
            if e[0] == 'callargs' and not e[1].endswith('::is_valid_for') and not is_plumbing(e[1]):
                for a in e[2]:
                    t = tag_of(a) or ''
                    if any(t == c or t.startswith(c + '.') for c in ctags):
                        uses += 1
                        if not validated:
                            bad += 1
    inst = d
    if uses == 0:
        ctx.fail(rule, inst, ctx.loc(rec), 'no use of the cached payload found (anchor changed?)', key='%s|nouse|%s' % (rule, inst))
        return 1
    if bad:
        ctx.fail(rule, inst, ctx.loc(rec), 'the cached payload is used on a path where is_valid_for has not returned true (stale statistics/metadata after a file rewrite)',
                 key='%s|%s' % (rule, inst))
        return 1
    ctx.ok(rule, inst, sample={'consumer': d, 'uses_behind_guard': uses})
    return 0


def expiry_fixed_at_insertion(ctx, facts, prefix=DC, rule='expiry-fixed-at-insertion'):
    """'a cached listing is used only within its time-to-live': the TTL clock of an entry starts when it is cached.  Structural clause: the expiry
    stamp (the field of type Option<Instant> of the cache entry struct) is only ever given a value by constructing the entry; no function of the cache
    module assigns to it or takes a mutable reference to it afterwards (re-stamping would let an entry outlive cached_at + ttl)."""
    entry = []
    for p, a in facts.adts.items():
        if p.startswith(prefix) and a.get('kind') == 'struct' and not a.get('ext'):
            fl = [x[0] for x in a['variants'][0]['fields'] if 'Instant' in x[1]]
            if fl:
                entry.append((p, fl))
    if not entry:
        ctx.lost(rule, prefix + '<cache entry struct with an expiry instant>')
        return 1
    bad = 0
    stamped = 0
    for p, fl in entry:
        writers = []
        for d, i, e in facts.all_fn_entries():
            if not d.startswith(prefix) or '::tests::' in d or '::test::' in d:
                continue
            rec = facts.fn(d, i)
            for b in rec['bb']:
                for st in b['s']:
                    if st[0] != '=':
                        continue
                    projs = st[1][1]
                    if any(isinstance(q, list) and q[0] == 'f' and len(q) > 3 and q[3] == p and q[2] in fl for q in projs):
                        writers.append((d, st[3] if len(st) > 3 else 0, 'assigns'))
                    rv = st[2]
                    if rv[0] == 'ref' and len(rv) > 2 and rv[2] and any(isinstance(q, list) and q[0] == 'f' and len(q) > 3 and q[3] == p and q[2] in fl for q in rv[1][1]):
                        writers.append((d, st[3] if len(st) > 3 else 0, 'mutably borrows'))
                    if rv[0] == 'agg' and isinstance(rv[1], list) and rv[1][0] == 'adt' and rv[1][1] == p:
                        stamped += 1
        inst = '%s.%s' % (p.rsplit('::', 1)[-1], '/'.join(fl))
        if writers:
            bad += 1
            w = writers[0]
            rec = facts.fn(w[0])
            ctx.fail(rule, inst, ctx.loc(rec, w[1] or None), '%s %s the expiry stamp of an existing cache entry: an entry can then be served after cached_at + ttl' % (w[0].rsplit('::', 1)[-1], w[2]),
                     key='%s|%s|%s' % (rule, inst, w[0]))
        else:
            ctx.ok(rule, inst, sample={'entry': p, 'expiry_field': fl, 'constructions_seen': stamped})
    return bad


def run(ctx):
    f = ctx.facts
    names = {m: DCS + m for m in ('put', 'remove', 'evict_entries', 'clear')}
    check_accounting(ctx, f, DC, names)
    # who may write memory_used
    writers = set()
    for d, i in C16.module_fns(f, DC, 'cache/default_cache.rs'):
        rec = f.fn(d, i)
        if rec.get('coroutine'):
            continue
        try:
            outs = explore(f, rec, protocol=tuple(names.values()))
        except Undecidable:
            continue
        if any(md(f, o) for o in outs):
            writers.add(d)
    extra = writers - set(names.values())
    # a private helper all of whose callers are protocol functions (or such helpers) is part of the protocol: its writes are accounted
    # for in its callers' balance above, where it is followed
    changed = True
    while changed:
        changed = False
        for d in sorted(extra):
            cs = set(f.callers_of(d))
            if cs and all(c in names.values() or (c in writers and c not in extra) for c in cs):
                extra.discard(d)
                changed = True
    if extra:
        ctx.fail('who-may-write', 'memory_used', DC, 'memory_used is written outside put/remove/evict_entries/clear: %s' % sorted(extra), key='who-may-write|memory_used')
    else:
        ctx.ok('who-may-write', 'memory_used', sample={'writers': sorted(writers)})
    ctx.floor('who-may-write', 'functions writing memory_used', len(writers), 4)
    # (b) lowering the limit evicts
    UL = '<datafusion_execution::cache::default_cache::DefaultCache<K, V> as datafusion_execution::cache::Cache<K, V>>::update_cache_limit'
    rec = ctx.fn(UL, 'evict-after-change')
    if rec:
        outs = explore(f, rec)
        okk = True
        for o in outs:
            idx = [i for i, e in enumerate(o.events) if e[0] == 'assign' and e[1].endswith('memory_limit')]
            ev = [i for i, e in enumerate(o.events) if e[0] == 'callargs' and e[1].endswith('evict_entries')]
            if idx and not (ev and ev[-1] > idx[0]):
                okk = False
        if okk:
            ctx.ok('evict-after-change', 'update_cache_limit')
        else:
            ctx.fail('evict-after-change', 'update_cache_limit', ctx.loc(rec), 'the limit is changed without evicting down to it', key='evict-after-change|limit')
    # (f) expiry
    for m, miss in (('get', 'None'), ('contains_key', '0')):
        rec = ctx.fn(DCS + m, 'expiry')
        if rec:
            outs = explore(f, rec)
            badp = [o for o in outs if any(c[0].endswith('::remove') and 'DefaultCacheState' in c[0] for c in calls(o)) and
                    (ret_kind(o) if m == 'get' else show(o.ret)) != miss]
            if badp:
                ctx.fail('expiry', m, ctx.loc(rec), 'an expired entry is removed but still reported as a hit', key='expiry|' + m)
            else:
                ctx.ok('expiry', m)
    # (c)
    check_valid_for(ctx, f, CM + 'CachedFileMetadata::is_valid_for')
    check_valid_for(ctx, f, CM + 'CachedFileMetadataEntry::is_valid_for')
    # (d)
    consumers = set()
    for k in f.callers:
        if k.endswith('::is_valid_for') and k.startswith(CM):
            for c in f.callers_of(k):
                # a predicate closure (`.filter(|c| c.is_valid_for(meta))`) is analysed as part of the function it is written in
                r = f.fn(c)
                consumers.add(r.get('root') or c if r is not None and r['k'] == 'closure' and not r.get('coroutine') else c)
    for d in sorted(consumers):
        check_consumer(ctx, f, d)
    ctx.floor('use-behind-validity', 'consumers of is_valid_for', len(consumers), 2)
    # (e)
    INV = 'datafusion::execution::context::SessionContext::invalidate_caches'
    rec = ctx.fn(INV, 'drop-table-invalidates')
    if rec:
        outs = run_traces(f, rec, C16.args_for(rec), inline_depth=0, time_budget=30)
        best = 0
        for o in outs:
            names_ = [c[0].rsplit('::', 1)[-1] for c in calls(o)]
            if 'get_list_files_cache' in names_ and 'get_file_statistic_cache' in names_:
                best = max(best, names_.count('drop_table_entries'))
        if best < 2:
            ctx.fail('drop-table-invalidates', 'invalidate_caches', ctx.loc(rec), 'no path drops the table entries of both the list-files cache and the file-statistics cache', key='drop-table-invalidates|both')
        else:
            ctx.ok('drop-table-invalidates', 'invalidate_caches')
        cs = [c for c in f.callers_of(INV)]
        if len(cs) < 2:
            ctx.fail('drop-table-invalidates', 'callers', ctx.loc(rec), 'invalidate_caches is reached from %s only (expected the DROP TABLE and deregister_table paths)' % cs, key='drop-table-invalidates|callers')
        else:
            ctx.ok('drop-table-invalidates', 'callers', sample={'callers': cs})
    # (g) expiry stamp
    expiry_fixed_at_insertion(ctx, f)
    # selftest
    import common
    st = ctx.st
    probe = common.Ctx(ctx.pid, ctx.tier, st, st, {})
    probe.known = []
    SC = 'dfscan_selftest::cache::'
    b1 = check_accounting(probe, st, SC, {'put': SC + 'State::put', 'remove': SC + 'State::remove'}, rule='st')
    ctx.selftest('accounting rule detects a replaced entry whose key size is not credited and a remove that forgets the value size', b1 >= 2)
    b2 = check_valid_for(probe, st, SC + 'Cached::is_valid_for', rule='st2')
    ctx.selftest('validity rule detects is_valid_for that ignores last_modified', b2 > 0)
    b3 = expiry_fixed_at_insertion(probe, st, prefix=SC, rule='st3')
    ctx.selftest('expiry rule detects a function that re-stamps the expiry of existing entries', b3 > 0)
