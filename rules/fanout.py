"""Fan-out completeness: a loop that sends one message to each element of a collection of output channels
(`for tx in txs { tx.send(m).await ... }`) must run to exhaustion — no exit (`?`, return, break) between a send and the
iterator's end — or an output that is still being read never receives the terminal message / the error.

A fan-out loop is recognised by dataflow, not by text: a call whose callee is a channel `send` and whose receiver value
originates from the payload of an iterator `next()` in the same body."""
from traces import *
import C53
import re

SENDS = ('::send', '::try_send', '::blocking_send')


def is_send(name):
    return name.endswith(SENDS) and ('Sender' in name or 'sender' in name.lower())


def fanout_functions(facts, in_scope):
    out = []
    for callee, callers in facts.callers.items():
        if is_send(callee):
            for c in set(callers):
                if in_scope(c):
                    out.append(c)
    return sorted(set(out))


def check_fn(facts, d):
    """returns (n_fanout_sites, problems) for function d; n=0 if d has no fan-out loop"""
    rec = facts.fn(d)
    if rec is None or 'bb' not in rec:
        return 0, []

    def keep(e):
        return e[0] in ('variant', 'loopcut') or (e[0] == 'callargs' and (is_send(e[1]) or e[1].endswith('::next')))
    try:
        outs = run_traces(facts, rec, C53.fn_args(rec), inline_depth=0, time_budget=60, loop_visits=2, budget=3000000, try_tags=True, keep=keep)
    except Undecidable as e:
        return -1, [str(e)]
    sites = set()
    problems = set()
    for o in outs:
        evs = list(o.events)
        cut = any(e[0] == 'loopcut' for e in evs)
        for k, e in enumerate(evs):
            if e[0] != 'callargs' or not is_send(e[1]):
                continue
            rt = norm_tag(tag_of(e[2][0]) or '')
            m = re.match(r'(?:try:)?call:next@(\d+)', rt)      # the receiver IS (a projection of) the iterator's payload
            if not m:
                continue
            site = m.group(1)
            sites.add(site)
            if cut:
                continue
            # the iterator of this loop must be seen to end (None) after this send on the same path
            ended = any(x[0] == 'variant' and norm_tag(x[1]) == 'call:next@' + site and x[3] == 'None' for x in evs[k + 1:])
            again = any(x[0] == 'variant' and norm_tag(x[1]) == 'call:next@' + site and x[3] == 'Some' for x in evs[k + 1:])
            if not ended and not again:
                why = 'returns %s' % ret_kind(o)
                tb = [norm_tag(x[1]) for x in evs[k + 1:] if x[0] == 'variant' and x[3] in ('Break', 'Err') and 'send@' in (x[1] or '')]
                if tb:
                    why = 'leaves the loop on the failure of the send itself (%s)' % tb[0][:60]
                problems.add('line %s: a path sends to one output taken from the iterator at line %s and then %s before the iterator is '
                             'exhausted: the remaining outputs never receive this message' % (e[3] if len(e) > 3 else '?', site, why))
    return len(sites), sorted(problems)


def check(ctx, rule, in_scope, must_cover=(), floor=1):
    """checks every fan-out loop in scope; `must_cover`: roots whose call tree (depth 2) must contain at least one fan-out loop"""
    f = ctx.facts
    n = 0
    have = set()
    for d in fanout_functions(f, in_scope):
        k, problems = check_fn(f, d)
        if k == 0:
            continue
        ctx.analysed_fns.add(d)
        if k < 0:
            ctx.undecided(rule, d, problems[0])
            continue
        n += 1
        have.add(d)
        if problems:
            rec = f.fn(d)
            ctx.fail(rule, d, ctx.loc(rec), '; '.join(problems), key='%s|%s' % (rule, d))
        else:
            ctx.ok(rule, d, sample={'fn': d, 'fanout_loops': k})
    for root in must_cover:
        tree = f.call_tree(root, depth=2)
        if not (set(tree) & have):
            ctx.lost(rule, 'fan-out loop reachable from ' + root)
    if floor:
        ctx.floor(rule, 'functions containing a fan-out loop over output channels', n, floor)
    return n
