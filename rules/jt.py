"""helpers shared by the join-type table rules"""
import os, sys
sys.path.insert(0, os.path.join(os.path.dirname(os.path.dirname(os.path.abspath(__file__))), 'oracles'))
import joins as M
from enumtab import *

JT = 'datafusion_common::join_type::JoinType'
JS = 'datafusion_common::join_type::JoinSide'

_cache = {}


def oracle(name, *args):
    k = (name,) + args
    if k not in _cache:
        _cache[k] = getattr(M, name)(*args)
    return _cache[k]


def jt_variants(ctx):
    names = ctx.facts.variant_names(JT)
    if names is None:
        ctx.lost('anchor', JT)
        return []
    if sorted(names) != sorted(M.TYPES):
        # a new join type that the reference model does not know: fail closed
        ctx.fail('model', 'JoinType variants', JT,
                 'JoinType variants %s differ from the reference model %s' % (names, M.TYPES),
                 key='model|jointype-variants')
    return names


def single(outs):
    """the unique return value of a decision function, or None if it is not a constant"""
    vals = set(o.ret for o in outs)
    if len(vals) == 1:
        v = next(iter(vals))
        if ground(v):
            return strip(v)
    return None


def jt_table(ctx, rule, fnpath, by_ref, extra_domains=(), **kw):
    """{jtname(+extras): stripped ground value} or None (anchor lost / undecided -> reported)"""
    rec = ctx.fn(fnpath, rule)
    if rec is None:
        return None
    names = jt_variants(ctx)
    res = {}
    import itertools
    doms = [enum_domain(ctx.facts, JT, by_ref)] + list(extra_domains)
    for combo in itertools.product(*doms):
        ex = Explorer(ctx.facts, **kw)
        try:
            outs = ex.run(rec, list(combo))
        except Undecidable as e:
            ctx.undecided(rule, '%s(%s)' % (fnpath, ','.join(show(c) for c in combo)), str(e))
            return None
        v = single(outs)
        if v is None:
            ctx.undecided(rule, '%s(%s)' % (fnpath, ','.join(show(c) for c in combo)),
                          'result is not a compile-time function of the inputs: %s' % sorted(set(show(o.ret) for o in outs)))
            return None
        key = tuple(show(c) for c in combo)
        res[key if len(key) > 1 else key[0]] = v
    return res


def b(v):
    return bool(v.n)


def pair(v):
    return (bool(strip(v.items[0]).n), bool(strip(v.items[1]).n))
