"""Shared check context: obligations, violations, known findings, evidence."""
import json, os, time, sys

VERIF = os.path.dirname(os.path.dirname(os.path.abspath(__file__)))


class Ctx:
    def __init__(self, pid, tier, facts, st_facts, scan_info):
        self.pid = pid
        self.tier = tier
        self.facts = facts
        self.st = st_facts          # selftest crate facts
        self.scan_info = scan_info
        self.t0 = time.time()
        self.obls = []              # (rule, instance, ok, detail)
        self.viol = []              # dict(key, rule, instance, where, msg)
        self.skipped = []           # (rule, instance, reason)
        self.samples = []
        self.counts = {}
        self.nontrivial = set()
        self.exhaustive = True
        self.notes = []
        self.selftests = []         # (name, ok)
        self.analysed_fns = set()
        kf = os.path.join(VERIF, 'known_findings.json')
        self.known = []
        if os.path.exists(kf):
            self.known = [k for k in json.load(open(kf)).get('findings', []) if k.get('property') == pid]
        self.known_hit = []

    # ---- recording
    def ok(self, rule, instance, detail=None, nontrivial=True, sample=None):
        self.obls.append((rule, instance, True, detail))
        if nontrivial:
            self.nontrivial.add((rule, instance))
        if sample is not None and len(self.samples) < 40:
            self.samples.append(sample)

    def fail(self, rule, instance, where, msg, key=None):
        """a violated rule instance.  key: stable id without line numbers."""
        key = key or '%s|%s' % (rule, instance)
        self.obls.append((rule, instance, False, msg))
        self.nontrivial.add((rule, instance))
        for k in self.known:
            if k['key'] == key:
                self.known_hit.append((k, where, msg))
                return
        if any(v['key'] == key for v in self.viol):
            return
        self.viol.append({'key': key, 'rule': rule, 'instance': instance, 'where': where, 'msg': msg})

    def lost(self, rule, what):
        """fail closed: an anchor (function, type, impl) the rule is stated on is gone"""
        self.fail(rule, what, what, 'anchor not found in the analysed program (renamed/removed?) — rule cannot be '
                  'evaluated; failing closed', key='%s|anchor-lost|%s' % (rule, what))

    def undecided(self, rule, instance, reason):
        """claimed instance came out TOP: fail closed"""
        self.fail(rule, instance, instance, 'not statically decidable here: ' + reason,
                  key='%s|undecided|%s' % (rule, instance))

    def skip(self, rule, instance, reason):
        self.skipped.append((rule, instance, reason))

    def floor(self, rule, name, count, floor):
        self.counts[name] = count
        if count < floor:
            self.fail(rule, name, name, 'instance count %d below the confirmed floor %d (rule went blind)' % (count, floor),
                      key='%s|floor|%s' % (rule, name))
        else:
            self.ok(rule, 'floor:' + name, '%d >= %d' % (count, floor), nontrivial=False)

    def selftest(self, name, fired):
        """a seeded positive in the selftest crate must be reported by the rule"""
        self.selftests.append((name, bool(fired)))
        if not fired:
            self.fail('selftest', name, 'selftest/' + name, 'seeded violation was NOT detected: the rule is blind',
                      key='selftest|' + name)
        else:
            self.ok('selftest', name, 'seeded violation detected', nontrivial=False)

    def fn(self, path, rule=None):
        r = self.facts.fn(path)
        if r is None:
            self.lost(rule or 'anchor', path)
        else:
            self.analysed_fns.add(path)
        return r

    def loc(self, rec, line=None):
        f = rec['file']
        if not f.startswith('/'):
            f = os.path.join('/repo', f)
        return '%s:%d' % (f, line or rec['line'])

    # ---- output
    def finish(self, technique, explanation, assumptions):
        ev_dir = os.path.join(VERIF, 'evidence')
        os.makedirs(ev_dir, exist_ok=True)
        n = len(self.obls)
        disc = sum(1 for o in self.obls if o[2])
        wall = round(time.time() - self.t0 + self.scan_info.get('scan_s', 0), 2)
        for k, where, msg in self.known_hit:
            print('KNOWN-FINDING: property=%s %s [%s] %s' % (self.pid, k['key'], where, k.get('what_fails', msg)))
        viol_path = os.path.join(ev_dir, self.pid + '.viol.json')
        if self.viol:
            json.dump(self.viol, open(viol_path, 'w'), indent=1)
            for v in self.viol:
                print('  %s: rule=%s instance=%s: %s' % (v['where'], v['rule'], v['instance'], v['msg']))
            print('VIOLATION property=%s replay=%s' % (self.pid, viol_path))
        elif os.path.exists(viol_path):
            os.unlink(viol_path)
        byrule = {}
        for r, i, ok, d in self.obls:
            e = byrule.setdefault(r, [0, 0])
            e[0] += 1
            e[1] += int(ok)
        ev = {
            'property_id': self.pid,
            'tier': self.tier,
            'seed': int(os.environ.get('VERIF_SEED', '0') or 0),
            'level': 'other',
            'coverage': {
                'explanation': explanation,
                'technique': technique,
                'obligations': n,
                'discharged': disc,
                'evaluations': n,
                'distinct_nontrivial': len(self.nontrivial),
                'rule': 'one evaluation = one rule instance (a table entry, a path rule on one function, one impl, '
                        'one call site); non-trivial = the instance had at least one relevant site/entry (floors and '
                        'selftests are counted as trivial)',
                'samples': self.samples[:40] or [list(o[:2]) for o in self.obls[:10]],
                'exhaustive': bool(self.exhaustive),
                'per_rule': {r: {'instances': a, 'held': b} for r, (a, b) in sorted(byrule.items())},
                'counts': self.counts,
                'skipped_or_undecided': [list(s) for s in self.skipped][:60],
                'selftests': [{'name': a, 'fired': b} for a, b in self.selftests],
                'functions_analysed': len(self.analysed_fns),
                'functions_analysed_sample': sorted(self.analysed_fns)[:30],
                'facts': self.scan_info,
                'known_findings_matched': [k['key'] for k, _, _ in self.known_hit],
                'checker_cmd': './check %s --tier %s' % (self.pid, self.tier),
                'trusted_base': ['rustc nightly front end + mir_built', 'dfscan exporter', 'python analyses in rules/',
                                 'oracle models in oracles/'],
                'notes': self.notes,
            },
            'assumptions': assumptions,
            'wall_s': wall,
            'violations': len(self.viol),
        }
        tmp = os.path.join(ev_dir, self.pid + '.json.tmp')
        json.dump(ev, open(tmp, 'w'), indent=1, default=str)
        os.replace(tmp, os.path.join(ev_dir, self.pid + '.json'))
        print('%s %s: %d rule instances, %d held, %d violations, %d known findings, %d skipped  (%.1fs)' % (
            self.pid, self.tier, n, disc, len(self.viol), len(self.known_hit), len(self.skipped), wall))
        return 1 if self.viol else 0
