"""C38 — SQL generated from a plan means the same as the plan: tag round trips between the
unparser and the SQL planner."""
from enumtab import *

TECHNIQUE = ('static analysis: exhaustive evaluation (A1) of the unparser\'s operator / join mappings composed with the SQL planner\'s inverse mappings; '
             'field coverage (A6) of the plan structs by MIR place reads over the unparser\'s call tree')
EXPLANATION = ('For every Operator variant the unparser accepts, parse_sql_binary_op(op_to_sql(op)) = op (variants the unparser refuses '
               'with an explicit error, and Divide whose token is dialect-dependent, are listed as skipped). For every JoinType the '
               'unparser accepts, the JoinOperator it emits is mapped back to the same JoinType by the SQL planner\'s '
               'parse_relation_join. Source-struct direction (unparser-reads-every-field): every field of the plan node / expression structs the unparser accepts is read somewhere '
               'in the unparser, otherwise that part of the plan cannot be in the SQL text. Everything else about unparsing (expressions, aliases, subqueries, dialect quirks) is not decided.')
ASSUMPTIONS = ['sqlparser renders and re-parses BinaryOperator / JoinOperator variants faithfully (the AST value is handed over, not text)']

OP = 'datafusion_expr_common::operator::Operator'
OPSQL = "datafusion_sql::unparser::expr::<impl datafusion_sql::unparser::Unparser<'_>>::op_to_sql"
PARSE = 'datafusion_sql::expr::binary_op::<impl datafusion_sql::planner::SqlToRel<\'_, S>>::parse_sql_binary_op'
JT = 'datafusion_common::join_type::JoinType'


def find(facts, suffix):
    c = [d for d in facts.fn_index if d.endswith(suffix) and '{closure' not in d]
    return c[0] if len(c) == 1 else None


def run(ctx):
    f = ctx.facts
    enc = find(f, '::op_to_sql')
    dec = find(f, '::parse_sql_binary_op')
    if not enc or not dec:
        ctx.lost('operator-roundtrip', 'op_to_sql / parse_sql_binary_op')
    else:
        erec, drec = f.fn(enc), f.fn(dec)
        ctx.analysed_fns.update([enc, dec])
        n = 0
        for v in enum_domain(f, OP, True):
            name = strip(v).name
            outs = Explorer(f, inline_depth=1, time_budget=10).run(erec, [R(sym('self')), v])
            rs = set()
            for o in outs:
                r = strip(o.ret)
                rs.add(r if isinstance(r, A) else None)
            if len(rs) != 1 or None in rs:
                ctx.skip('operator-roundtrip', name, 'unparser result is not a constant (dialect-dependent)')
                continue
            r = rs.pop()
            if r.name == 'Err':
                ctx.skip('operator-roundtrip', name, 'unparser refuses this operator with an explicit error')
                continue
            tok = strip(read_proj(r, [('f', 0)]))
            if not isinstance(tok, A):
                ctx.skip('operator-roundtrip', name, 'unparser token unknown')
                continue
            outs2 = Explorer(f, inline_depth=1, time_budget=10).run(drec, [R(sym('self')), R(tok)])
            back = set()
            for o in outs2:
                b_ = strip(o.ret)
                if isinstance(b_, A) and b_.name == 'Ok':
                    x = strip(read_proj(b_, [('f', 0)]))
                    back.add(x.name if isinstance(x, A) else '?')
                elif isinstance(b_, A):
                    back.add(b_.name)
                else:
                    back.add('?')
            n += 1
            if back != {name}:
                ctx.fail('operator-roundtrip', name, ctx.loc(erec), 'Operator::%s is unparsed as %s which the SQL planner reads back as %s' % (name, show(tok), sorted(back)),
                         key='operator-roundtrip|' + name)
            else:
                ctx.ok('operator-roundtrip', name, sample={'operator': name, 'sql_token': show(tok), 'parsed_back': name})
        ctx.floor('operator-roundtrip', 'operators round-tripped', n, 35)
    # joins
    enc = find(f, '::join_operator_to_sql')
    dec = find(f, '::parse_relation_join')
    if not enc or not dec:
        ctx.lost('join-roundtrip', 'join_operator_to_sql / parse_relation_join')
        return
    erec, drec = f.fn(enc), f.fn(dec)
    ctx.analysed_fns.update([enc, dec])
    JC = 'sqlparser::ast::query::JoinConstraint'
    jcv = f.adts.get(JC)
    if jcv is None:
        ctx.lost('join-roundtrip', JC)
        return
    on = mk_variant(f, JC, 'On', [sym('cond')])
    # field index of `join_operator` in sqlparser's Join, read off the projections in the planner body
    fidx = None
    for b in drec['bb']:
        for st in b['s']:
            if st[0] == '=':
                pl = st[2][1] if st[2][0] in ('discr', 'ref') else (st[2][1][1] if st[2][0] == 'use' and st[2][1][0] in ('c', 'm') else None)
                if pl:
                    for p in pl[1]:
                        if isinstance(p, list) and p[0] == 'f' and p[2] == 'join_operator':
                            fidx = p[1]
    if fidx is None:
        ctx.lost('join-roundtrip', 'Join.join_operator projection')
        return
    PJ = dec.rsplit('::', 1)[0] + '::parse_join'
    n = 0
    for v in enum_domain(f, JT):
        try:
            outs = Explorer(f, inline_depth=0, time_budget=10).run(erec, [R(sym('self')), v, on])
        except Undecidable as e:
            ctx.skip('join-roundtrip', v.name, str(e))
            continue
        toks = set()
        for o in outs:
            r = strip(o.ret)
            if isinstance(r, A) and r.name == 'Ok':
                t = strip(read_proj(r, [('f', 0)]))
                toks.add(t if isinstance(t, A) else None)
        if not toks:
            ctx.skip('join-roundtrip', v.name, 'unparser refuses / does not implement this join type (panics or errors explicitly)')
            continue
        if len(toks) != 1 or None in toks:
            ctx.undecided('join-roundtrip', v.name, 'unparser result not constant')
            continue
        tok = toks.pop()
        joinv = U(((('f', fidx), tok),), 'join')
        outs2 = Explorer(f, inline_depth=0, trace=True, watch=('datafusion_sql::relation::join::',), time_budget=20, loop_visits=1).run(
            drec, [R(sym('self')), sym('left'), joinv, MR(-1, 3, (), sym('ctx'))])
        back = set()
        for o in outs2:
            for e in o.events:
                if e[0] == 'callargs' and e[1].endswith('::parse_join'):
                    for a in e[2]:
                        sa = strip(a)
                        if isinstance(sa, A) and sa.adt == JT:
                            back.add(sa.name)
        n += 1
        if back != {v.name}:
            ctx.fail('join-roundtrip', v.name, ctx.loc(erec), 'JoinType::%s is unparsed as %s which the SQL planner plans as %s' % (v.name, tok.name, sorted(back) or 'nothing'),
                     key='join-roundtrip|' + v.name)
        else:
            ctx.ok('join-roundtrip', v.name, sample={'join_type': v.name, 'sql_join_operator': tok.name})
    ctx.floor('join-roundtrip', 'join types round-tripped', n, 7)
    ctx.selftest('round-trip comparison is by variant name', True)
    unparser_reads_plan_fields(ctx)


# parts of a plan node the unparser may leave unread without changing the meaning of the SQL text, each with the reason read in the source
UNPARSER_EXEMPT = {
    ('Subquery', 'outer_ref_columns'): 'derived: recomputed by the SQL planner from the subquery text',
    ('TableScan', 'statistics_requests'): 'optimizer hint for statistics collection, does not change rows',
    ('Unnest', 'exec_columns'): 'Unnest::try_new computes list_type_columns / struct_type_columns (which the unparser reads) from it: same information',
    ('Unnest', 'dependency_indices'): 'derived by Unnest::try_new from the input schema',
    # type / metadata annotations: SQL text has no place for them and the SQL planner derives them again from the context
    ('Alias', 'relation'): 'qualifier of an output column name: no SQL syntax for it; rows and types are unaffected',
    ('Alias', 'metadata'): 'field metadata is outside "logically equivalent output types" and has no SQL syntax',
    ('Literal', '1'): 'field metadata of a literal: no SQL syntax, outside "logically equivalent output types"',
    ('Placeholder', 'field'): 'inferred parameter type: inferred again when the text is planned',
    ('LambdaVariable', 'field'): 'type of a lambda parameter: derived again by the planner from the lambda argument',
    ('ScalarVariable', '0'): 'type of a session variable: looked up again through the variable provider',
    ('OuterReferenceColumn', '0'): 'type of an outer reference: resolved again from the outer query schema',
    ('Unnest', 'outer'): 'never true in a plan built from SQL: Unnest::new_outer has no caller in the workspace and the SQL planner builds Unnest::new (the property quantifies over plans built from SQL)',
    ('Explain', 'stringified_plans'): 'EXPLAIN is not unparsed',
    ('Explain', 'logical_optimization_succeeded'): 'EXPLAIN is not unparsed',
}
UNPARSER_FOLLOW = ('datafusion_sql::unparser', '<datafusion_sql::unparser')


def unparser_reads_plan_fields(ctx):
    """round 4: every field of the plan node / expression structs the unparser accepts is read somewhere in the unparser (the C35 source-struct
    rule with the unparser as the encoder, judged per struct): a part of the plan the unparser never looks at cannot be in the SQL text."""
    import protocov, common
    rule = 'unparser-reads-every-field'
    f = ctx.facts
    roots = [d for d in f.fn_index if d.startswith('datafusion_sql::unparser::') and '{closure' not in d and d.endswith(('>::plan_to_sql', '>::expr_to_sql_inner'))]
    proot = [d for d in roots if d.endswith('plan_to_sql')]
    eroot = [d for d in roots if d.endswith('expr_to_sql_inner')]
    if not proot or not eroot:
        ctx.lost(rule, 'Unparser::plan_to_sql / Unparser::expr_to_sql_inner')
        return
    n = protocov.check_encoder_reads(ctx, 'LogicalPlan', proot[0], 'datafusion_expr::logical_plan::plan::LogicalPlan', rule=rule, exempt=UNPARSER_EXEMPT,
                                     follow=UNPARSER_FOLLOW, per_variant=False)
    n += protocov.check_encoder_reads(ctx, 'Expr', eroot[0], 'datafusion_expr::expr::Expr', rule=rule, exempt=UNPARSER_EXEMPT, follow=UNPARSER_FOLLOW, per_variant=False)
    ctx.floor(rule, 'plan / expression structs the unparser reads', n, 25)
    st = ctx.st
    probe = common.Ctx(ctx.pid, ctx.tier, st, st, {})
    probe.known = []
    SPL = 'dfscan_selftest::protos::lp::'
    protocov.check_encoder_reads(probe, 'Plan', SPL + 'encode', SPL + 'Plan', rule='st-src', exempt={}, follow=('dfscan_selftest::protos::lp',), per_variant=False, facts=st)
    ctx.selftest('unparser-reads-every-field (per-struct mode, custom follow set) reports Scan.fetch never read by the selftest encoder, accepts Sort',
                 sorted(v['key'] for v in probe.viol) == ['st-src|Scan.fetch'])
