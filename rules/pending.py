"""A4 — a hand-written poll body may answer Pending only if something will wake the task again.
On every path that constructs Poll::Pending, before the construction, the path must have
 (a) observed the Pending variant of a Poll produced by an inner poll call (delegation: the inner future registered the waker), or
 (b) handed out the task's waker (Waker::clone of cx.waker(), wake_by_ref, AtomicWaker::register, a register_waker helper), or
 (c) consumed tokio coop budget (poll_proceed / cooperative wrappers), which re-schedules the task.
Otherwise the task parks forever ("Pending out of thin air")."""
from traces import *
import C53

POLL = 'core::task::poll::Poll'
WAKE = ('::wake_by_ref', '::wake', 'Waker as core::clone::Clone>::clone', 'AtomicWaker::register', '::register_waker', 'poll_proceed',
        'coop::poll_proceed', '::register')


INSPECT = ('core::task::poll::Poll::<T>::is_pending', 'core::task::poll::Poll::<T>::is_ready')

# poll bodies whose Pending is justified by a data-dependent fact the path analysis cannot see (each read in the source)
ACCEPTED = {
    '<datafusion_execution::async_stream::Emit as core::future::future::Future>::poll':
        'generator protocol: the first poll of Emit suspends the generator on purpose; the enclosing AsyncStream::poll_next returns Ready(Some(v)) for the value just '
        'placed in the slot, so the consumer polls again by itself (documented on Emitter::emit)',
    '<datafusion_physical_plan::union::CombinedRecordBatchStream as futures_core::stream::Stream>::poll_next':
        'loop-remainder idiom: Pending is answered only when entries remain after the loop, and an entry remains only if its poll in this call returned Pending '
        '(ready entries return early, finished ones are removed)',
    'datafusion_physical_plan::sorts::merge::SortPreservingMergeStream::<C>::initialize_all_partitions':
        'loop-remainder idiom: a partition stays in uninitiated_partitions only if maybe_poll_stream returned Pending for it in this call',
}


def is_wake(name):
    return any(w in name for w in WAKE) and ('Waker' in name or 'waker' in name or 'poll_proceed' in name)


def constructs_pending(rec):
    return any(st[0] == '=' and st[2][0] == 'agg' and st[2][1][0] == 'adt' and st[2][1][1] == POLL and st[2][1][3] == 'Pending'
               for b in rec['bb'] if not b.get('cu') for st in b['s'])


def candidates(facts, in_scope):
    out = []
    for c in sorted(set(facts.constructors.get(POLL, []))):
        if not in_scope(c):
            continue
        for i in range(len(facts.fn_index[c])):
            if constructs_pending(facts.fn(c, i)):
                out.append((c, i))
    return out


def check_fn(facts, d, which=0):
    """(n_pending_paths, problems)"""
    rec = facts.fn(d, which)

    def keep(e):
        if e[0] == 'variant':
            return e[2] == POLL
        if e[0] == 'agg':
            return e[1] == POLL
        if e[0] == 'callargs':
            return is_wake(e[1]) or e[1] in INSPECT
        return e[0] == 'loopcut'
    try:
        outs = run_traces(facts, rec, C53.fn_args(rec), inline_depth=0, loop_visits=2, time_budget=60, budget=4000000, try_tags=True, keep=keep, kill_dead=True)
    except Undecidable as e:
        return -1, [str(e)]
    n = 0
    bad = 0
    for o in outs:
        evs = list(o.events)
        for k, e in enumerate(evs):
            if e[0] == 'agg' and e[1] == POLL and e[2] == 'Pending':
                n += 1
                before = evs[:k]
                deleg = any(x[0] == 'variant' and x[2] == POLL and x[3] == 'Pending' for x in before)
                woke = any(x[0] == 'callargs' and is_wake(x[1]) for x in before)
                # the result of an inner poll was inspected with is_pending()/is_ready() (join!-style combinators, AsyncStream)
                insp = any(x[0] == 'callargs' and x[1] in INSPECT for x in before)
                if not (deleg or woke or insp):
                    bad += 1
    problems = []
    if bad:
        problems.append('%d of %d paths that answer Poll::Pending neither saw an inner poll return Pending nor handed out / woke the task waker before: '
                        'nothing will poll this future again' % (bad, n))
    return n, problems


def sweep(ctx, rule, in_scope, accepted=ACCEPTED, floor=None):
    f = ctx.facts
    accepted = accepted or {}
    n = 0
    for d, i in candidates(f, in_scope):
        k, problems = check_fn(f, d, i)
        ctx.analysed_fns.add(d)
        if k < 0:
            ctx.undecided(rule, d, problems[0])
            continue
        n += 1
        if problems and d in accepted:
            ctx.ok(rule, d, 'accepted: ' + accepted[d], nontrivial=False)
        elif problems:
            rec = f.fn(d, i)
            ctx.fail(rule, d, ctx.loc(rec), problems[0], key='%s|%s' % (rule, d))
        else:
            ctx.ok(rule, d, sample={'fn': d, 'pending_paths': k} if n <= 8 else None)
    if floor:
        ctx.floor(rule, 'poll bodies that construct Poll::Pending', n, floor)
    return n
