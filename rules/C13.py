"""C13 — group key interning: agreement of the operations that reset a group-key store (one clause)."""

TECHNIQUE = ('static analysis: per impl of GroupValues, the set of self fields written (assigned or mutably borrowed, local helper methods followed) '
             'by emit() vs clear_shrink() vs intern(), compared as sibling implementations of "reset the store"')
EXPLANATION = ('Every implementation of GroupValues (6 today: primitive, boolean, bytes, bytes-view, multi-column, row-backed) keeps its keys, '
               'its group count and its special groups (NULL group) in fields. emit(EmitTo::All) and clear_shrink() both leave the store '
               'empty, so they must reset the same state: every field that emit() writes and that intern() advances must also be written by '
               'clear_shrink(). A field that clear forgets (a group counter, the id of the NULL group) makes the next intern hand out ids that '
               'do not start at the current group count and makes len() report groups that no longer exist — the statement\'s "ids from the '
               'current group count upward" and "count equals the number of live keys". This rule found clear_shrink forgetting num_groups '
               '(GroupValuesBytes, GroupValuesBytesView) and null_group (GroupValuesPrimitive) on the pinned tree (repaired by a fix commit). '
               'Which ids are handed out, renumbering after emit-first-n and equality of keys are value-level and not decided.')
ASSUMPTIONS = ['a field counts as written when it is assigned or mutably borrowed in the method or in a method of the same type it calls (depth 2)',
               'scratch buffers that only intern() touches are not state (they are not written by emit)']

GV = 'datafusion_physical_plan::aggregates::group_values::GroupValues'


def writes(rec, selfloc=1):
    out = set()
    for b in rec['bb']:
        if b.get('cu'):
            continue
        for st in b['s']:
            if st[0] != '=':
                continue
            loc, projs = st[1]
            if loc == selfloc:
                for p in projs:
                    if isinstance(p, list) and p[0] == 'f':
                        out.add(p[2])
                        break
            rv = st[2]
            if rv[0] == 'ref' and len(rv) > 2 and rv[2] and rv[1][0] == selfloc:
                for p in rv[1][1]:
                    if isinstance(p, list) and p[0] == 'f':
                        out.add(p[2])
                        break
    return out


def tree_writes(f, fn, owner):
    w, seen = set(), set()
    base = owner.split('<')[0]

    def go(d, depth):
        if d in seen or d not in f.fn_index:
            return
        seen.add(d)
        for i in range(len(f.fn_index[d])):
            r = f.fn(d, i)
            if 'bb' in r and r['argc'] >= 1 and base in r['locals'][1][0]:
                w.update(writes(r))
        if depth < 2:
            for c in f.callees.get(d, []):
                if c.startswith(base + '::') or c.startswith(base + '<') or c.startswith('<' + base) or c.startswith(d + '::{closure'):
                    go(c, depth + 1)
        for c in f.fn_index:
            if c.startswith(d + '::{closure'):
                go(c, depth)
    go(fn, 0)
    return w


def check(ctx, trait, rule='reset-agreement', methods=('intern', 'emit', 'clear_shrink')):
    f = ctx.facts
    n = 0
    for i in f.impls_of(trait):
        owner = i.get('self_adt')
        items = dict((x[0], x[1]) for x in i['items'])
        if not owner or not all(m in items for m in methods):
            continue
        n += 1
        wi, we, wc = (tree_writes(f, items[m], owner) for m in methods)
        ctx.analysed_fns.update(items[m] for m in methods)
        missing = sorted((we & wi) - wc)
        inst = owner.rsplit('::', 1)[-1]
        if missing:
            rec = f.fn(items[methods[2]])
            ctx.fail(rule, inst, ctx.loc(rec), '%s() resets %s, which %s() advances, but %s() never writes %s: after a clear the store still carries it '
                     '(stale group count / stale special group id)' % (methods[1], missing, methods[0], methods[2], missing),
                     key='%s|%s|%s' % (rule, owner, ','.join(missing)))
        else:
            ctx.ok(rule, inst, sample={'store': owner, 'state_fields': sorted(we & wi), 'written_by_clear': sorted(wc)})
    return n


def run(ctx):
    n = check(ctx, GV)
    ctx.floor('reset-agreement', 'impls of GroupValues', n, 6)
    import common
    st = ctx.st
    probe = common.Ctx(ctx.pid, ctx.tier, st, st, {})
    probe.known = []
    check(probe, 'dfscan_selftest::groups::Store', rule='st')
    keys = [v['key'] for v in probe.viol]
    ctx.selftest('reset-agreement detects a clear that forgets the NULL group (Bad), accepts Good (its scratch buffer is not state)',
                 any('groups::Bad' in k for k in keys) and not any('groups::Good' in k for k in keys))
