"""C36 — physical plans survive serialization unchanged: enum tag round trips of the operators'
own try_to_proto / try_from_proto, plus the standalone conversion pairs."""
from tagtab import *
import protocov
import srcfields

TECHNIQUE = ('static analysis: exhaustive evaluation (A1) of enum conversions; inline enum mappings extracted from try_to_proto / try_from_proto by forcing the domain of the wire-typed local; '
             'field coverage (A6) of wire messages and of the encoded structs (MIR place reads over the encoder-side call tree, parameter provenance of constructor stores)')
EXPLANATION = ('For every physical operator that has both try_to_proto and try_from_proto and a field whose type is a fieldless enum '
               'with a same-named protobuf enum (AggregateExec.mode, HashJoinExec.{join_type, mode, null_equality}, NestedLoopJoinExec, '
               'SortMergeJoinExec, SymmetricHashJoinExec, AnalyzeExec.format): the encoder is explored with the field set to each variant '
               '(observing the protobuf-typed values it produces) and the decoder with the protobuf-typed local forced to each wire '
               'variant (observing the domain-typed values it produces); decode(encode(v)) = v for every variant. The standalone '
               'domain<->protobuf conversion pairs used by physical plans (JoinSide, JoinType, NullEquality, ...) are checked as in C35. '
               'Field-level agreement: in every try_to_proto of an operator / physical expression / data source (60, closures included) no field '
               'of a generated message it builds is filled with a constant, None or an empty container, and every field of those messages is '
               'read in the call tree of the matching try_from_proto (58 pairs) — a field silently dropped on either side makes two '
               'different plans identical on the wire. The few (message, field) exceptions are frozen in rules/protocov.py, each with the '
               'reason read in the source. Optional wire fields: a decoder may read an optional field through unwrap_or* (collapsing absent and '
               'default) only if every encoder always writes Some(..) there; an encoder that passes a domain Option through needs a decoder that '
               'keeps the distinction. Source-struct direction (operator-encoder-reads-every-option): for each of the 60 structs that have a try_to_proto, a field '
               'that a public constructor/setter (of the struct or of its builder struct) fills from one of its parameters (configuration, as opposed to derived caches/schemas/metrics) and that '
               'some non-test call site sets from a computed value must be read on the encoder side (try_to_proto, the proto crates, From<&S> conversions, '
               'accessors they call; dyn accessor calls resolved to the impls) — otherwise the option is not on the wire. '
               'Whether the value written is the RIGHT value, and equality of whole plans, are not decided.')
ASSUMPTIONS = ['a protobuf enum value travels as the i32 of the same variant (prost)']


def is_conv_std(name):
    return ' as core::convert::From<' in name or ' as core::convert::TryFrom<' in name or ' as core::convert::Into<' in name or \
        name.endswith(('::from_i32', '::as_str_name', '::from_str_name'))


def candidates(facts):
    protos = {}
    for p in facts.adts:
        if '::generated::' in p and fieldless(facts, p):
            protos.setdefault(p.rsplit('::', 1)[-1], []).append(p)
    out = []
    for d in sorted(facts.fn_index):
        if d.endswith('::try_from_proto') and '{closure' not in d:
            owner = d.rsplit('::', 1)[0]
            adt = facts.adts.get(owner)
            if not adt or adt['kind'] != 'struct':
                continue
            enc = [e for e in facts.fn_index if e.endswith('::try_to_proto') and ('<%s as ' % owner) in e]
            if not enc:
                continue
            for k, fl in enumerate(adt['variants'][0]['fields']):
                t = fieldless(facts, fl[1])
                if t and t.rsplit('::', 1)[-1] in protos:
                    out.append((owner, k, fl[0], t, protos[t.rsplit('::', 1)[-1]], enc[0], d))
    return out


def variant_of(v):
    v = strip(v)
    return v.name if isinstance(v, A) and not v.fields else None


def inline_maps(ctx, facts, cand, rule='inline-enum-roundtrip'):
    owner, fidx, fname, D, Ps, enc, dec = cand
    short = '%s.%s' % (owner.rsplit('::', 1)[-1], fname)
    erec, drec = facts.fn(enc), facts.fn(dec)
    Ps = [P for P in Ps if any(l[0] == P or P in l[0] for l in drec['locals'])] or Ps
    if not any(any(l[0] == P for l in drec['locals']) for P in Ps):
        return None, 'decoder has no local of the wire enum type (conversion happens in a helper)'
    ctx.analysed_fns.add(enc)
    ctx.analysed_fns.add(dec)
    # the enum mapping may sit in a private helper next to the operator (`fn explain_format_to_proto(f: &ExplainFormat) -> i32`):
    # module-local functions whose signature mentions the domain or the wire enum are explored inline like the std conversions
    module = owner.rsplit('::', 1)[0] + '::'

    def is_conv(name, _std=is_conv_std):
        if _std(name):
            return True
        if not name.startswith(module) or name not in facts.fn_index:
            return False
        sig = facts.fn_index[name][0][8] if len(facts.fn_index[name][0]) > 8 else ()
        if not any(D in t or any(P in t for P in Ps) for t in sig):
            return False
        r = facts.fn(name)
        # small private conversion helpers only: inlining the operator's own large methods (which also mention the enum) buys nothing
        # (and plain getters such as `pub fn format(&self) -> &ExplainFormat`)
        return r is not None and r['argc'] <= 2 and len(r['bb']) <= 60 and (not r.get('pub') or (r['argc'] == 1 and len(r['bb']) <= 12))
    # encoder: D -> set of P variants observed
    encmap = {}
    for v in enum_domain(facts, D):
        try:
            ex = Explorer(facts, inline_depth=0, observe_types=tuple(Ps), inline_pred=is_conv, budget=3000000, time_budget=40, loop_visits=1)
            outs = ex.run(erec, [R(U(((('f', fidx), v),), 'self'))] + [TOP] * (erec['argc'] - 1))
        except Undecidable as e:
            return None, 'encoder: ' + str(e)
        ws = set()
        for o in outs:
            for n, x in o.obs:
                w = variant_of(x)
                if w:
                    ws.add(w)
            for e in o.events:
                if e[0] == 'agg' and e[1] in Ps:
                    ws.add(e[2])
        encmap[v.name] = ws
    # decoder: forced P -> set of D variants observed
    decmap = {}
    for P in Ps:
        try:
            ex = Explorer(facts, inline_depth=0, force_type={P: enum_domain(facts, P)}, observe_types=(P, D), inline_pred=is_conv,
                          budget=4000000, time_budget=60, loop_visits=1)
            outs = ex.run(drec, [TOP] * drec['argc'])
        except Undecidable as e:
            return None, 'decoder: ' + str(e)
        for o in outs:
            pv = [variant_of(x) for n, x in o.obs if n.startswith(P + '#')]
            dv = [variant_of(x) for n, x in o.obs if n.startswith(D + '#')]
            pv = [x for x in pv if x]
            dv = [x for x in dv if x]
            if len(set(pv)) == 1 and dv:
                decmap.setdefault(pv[0], set()).update(dv)
    return (encmap, decmap), None


def run(ctx):
    f = ctx.facts
    n = 0
    for cand in candidates(f):
        owner, fidx, fname, D, Ps, enc, dec = cand
        inst = '%s.%s' % (owner.rsplit('::', 1)[-1], fname)
        maps, err = inline_maps(ctx, f, cand)
        if maps is None:
            ctx.skip('inline-enum-roundtrip', inst, 'not extractable: ' + err)
            continue
        encmap, decmap = maps
        if not any(encmap.values()) or not decmap:
            ctx.skip('inline-enum-roundtrip', inst, 'encoder/decoder do not expose a wire-typed value (enc=%s dec=%s)' % (bool(any(encmap.values())), bool(decmap)))
            continue
        n += 1
        problems = []
        for v, ws in encmap.items():
            if len(ws) != 1:
                problems.append('%s encodes to %s' % (v, sorted(ws) or 'nothing'))
                continue
            w = next(iter(ws))
            back = decmap.get(w, set())
            if back != {v}:
                problems.append('%s encodes to %s which decodes to %s' % (v, w, sorted(back) or 'nothing'))
        if problems:
            ctx.fail('inline-enum-roundtrip', inst, ctx.loc(f.fn(enc)), '; '.join(problems), key='inline-enum-roundtrip|' + inst)
        else:
            ctx.ok('inline-enum-roundtrip', inst, sample={'operator_field': inst, 'encoder': enc, 'decoder': dec, 'table': {k: sorted(v)[0] for k, v in encmap.items()}})
    ctx.floor('inline-enum-roundtrip', 'operator enum fields round-tripped', n, 5)
    PHYS = ('JoinSide', 'JoinType', 'NullEquality', 'CompressionTypeVariant', 'CsvQuoteStyle', 'TimeUnit', 'IntervalUnit')
    bad, m = check_pairs(ctx, f, 'enum-tag-roundtrip', select=lambda dom, wire: dom.rsplit('::', 1)[-1] in PHYS)
    ctx.floor('enum-tag-roundtrip', 'standalone conversion pairs used by physical plans', m, 6)
    # field-level agreement of every operator's own encoder and decoder
    protocov.check(ctx)
    protocov.check_default_collapse(ctx, floor=2)
    # the other direction: every configuration field of an operator / expression / source / sink that the engine sets is read by its encoder
    srcfields.check(ctx, floor_structs=50, floor_primary=100)
    import common
    st = ctx.st
    probe = common.Ctx(ctx.pid, ctx.tier, st, st, {})
    probe.known = []
    protocov.check(probe, 'st-enc', 'st-dec', genp='dfscan_selftest::protos::generated::', const_ok={}, unread_ok={}, floors=None)
    protocov.check_default_collapse(probe, 'st-collapse', genp='dfscan_selftest::protos::generated::')
    keys = [v['key'] for v in probe.viol]
    ctx.selftest('default-collapse rule detects unwrap_or_default on an Option the encoder passes through (TopkNode.descending), accepts one the encoder always fills (TopkNode.nullable)',
                 'st-collapse|TopkNode.descending' in keys and 'st-collapse|TopkNode.nullable' not in keys)
    ctx.selftest('coverage rules detect an encoder that writes None for a field (BadEncLimit) and a decoder that ignores a field (BadDecSort), accept GoodLimit',
                 any(k.startswith('st-enc|') and 'BadEncLimit' in k for k in keys) and any(k.startswith('st-dec|') and 'BadDecSort' in k for k in keys)
                 and not any('GoodLimit' in k for k in keys))
    before = len(probe.viol)
    srcfields.check(probe, st, rule='st-opt', encoder_crates=('dfscan_selftest::nothing::',))
    got = sorted(v['key'] for v in probe.viol[before:])
    ctx.selftest('operator-encoder-reads-every-option fires on a setter-stored, planner-configured field the encoder never reads (BadScan.array_mode) and on one that '
                 'reaches the operator through a separate builder struct (Report.level); silent on a constant-only option, a derived field, a twin of a read '
                 'parameter, an option only copied from another instance and a builder field the encoder reads', got == ['st-opt|BadScan.array_mode', 'st-opt|Report.level'])
    b, _ = check_pairs(probe, st, 'st')
    ctx.selftest('round-trip rule detects a decoder that maps RightMark to LeftMark', b >= 1)
