"""A3 — guard liveness over event traces.  A guard is born at a lock()/read()/write()
call (the rule's model hook tags the result `guard(<mutex place>)`), dies at the Drop
terminator of the local that holds it or at core::mem::drop(guard)."""
from traces import *

LOCK_FNS = ('::lock', '::read', '::write', '::try_lock', '::lock_arc')


def is_lock_call(name):
    return ('lock_api::mutex::Mutex' in name or 'lock_api::rwlock::RwLock' in name or
            'std::sync::poison::mutex::Mutex' in name or 'std::sync::poison::rwlock::RwLock' in name or
            'std::sync::mutex::Mutex' in name or 'std::sync::rwlock::RwLock' in name or
            'tokio::sync::mutex::Mutex' in name) and name.endswith(LOCK_FNS)


def lock_hook(ex, name, deff, args):
    if is_lock_call(name):
        return sym('guard(%s)' % (tag_of(args[0]) or '?'))
    return None


def lock_class(ga):
    """protected type from the generic args of the lock call, e.g. '[RawMutex, SpillPoolShared]'"""
    inner = ga.strip('[]')
    parts = split_top(inner)
    return parts[-1].strip() if parts else '?'


def split_top(s):
    out, depth, cur = [], 0, ''
    for ch in s:
        if ch in '<([':
            depth += 1
        elif ch in '>)]':
            depth -= 1
        if ch == ',' and depth == 0:
            out.append(cur)
            cur = ''
        else:
            cur += ch
    if cur.strip():
        out.append(cur)
    return out


def guard_timeline(o):
    """yields (event, live) where live = list of (guard_tag, class) live BEFORE the event;
    also returns nesting edges (outer_class, inner_class, line)"""
    live = []
    edges = []
    steps = []
    for e in o.events:
        steps.append((e, list(live)))
        if e[0] == 'callargs' and is_lock_call(e[1]):
            cls = lock_class(e[4] if len(e) > 4 else '')
            tag = 'guard(%s)' % (tag_of(e[2][0]) or '?')
            for (t, c) in live:
                edges.append((c, cls, e[3]))
            live.append((tag, cls))
        elif e[0] == 'callargs' and e[1] == 'core::mem::drop':
            t = tag_of(e[2][0])
            for i in range(len(live) - 1, -1, -1):
                if live[i][0] == t:
                    del live[i]
                    break
        elif e[0] == 'drop':
            for i in range(len(live) - 1, -1, -1):
                if live[i][0] == e[1]:
                    del live[i]
                    break
    return steps, edges, live
