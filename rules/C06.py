"""C06 — grouped aggregation is exact under every strategy: the stage algebra."""
from enumtab import *

TECHNIQUE = 'static analysis: exhaustive table extraction from MIR (A1) over AggregateMode; composition law with the partial/final combining rule; mode-dispatch reachability'
EXPLANATION = ('AggregateMode::input_mode / output_mode are extracted for all six modes and checked against the stage semantics of the '
               'mode names (first-stage modes consume raw rows, second-stage modes consume partial state; Partial* modes emit state, '
               'Final*/Single* modes emit values). CombinePartialFinalAggregate: for every (outer, inner) mode pair for which the rule '
               'builds a merged AggregateExec, input_mode(merged) = input_mode(inner) and output_mode(merged) = output_mode(outer). '
               'Dispatch: in every function of physical-plan/aggregates that can call both update_batch and merge_batch (or both state '
               'and evaluate), exploring the function per mode shows update_batch only under Raw input, merge_batch only under Partial '
               'input, state only under Partial output, evaluate only under Final output. Group keys, spilling, TopK and emission order '
               'are not decided.')
ASSUMPTIONS = ['mode names carry their documented meaning (table on AggregateMode)']

AG = 'datafusion_physical_plan::aggregates::'
MODE = AG + 'AggregateMode'
IN = MODE + '::input_mode'
OUT = MODE + '::output_mode'
RULE = '<datafusion_physical_optimizer::combine_partial_final_agg::CombinePartialFinalAggregate as datafusion_session::physical_optimizer::PhysicalOptimizerRule>::optimize::{closure#0}'


def expected(name):
    first = name in ('Partial', 'Single', 'SinglePartitioned')
    out_partial = name.startswith('Partial')
    return ('Raw' if first else 'Partial', 'Partial' if out_partial else 'Final')


def mode_tables(ctx, f):
    tabs = {}
    for fn in (IN, OUT):
        rec = ctx.fn(fn, 'mode-tables')
        if rec is None:
            return None
        t = {}
        for v in enum_domain(f, MODE, True):
            outs = Explorer(f).run(rec, [v])
            vals = set(strip(o.ret) for o in outs)
            if len(vals) != 1 or not isinstance(next(iter(vals)), A):
                ctx.undecided('mode-tables', '%s(%s)' % (fn, strip(v).name), 'not constant')
                return None
            t[strip(v).name] = next(iter(vals)).name
        tabs[fn] = t
    return tabs


def with_mode_env(f, rec, modeval, spill=0):
    """arguments for rec such that the place named `mode` (arg, self field or closure capture) is modeval"""
    args = []
    for i in range(rec['argc']):
        ty, nm = rec['locals'][i + 1]
        base = ty.lstrip('&').replace('mut ', '')
        if nm == 'mode' or base == MODE:
            args.append(R(modeval) if ty.startswith('&') else modeval)
            continue
        if ty == 'bool' and nm and 'spill' in nm:
            args.append(I(spill))
            continue
        adt = f.adts.get(base)
        v = sym(nm or 'a%d' % i)
        if adt and adt['kind'] == 'struct':
            fi = [k for k, fl in enumerate(adt['variants'][0]['fields']) if fl[0] == 'mode']
            if fi:
                ch = [(('f', fi[0]), modeval)]
                for k, fl in enumerate(adt['variants'][0]['fields']):
                    sub = f.adts.get(fl[1])
                    if sub and sub['kind'] == 'struct':
                        sch = [(('f', k2), I(spill)) for k2, fl2 in enumerate(sub['variants'][0]['fields']) if fl2[1] == 'bool' and ('spill' in fl2[0] or 'merging' in fl2[0])]
                        if sch:
                            ch.append((('f', k), U(tuple(sch), (nm or 'self') + '.' + fl[0])))
                v = U(tuple(sorted(ch, key=lambda kv: repr(kv[0]))), nm or 'self')
        if i == 0 and rec['k'] == 'closure':
            ch = []
            for cname, place in rec.get('caps', []):
                if cname == 'mode':
                    fidx = [p for p in place[1] if isinstance(p, list) and p[0] == 'f'][0][1]
                    byref = place[1][-1] == '*'
                    ch.append((('f', fidx), R(modeval) if byref else modeval))
            v = U(tuple(ch), 'env')
        if ty.startswith('&mut') or ty.startswith('core::pin::Pin<&mut'):
            args.append(MR(-1, i, (), v))
        elif ty.startswith('&'):
            args.append(R(v))
        else:
            args.append(v)
    return args



def filter_reaches_accumulator(ctx, f, trait_prefix, in_scope, rule='filter-reaches-accumulator', methods=(('update_batch', 3), ('convert_to_state', 2))):
    """At every engine call site of GroupsAccumulator::update_batch / convert_to_state the opt_filter argument is a value computed by the
    caller, never the constant None: the FILTER (WHERE ..) of an aggregate must reach the accumulator on every aggregation strategy
    (hash, skip-partial conversion, ...), otherwise rows the filter rejects are counted on that strategy only."""
    import protocov
    n = 0
    for m, idx in methods:
        callee = trait_prefix + m
        for c in sorted(set(f.callers.get(callee, []))):
            if not in_scope(c):
                continue
            for i in range(len(f.fn_index[c])):
                rec = f.fn(c, i)
                if 'bb' not in rec:
                    continue
                dm, mr = protocov._defs(rec)
                for b in rec['bb']:
                    t = b['t']
                    if t[0] == 'call' and not b.get('cu') and callee in (t[1].get('def'), t[1].get('res')) and idx < len(t[2]):
                        n += 1
                        k = protocov._klass(dm, mr, t[2][idx])
                        inst = '%s -> %s' % (c, m)
                        ctx.analysed_fns.add(c)
                        if k != 'value':
                            ctx.fail(rule, inst, ctx.loc(rec, t[5] if len(t) > 5 else None), 'the opt_filter argument of %s is the constant %s here: an aggregate with FILTER (WHERE ..) counts '
                                     'the rows its filter rejects whenever this code path is taken' % (m, k), key='%s|%s' % (rule, inst))
                        else:
                            ctx.ok(rule, inst, sample={'caller': c, 'method': m} if n <= 6 else None)
    return n

def run(ctx):
    f = ctx.facts
    tabs = mode_tables(ctx, f)
    if tabs:
        for m in tabs[IN]:
            ei, eo = expected(m)
            if (tabs[IN][m], tabs[OUT][m]) != (ei, eo):
                ctx.fail('mode-tables', m, ctx.loc(f.fn(IN)), 'AggregateMode::%s has input/output mode (%s,%s); its stage semantics is (%s,%s)' % (m, tabs[IN][m], tabs[OUT][m], ei, eo),
                         key='mode-tables|' + m)
            else:
                ctx.ok('mode-tables', m, sample={'mode': m, 'input': tabs[IN][m], 'output': tabs[OUT][m]})
    # composition law
    rec = ctx.fn(RULE, 'combine-composition')
    if rec and tabs:
        TRY = AG + 'AggregateExec::try_new'
        merged = 0
        for outer in enum_domain(f, MODE):
            for inner in enum_domain(f, MODE):
                order = []

                def hook(ex, name, deff, args, outer=outer, inner=inner, order=order):
                    if name == AG + 'AggregateExec::mode':
                        t = tag_of(args[0]) or '?'
                        if t not in order:
                            order.append(t)
                        return R(outer if order.index(t) == 0 else inner)
                    if name.endswith('can_combine'):
                        return I(1)
                    return None
                try:
                    outs = Explorer(f, inline_depth=0, trace=True, tag_named=True, model_hook=hook, watch=(TRY,), time_budget=20).run(rec, [TOP, sym('plan')])
                except Undecidable as e:
                    ctx.undecided('combine-composition', '(%s,%s)' % (outer.name, inner.name), str(e))
                    continue
                ms = set()
                for o in outs:
                    for e in o.events:
                        if e[0] == 'callargs' and e[1] == TRY:
                            mv = strip(e[2][0])
                            ms.add(mv.name if isinstance(mv, A) else '?')
                inst = 'combine(%s over %s)' % (outer.name, inner.name)
                for m in ms:
                    merged += 1
                    if m == '?' or tabs[IN].get(m) != tabs[IN][inner.name] or tabs[OUT].get(m) != tabs[OUT][outer.name]:
                        ctx.fail('combine-composition', inst, ctx.loc(rec), 'merged into %s whose (input,output) modes (%s,%s) differ from input of %s and output of %s' % (
                            m, tabs[IN].get(m), tabs[OUT].get(m), inner.name, outer.name), key='combine-composition|' + inst)
                    else:
                        ctx.ok('combine-composition', inst, sample={'outer': outer.name, 'inner': inner.name, 'merged': m})
                if not ms:
                    ctx.ok('combine-composition', inst, nontrivial=False)
        ctx.floor('combine-composition', 'mode pairs merged by the rule', merged, 2)
    # dispatch
    PAIRS = ((('update_batch',), ('merge_batch',), IN, 'Raw', 'Partial'), (('evaluate',), ('state',), OUT, 'Final', 'Partial'))
    nd = 0
    for d, cs in sorted(f.callees.items()):
        if not (d.startswith(AG) or d.startswith('<' + AG)):
            continue
        names = set(c.rsplit('::', 1)[-1] for c in cs if c.rsplit('::', 1)[0].endswith(('Accumulator', 'Accumulator>')))
        for a, b_, tabfn, wa, wb in PAIRS:
            if not (set(a) & names and set(b_) & names):
                continue
            rec = f.fn(d)
            if rec is None or rec.get('coroutine'):
                continue
            nd += 1
            for mv in enum_domain(f, MODE):
              for spill in (0, 1):
                try:
                    outs = Explorer(f, inline_depth=1, inline_only=(MODE,), time_budget=20, budget=400000).run(rec, with_mode_env(f, rec, mv, spill))
                except Undecidable as e:
                    ctx.undecided('mode-dispatch', '%s[%s]' % (d, mv.name), str(e))
                    continue
                called = set()
                for o in outs:
                    for e in o.events:
                        if e[0] == 'call' and e[1].rsplit('::', 1)[0].endswith(('Accumulator', 'Accumulator>')):
                            called.add(e[1].rsplit('::', 1)[-1])
                want = tabs[tabfn][mv.name] if tabs else None
                inst = '%s[%s,%s]' % (d.replace(AG, ''), mv.name, 'spilling/merging' if spill else 'in-memory')
                wrong = []
                # in memory the dispatch follows the mode exactly; while spilling/merging spilled state the operator may fall back to
                # the state-level methods (merge_batch / state) but never to the value-level ones
                if want == wa and set(b_) & called and not spill:
                    wrong = sorted(set(b_) & called)
                if want == wb and set(a) & called:
                    wrong = sorted(set(a) & called)
                if wrong:
                    ctx.fail('mode-dispatch', inst, ctx.loc(rec), 'under mode %s (%s %s) the accumulator method(s) %s are reachable' % (
                        mv.name, 'input' if tabfn == IN else 'output', want, wrong), key='mode-dispatch|' + inst)
                elif not ((set(a) | set(b_)) & called):
                    ctx.undecided('mode-dispatch', inst, 'neither %s nor %s reached' % (a, b_))
                else:
                    ctx.ok('mode-dispatch', inst, sample={'fn': d, 'mode': mv.name, 'spilling': bool(spill), 'calls': sorted(called & (set(a) | set(b_)))})
    ctx.floor('mode-dispatch', 'dispatch functions', nd, 3)
    # the FILTER clause reaches the accumulator at every engine call site
    nf = filter_reaches_accumulator(ctx, f, 'datafusion_expr_common::groups_accumulator::GroupsAccumulator::',
                                    lambda c: (c[1:] if c.startswith('<') else c).startswith('datafusion_physical_plan'))
    ctx.floor('filter-reaches-accumulator', 'engine call sites of GroupsAccumulator::update_batch / convert_to_state', nf, 5)
    import common
    st = ctx.st
    probe = common.Ctx(ctx.pid, ctx.tier, st, st, {})
    probe.known = []
    filter_reaches_accumulator(probe, st, 'dfscan_selftest::aggs::GroupsAcc::', lambda c: True, rule='st-filter')
    keys = [v['key'] for v in probe.viol]
    ctx.selftest('filter rule reports convert_to_state(.., None) (bad_convert) and accepts the forwarded filter (good_convert)',
                 any('bad_convert' in k for k in keys) and not any('good_convert' in k for k in keys))
    # selftest: expected() vs a wrong table
    ctx.selftest('stage-semantics check rejects Final declared as Raw input', expected('Final') != ('Raw', 'Final'))
