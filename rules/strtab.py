"""Display / FromStr tables of fieldless enums (string-tag round trips)."""
from enumtab import *


def display_string(facts, drec, v):
    """the set of strings Display::fmt can write for value v (None if not a single literal)"""
    try:
        outs = Explorer(facts, inline_depth=2, watch=('core::fmt::',), time_budget=5).run(drec, [v, MR(-1, 1, (), sym('f'))])
    except Undecidable:
        return None
    strs = set()
    for o in outs:
        lit = []
        disp = []
        templ = []
        other = False
        for e in o.events:
            if e[0] != 'callargs':
                continue
            short = e[1].rsplit('::', 1)[-1]
            if short in ('write_str', 'pad') and 'Formatter' in e[1]:
                s_ = strip(e[2][1])
                lit.append(s_.s if isinstance(s_, S) else None)
            elif short == 'from_str' and 'Arguments' in e[1]:
                s_ = strip(e[2][0])
                lit.append(s_.s if isinstance(s_, S) else None)
            elif short == 'new_display':
                s_ = strip(e[2][0])
                disp.append(s_.s if isinstance(s_, S) else None)
            elif short == 'new' and 'Arguments' in e[1]:
                templ.append(tag_of(e[2][0]))
            elif short in ('new_debug', 'new_lower_hex', 'write_char'):
                other = True
        if other or None in lit or None in disp:
            return None
        if len(lit) == 1 and not disp:
            strs.add(lit[0])
        elif len(disp) == 1 and not lit and templ in (['const:&[u8; 2]'], ['fmt:{}']):
            strs.add(disp[0])       # write!(f, "{x}") with a 2-byte template = a single placeholder
        else:
            return None
    return strs if len(strs) == 1 else None


def str_impls(facts):
    fs, disp = {}, {}
    for i in facts.impls:
        if i.get('trait') == 'core::str::traits::FromStr' and i.get('self_adt'):
            fs[i['self_adt']] = dict((x[0], x[1]) for x in i['items'])
        if i.get('trait') == 'core::fmt::Display' and i.get('self_adt'):
            disp[i['self_adt']] = dict((x[0], x[1]) for x in i['items'])
    return fs, disp


def roundtrip(facts, adt, from_fn, disp_fn):
    """{variant: (string or None, [from_str results])}"""
    drec, frec = facts.fn(disp_fn), facts.fn(from_fn)
    res = {}
    for v in enum_domain(facts, adt, True):
        name = strip(v).name
        ss = display_string(facts, drec, v)
        if not ss:
            res[name] = (None, None)
            continue
        s0 = next(iter(ss))
        try:
            o2 = Explorer(facts, inline_depth=2, time_budget=5).run(frec, [R(S(s0))])
            back = sorted(set(show(o.ret) for o in o2))
        except Undecidable:
            back = None
        res[name] = (s0, back)
    return res
