"""C16 — spill channels deliver every batch and terminate: protocol clauses of spill_pool.rs."""
from locks import *

TECHNIQUE = 'static analysis: exhaustive path enumeration over MIR with symbolic guards and places; lock-discipline, hand-off pairing, pending-needs-waker and publication-order rules over event traces'
EXPLANATION = ('All functions of physical-plan/src/spill/spill_pool.rs are path-enumerated from MIR (guards, field writes, wakes, '
               'queue operations as ordered events). Rules: (1) lock discipline — no guard of SpillPoolShared and of '
               'ActiveSpillFileShared is ever live at the same time, in any function of the module; (2) no lost wake-up — every '
               'path of SpillPoolFile::poll_next / SpillPoolReader::poll_next that returns Pending registered the waker through a '
               'live guard or delegates to an inner poll; (3) writer-count pairing — remaining_writer_count is written only in '
               'new_sink (+1) and Drop for SpillPoolSink (-1); the last-writer path finalises every taken open file and wakes the '
               'pool reader; (4) file hand-off pairing — in push_batch, once a file has left open_write_files (or was published '
               'in files), every exit incl. error exits either re-queues it or marks it writer_finished and wakes its reader; (5) '
               'progress publication — batches_written is bumped only after append_batch and flush and is followed by a wake, and a new file pushed into `files` is followed by the pool-level wake on every path. '
               'Exactly-once delivery and FIFO order of values are not decided.')
# path rules cut loops after a bounded number of iterations: complete over rule instances, not over all unrollings
EXHAUSTIVE = False
ASSUMPTIONS = ['loops are unrolled twice', 'the waker stored by register_waker is the one woken by wake() (field identity is checked by name)']

SP = 'datafusion_physical_plan::spill::spill_pool::'
POOL = SP + 'SpillPoolShared'
FILE = SP + 'ActiveSpillFileShared'
PUSH = SP + 'SpillPoolSink::push_batch'
DROP = '<datafusion_physical_plan::spill::spill_pool::SpillPoolSink as core::ops::drop::Drop>::drop'
NEW_SINK = SP + 'SpillPoolWriter::new_sink'
POLL_FILE = '<datafusion_physical_plan::spill::spill_pool::SpillPoolFile as futures_core::stream::Stream>::poll_next'
POLL_READER = '<datafusion_physical_plan::spill::spill_pool::SpillPoolReader as futures_core::stream::Stream>::poll_next'


def args_for(rec):
    out = []
    for i in range(rec['argc']):
        t, n = rec['locals'][i + 1]
        nm = n or ('a%d' % i)
        if t.startswith('&mut') or t.startswith('core::pin::Pin<&mut'):
            out.append(MR(-1, i, (), sym(nm)))
        elif t.startswith('&'):
            out.append(R(sym(nm)))
        else:
            out.append(sym(nm))
    return out


def explore(facts, rec, prefix, depth=1, **kw):
    return run_traces(facts, rec, args_for(rec), hook=lock_hook, inline_depth=depth, inline_only=(prefix,), budget=800000,
                      time_budget=60, **kw)


def module_fns(facts, prefix, file_suffix):
    for d, i, e in facts.all_fn_entries():
        if e[5].endswith(file_suffix) and e[4] in ('fn', 'assoc_fn', 'closure'):
            yield d, i


def check_lock_discipline(ctx, facts, prefix, file_suffix, classes, rule='lock-discipline'):
    bad = 0
    n = 0
    for d, i in sorted(set(module_fns(facts, prefix, file_suffix))):
        rec = facts.fn(d, i)
        if rec.get('coroutine'):
            continue
        try:
            outs = explore(facts, rec, prefix)
        except Undecidable as e:
            ctx.undecided(rule, d, str(e))
            bad += 1
            continue
        ctx.analysed_fns.add(d)
        locks = 0
        viol = None
        for o in outs:
            steps, edges, live_end = guard_timeline(o)
            locks += sum(1 for e in o.events if e[0] == 'callargs' and is_lock_call(e[1]))
            for a, b_, line in edges:
                if a.rsplit('::', 1)[-1] in classes and b_.rsplit('::', 1)[-1] in classes:
                    viol = (a, b_, line)
        if locks:
            n += 1
            if viol:
                bad += 1
                ctx.fail(rule, d, ctx.loc(rec, viol[2]), 'acquires %s while a guard of %s is live (the module never holds both)' % (
                    viol[1].rsplit('::', 1)[-1], viol[0].rsplit('::', 1)[-1]), key='%s|%s' % (rule, d))
            else:
                ctx.ok(rule, d, sample={'fn': d, 'paths': len(outs), 'lock_acquisitions_over_paths': locks})
    return bad, n


def file_events(o):
    """compact view of the events relevant to the hand-off protocol"""
    out = []
    for e in o.events:
        if e[0] == 'callargs':
            n = e[1]
            short = n.rsplit('::', 1)[-1]
            a0 = tag_of(e[2][0]) if e[2] else None
            if 'VecDeque' in n and short in ('pop_front', 'push_back', 'push_front', 'pop_back'):
                fld = (a0 or '?').rsplit('.', 1)[-1]
                out.append((short, fld, e[3]))
            elif n.endswith('ActiveSpillFileShared::wake'):
                out.append(('file_wake', a0, e[3]))
            elif n.endswith('SpillPoolShared::wake'):
                out.append(('pool_wake', a0, e[3]))
            elif short in ('append_batch', 'flush', 'finish') and 'spill' in n.lower():
                out.append((short, a0, e[3]))
            elif short == 'register_waker':
                out.append(('register_waker', a0, e[3]))
            elif short.startswith('poll_next'):
                out.append(('inner_poll', a0, e[3]))
            elif n == 'core::mem::take':
                out.append(('take', (a0 or '?').rsplit('.', 1)[-1], e[3]))
        elif e[0] == 'assign':
            fld = e[1].rsplit('.', 1)[-1]
            if fld in ('writer_finished', 'batches_written', 'remaining_writer_count', 'estimated_size'):
                out.append(('set_' + fld, show(e[2]), e[3]))
    return out


def check_handoff(ctx, facts, fnpath, prefix, rule='handoff-pairing'):
    rec = facts.fn(fnpath)
    if rec is None:
        ctx.lost(rule, fnpath)
        return 1
    ctx.analysed_fns.add(fnpath)
    outs = explore(facts, rec, prefix)
    bad = 0
    taken_paths = 0
    seen_keys = set()
    for o in outs:
        fe = file_events(o)
        kinds = [k for k, _, _ in fe]
        # the file is in the writer's hands after pop_front(open_write_files) or push_back(files)
        t = None
        # a pop_front whose result was seen to be None took nothing (`match q.pop_front() { Some(f) => .., None => create .. }`)
        empty_pops = {str(norm_tag(e[1])).split('@', 1)[1].split('.', 1)[0].split('(', 1)[0] for e in o.events
                      if e[0] == 'variant' and e[3] == 'None' and str(norm_tag(e[1])).startswith('call:pop_front@')}
        for idx, (k, fld, line) in enumerate(fe):
            if (k == 'pop_front' and fld == 'open_write_files' and str(line) not in empty_pops) or (k == 'push_back' and fld == 'files'):
                t = idx
                break
        if t is None:
            continue
        taken_paths += 1
        after = fe[t + 1:]
        requeued = any(k == 'push_back' and fld == 'open_write_files' for k, fld, _ in after)
        fin = [i for i, (k, v, _) in enumerate(after) if k == 'set_writer_finished' and v == '1']
        sealed = bool(fin) and any(k == 'file_wake' for k, _, _ in after[fin[0]:])
        rk = ret_kind(o)
        # a new file entering `files` is a state change a pool-level reader may be parked on: it is followed by the pool wake on
        # every path (a wake that depends on an earlier snapshot of the queue is a lost wake-up)
        for idx2, (k, fld, line) in enumerate(fe):
            if k == 'push_back' and fld == 'files':
                inst3 = 'push_batch[new file published, %s exit]' % rk
                if not any(k2 == 'pool_wake' for k2, _, _ in fe[idx2 + 1:]):
                    if ('nowake', inst3) not in seen_keys:
                        seen_keys.add(('nowake', inst3))
                        bad += 1
                        ctx.fail('publication-order', inst3, ctx.loc(rec, line), 'a new spill file is pushed into `files` but the pool-level reader is not woken afterwards on this '
                                 'path: a reader that found the queue empty and parked on the pool waker sleeps although a file with data exists', key='publication-order|newfile|' + inst3)
                elif ('wake', inst3) not in seen_keys:
                    seen_keys.add(('wake', inst3))
                    ctx.ok('publication-order', inst3)
        sig = '%s exit after %s' % (rk, '>'.join(k for k in kinds[t:] if k not in ('file_wake', 'pool_wake')))
        if sig in seen_keys:
            continue
        seen_keys.add(sig)
        inst = 'push_batch[%s]' % sig
        if not requeued and not sealed:
            bad += 1
            ctx.fail(rule, inst, ctx.loc(rec), 'the spill file was taken out of open_write_files / published, but this exit neither puts it back '
                     'nor marks it writer_finished and wakes its reader: a caught-up reader waits forever', key='%s|%s' % (rule, inst))
        elif requeued and sealed:
            bad += 1
            ctx.fail(rule, inst, ctx.loc(rec), 'file is both sealed and re-queued for writing', key='%s|both|%s' % (rule, inst))
        else:
            ctx.ok(rule, inst, sample={'fn': fnpath, 'exit': rk, 'events': ['%s(%s)' % (k, v) for k, v, _ in fe]})
        # publication order
        if 'set_batches_written' in kinds:
            bi = kinds.index('set_batches_written')
            pre = kinds[:bi]
            post = kinds[bi:]
            inst2 = 'push_batch[publication %s]' % sig
            if 'append_batch' not in pre or 'flush' not in pre:
                bad += 1
                ctx.fail('publication-order', inst2, ctx.loc(rec), 'batches_written is bumped before append_batch and flush succeeded', key='publication-order|' + inst2)
            elif 'file_wake' not in post:
                bad += 1
                ctx.fail('publication-order', inst2, ctx.loc(rec), 'batches_written is bumped but the file reader is not woken afterwards', key='publication-order|wake|' + inst2)
            else:
                ctx.ok('publication-order', inst2)
    if taken_paths < 4:
        bad += 1
        ctx.fail(rule, 'push_batch[paths]', ctx.loc(rec), 'expected several paths that take a file, found %d' % taken_paths, key=rule + '|paths')
    return bad


def check_pending(ctx, facts, fnpath, prefix, rule='pending-needs-waker'):
    rec = facts.fn(fnpath)
    if rec is None:
        ctx.lost(rule, fnpath)
        return 1
    ctx.analysed_fns.add(fnpath)
    outs = explore(facts, rec, prefix)
    bad = 0
    npend = 0
    seen = set()
    for o in outs:
        if ret_kind(o) != 'Pending':
            continue
        npend += 1
        fe = file_events(o)
        kinds = [k for k, _, _ in fe]
        reg = [(k, v) for k, v, _ in fe if k == 'register_waker']
        delegated = 'inner_poll' in kinds
        sig = '>'.join(kinds[-4:])
        if sig in seen:
            continue
        seen.add(sig)
        inst = '%s[Pending after %s]' % (fnpath.split(' as ')[0].rsplit('::', 1)[-1], sig or 'nothing')
        if reg:
            if not all((v or '').startswith('guard(') for _, v in reg):
                bad += 1
                ctx.fail(rule, inst, ctx.loc(rec), 'waker registered outside the lock of the state it waits on (%s)' % reg, key='%s|%s' % (rule, inst))
            else:
                ctx.ok(rule, inst, sample={'fn': fnpath, 'pending_via': 'register_waker under ' + str(reg[-1][1])})
        elif delegated:
            ctx.ok(rule, inst, sample={'fn': fnpath, 'pending_via': 'delegation to inner poll'})
        else:
            bad += 1
            ctx.fail(rule, inst, ctx.loc(rec), 'returns Poll::Pending without registering the waker and without an inner poll that could have: nobody will wake this task',
                     key='%s|%s' % (rule, inst))
    if npend == 0:
        bad += 1
        ctx.fail(rule, fnpath + '[paths]', ctx.loc(rec), 'no Pending-returning path found (anchor changed?)', key=rule + '|nopaths|' + fnpath)
    return bad


def check_writer_count(ctx):
    rule = 'writer-count-pairing'
    f = ctx.facts
    writers = {}
    for d, i in sorted(set(module_fns(f, SP, 'spill/spill_pool.rs'))):
        rec = f.fn(d, i)
        if rec.get('coroutine'):
            continue
        try:
            outs = explore(f, rec, SP, depth=0)
        except Undecidable:
            continue
        for o in outs:
            for k, v, line in file_events(o):
                if k == 'set_remaining_writer_count':
                    writers.setdefault(d, set()).add(v.split('(')[0].lstrip('?'))
    want = {NEW_SINK: {'add'}, DROP: {'sub'}}
    for d, ops in sorted(writers.items()):
        if want.get(d) != ops:
            ctx.fail(rule, d, ctx.loc(f.fn(d)), 'remaining_writer_count is modified here (%s); only new_sink may increment and Drop for SpillPoolSink may decrement it' % sorted(ops),
                     key='%s|%s' % (rule, d))
        else:
            ctx.ok(rule, d, sample={'fn': d, 'op': sorted(ops)})
    for d in want:
        if d not in writers:
            ctx.fail(rule, d, d, 'expected writer-count update not found', key='%s|missing|%s' % (rule, d))
    # last-writer path of Drop
    rec = ctx.fn(DROP, rule)
    if rec:
        ex_outs = run_traces(f, rec, args_for(rec), hook=lock_hook, inline_depth=1, inline_only=(SP,), observe=('is_last_writer',), force_domain={'is_last_writer': BOOLS},
                             budget=800000)
        n_last = 0
        for o in ex_outs:
            obs = dict(o.obs)
            il = strip(obs.get('is_last_writer', TOP))
            fe = file_events(o)
            kinds = [k for k, _, _ in fe]
            if isinstance(il, I) and il.n == 1:
                n_last += 1
                inst = 'drop[last writer: %s]' % '>'.join(kinds)
                problems = []
                if 'pool_wake' not in kinds:
                    problems.append('the pool reader is not woken when the last writer goes away')
                if 'take' in kinds:
                    nfile_locks = sum(1 for e in o.events if e[0] == 'callargs' and is_lock_call(e[1]) and lock_class(e[4]).endswith('ActiveSpillFileShared'))
                    nfin = sum(1 for k, v, _ in fe if k == 'set_writer_finished' and v == '1')
                    nwake = kinds.count('file_wake')
                    if not (nfile_locks == nfin == nwake):
                        problems.append('not every taken open file is marked writer_finished and woken (locked %d, finished %d, woken %d)' % (nfile_locks, nfin, nwake))
                if problems:
                    ctx.fail(rule, inst, ctx.loc(rec), '; '.join(problems), key='%s|%s' % (rule, inst))
                else:
                    ctx.ok(rule, inst)
            elif isinstance(il, I) and il.n == 0:
                if any(k in ('pool_wake', 'set_writer_finished', 'take') for k in kinds):
                    ctx.fail(rule, 'drop[not last writer]', ctx.loc(rec), 'a non-last writer finalises files or signals EOF', key=rule + '|notlast')
        if n_last == 0:
            ctx.fail(rule, 'drop[paths]', ctx.loc(rec), 'no last-writer path found', key=rule + '|nolast')


def run(ctx):
    f = ctx.facts
    bad, n = check_lock_discipline(ctx, f, SP, 'spill/spill_pool.rs', ('SpillPoolShared', 'ActiveSpillFileShared'))
    ctx.floor('lock-discipline', 'functions of spill_pool.rs that take a lock', n, 6)
    check_handoff(ctx, f, PUSH, SP)
    check_pending(ctx, f, POLL_FILE, SP)
    check_pending(ctx, f, POLL_READER, SP)
    check_writer_count(ctx)
    # selftests: pre-fix push_batch shape, a Pending out of thin air, both locks held
    import common
    st = ctx.st
    probe = common.Ctx(ctx.pid, ctx.tier, st, st, {})
    probe.known = []
    STP = 'dfscan_selftest::pool::'
    b1 = check_handoff(probe, st, STP + 'Sink::bad_push_batch', STP, rule='st')
    ctx.selftest('hand-off pairing detects `?` exits that leave the popped file neither re-queued nor finished', b1 > 0)
    b2 = check_pending(probe, st, STP + 'FileStream::bad_poll_next', STP, rule='st2')
    ctx.selftest('pending-needs-waker detects Pending without registration', b2 > 0)
    b3, _ = check_lock_discipline(probe, st, STP, 'pool.rs', ('PoolShared', 'FileShared'), rule='st3')
    ctx.selftest('lock discipline detects both locks held', b3 > 0)
