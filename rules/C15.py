"""C15 — exchange channels never deadlock or lose a wake-up: protocol clauses of distributor_channels.rs."""
from locks import *
import C16

TECHNIQUE = 'static analysis: exhaustive path enumeration over MIR with symbolic guards/places; lock-order graph, pending-needs-waker-under-guard, taken-wakers-are-woken and sender-count pairing rules over event traces'
EXPLANATION = ('Every function of repartition/distributor_channels.rs is path-enumerated from MIR (module helpers inlined one level). '
               'Rules: (1) lock order — the only nesting of guards is Channel.state -> Gate.send_wakers; never the reverse, never two of '
               'one class; (2) no lost wake-up — every Pending return of SendFuture::poll / RecvFuture::poll pushed a clone of '
               'cx.waker() into a waker list reached through a guard that is still live at the push; (3) taken wakers are woken — every '
               'waker list moved out of shared state (take_recv_wakers, Option::take, drain) is iterated and each yielded element is '
               'woken; (4) state change => wake — pushing into an empty queue takes the receiver wakers; receiver drop takes the data and '
               'wakes the channel\'s blocked senders; (5) sender-count pairing — Clone increments and Drop decrements n_senders exactly '
               'once, recv_wakers is closed only after the decrement, and n_senders / empty_channels are modified nowhere else. '
               'Exactly-once/order of values and the empty_channels arithmetic under races are not decided.')
# path rules cut loops after a bounded number of iterations: complete over rule instances, not over all unrollings
EXHAUSTIVE = False
ASSUMPTIONS = ['loops unrolled twice', 'parking_lot guards are released at their Drop terminator / mem::drop']

DC = 'datafusion_physical_plan::repartition::distributor_channels::'
SEND_POLL = "<datafusion_physical_plan::repartition::distributor_channels::SendFuture<'_, T> as core::future::future::Future>::poll"
RECV_POLL = "<datafusion_physical_plan::repartition::distributor_channels::RecvFuture<'_, T> as core::future::future::Future>::poll"
S_CLONE = '<datafusion_physical_plan::repartition::distributor_channels::DistributionSender<T> as core::clone::Clone>::clone'
S_DROP = '<datafusion_physical_plan::repartition::distributor_channels::DistributionSender<T> as core::ops::drop::Drop>::drop'
R_DROP = '<datafusion_physical_plan::repartition::distributor_channels::DistributionReceiver<T> as core::ops::drop::Drop>::drop'
FILE = 'repartition/distributor_channels.rs'


def hook(ex, name, deff, args):
    r = lock_hook(ex, name, deff, args)
    if r is not None:
        return r
    if name.endswith('::waker') and 'core::task::wake::Context' in name:
        return R(sym('waker(cx)'))
    return None


def explore(facts, rec, prefix, depth=1, **kw):
    return run_traces(facts, rec, C16.args_for(rec), hook=hook, inline_depth=depth, inline_only=(prefix,), budget=800000,
                      time_budget=60, **kw)


def short_class(c):
    c = c.strip()
    if 'ChannelState' in c:
        return 'Channel.state'
    if 'Waker, usize' in c or 'FileShared' in c:
        return 'Gate.send_wakers'
    if 'PoolShared' in c:
        return 'Channel.state'
    return c


def contains_tag(v, tag):
    v0 = strip(v)
    if isinstance(v0, U):
        return v0.tag == tag
    if isinstance(v0, T):
        return any(contains_tag(x, tag) for x in v0.items)
    if isinstance(v0, A):
        return any(contains_tag(x, tag) for _, x in v0.fields)
    return False


def check_lock_order(ctx, facts, prefix, file_suffix, rule='lock-order'):
    bad = 0
    n = 0
    alledges = set()
    for d, i in sorted(set(C16.module_fns(facts, prefix, file_suffix))):
        rec = facts.fn(d, i)
        if rec.get('coroutine'):
            continue
        try:
            outs = explore(facts, rec, prefix)
        except Undecidable as e:
            ctx.undecided(rule, d, str(e))
            bad += 1
            continue
        ctx.analysed_fns.add(d)
        locks = 0
        problems = set()
        for o in outs:
            steps, edges, live_end = guard_timeline(o)
            locks += sum(1 for e in o.events if e[0] == 'callargs' and is_lock_call(e[1]))
            for a, b_, line in edges:
                ea, eb = short_class(lock_class_str(a)), short_class(lock_class_str(b_))
                alledges.add((ea, eb))
                if (ea, eb) != ('Channel.state', 'Gate.send_wakers'):
                    problems.add('%s acquired while %s is held (line %s); the documented order is Channel.state -> Gate.send_wakers' % (eb, ea, line))
        if locks:
            n += 1
            if problems:
                bad += 1
                ctx.fail(rule, d, ctx.loc(rec), '; '.join(sorted(problems)), key='%s|%s' % (rule, d))
            else:
                ctx.ok(rule, d, sample={'fn': d, 'paths': len(outs), 'lock_acquisitions_over_paths': locks})
    return bad, n, alledges


def lock_class_str(c):
    return c


def check_pending(ctx, facts, fnpath, prefix, rule='pending-needs-waker'):
    rec = facts.fn(fnpath)
    if rec is None:
        ctx.lost(rule, fnpath)
        return 1
    ctx.analysed_fns.add(fnpath)
    outs = explore(facts, rec, prefix)
    bad = 0
    npend = 0
    seen = set()
    for o in outs:
        if ret_kind(o) != 'Pending':
            continue
        npend += 1
        steps, edges, live_end = guard_timeline(o)
        okpush = None
        why = 'no waker is pushed into a waker list'
        for e, live in steps:
            if e[0] == 'callargs' and e[1].endswith('::push') and 'alloc::vec::Vec' in e[1] and len(e[2]) == 2:
                lst = tag_of(e[2][0]) or ''
                if contains_tag(e[2][1], 'waker(cx)'):
                    g = lst.split(')')[0] + ')' if lst.startswith('guard(') else None
                    if g and any(t == g for t, c in live):
                        okpush = (lst, g)
                    else:
                        why = 'the waker is pushed into %s which is not reached through a guard that is live at the push' % (lst or 'an unknown list')
        sig = okpush[0] if okpush else why
        if sig in seen:
            continue
        seen.add(sig)
        inst = '%s[Pending: %s]' % (fnpath.split(' as ')[0].rsplit('::', 1)[-1].split('<')[0], sig)
        if okpush:
            ctx.ok(rule, inst, sample={'fn': fnpath, 'waker_list': okpush[0], 'under_live_guard': okpush[1]})
        else:
            bad += 1
            ctx.fail(rule, inst, ctx.loc(rec), 'returns Poll::Pending but ' + why + ': the task may never be woken', key='%s|%s' % (rule, inst))
    if npend == 0:
        bad += 1
        ctx.fail(rule, fnpath + '[paths]', ctx.loc(rec), 'no Pending-returning path found (anchor changed?)', key=rule + '|nopaths|' + fnpath)
    return bad


def is_taker(facts, d):
    """a function of the module that hands a list of wakers to its caller (return type mentions Waker): the caller must wake them"""
    sg = facts.sig(d) if facts is not None else None
    return bool(sg) and 'core::task::wake::Waker' in sg[0]


def waker_list_takes(o, facts=None):
    """events that move a waker list out of shared state"""
    n = 0
    for e in o.events:
        if e[0] != 'callargs':
            continue
        nm = e[1]
        a0 = tag_of(e[2][0]) if e[2] else None
        if nm.endswith('ChannelState::<T>::take_recv_wakers') or nm.endswith('::bad_take_wakers') or \
                (facts is not None and nm in facts.fn_index and is_taker(facts, nm)):
            n += 1
        elif nm == 'core::option::Option::<T>::take' and a0 and ('wakers' in a0):
            n += 1
        elif nm.endswith('::drain') and a0 and 'wakers' in a0:
            n += 1
    return n


def check_taken_woken(ctx, facts, prefix, file_suffix, rule='taken-wakers-woken'):
    bad = 0
    n = 0
    for d, i in sorted(set(C16.module_fns(facts, prefix, file_suffix))):
        rec = facts.fn(d, i)
        if rec.get('coroutine') or d.endswith('take_recv_wakers') or is_taker(facts, d):
            continue      # a taker hands the list to its caller; the obligation is checked at its call sites
        try:
            outs = explore(facts, rec, prefix, no_inline=tuple(x for x in facts.fn_index if x.startswith(prefix) and is_taker(facts, x)))
        except Undecidable:
            continue
        worst = None
        has = False
        for o in outs:
            if any(e[0] == 'loopcut' for e in o.events):
                continue
            takes = waker_list_takes(o, facts)
            if not takes:
                continue
            has = True
            iters = [e for e in o.events if e[0] == 'callargs' and e[1].endswith('IntoIterator>::into_iter') or
                     (e[0] == 'callargs' and e[1].endswith('::into_iter'))]
            nexts = sum(1 for e in o.events if e[0] == 'callargs' and e[1].endswith('Iterator>::next') or (e[0] == 'callargs' and e[1].endswith('::next')))
            wakes = sum(1 for e in o.events if e[0] == 'callargs' and e[1] in ('core::task::wake::Waker::wake', 'core::task::wake::Waker::wake_by_ref'))
            # a wake_channel_senders style helper partitions and wakes inside: inlined at depth 1, so its loop is visible
            if len(iters) < takes:
                worst = 'a waker list is taken out of shared state (%d) but only %d list(s) are iterated: taken wakers are dropped without being woken' % (takes, len(iters))
            elif wakes < nexts - len(iters):
                worst = 'a taken waker list is iterated but not every yielded waker is woken (%d yielded, %d woken)' % (nexts - len(iters), wakes)
        if has:
            n += 1
            if worst:
                bad += 1
                ctx.fail(rule, d, ctx.loc(rec), worst, key='%s|%s' % (rule, d))
            else:
                ctx.ok(rule, d, sample={'fn': d})
    return bad, n


def atom(o, field):
    out = []
    for e in o.events:
        if e[0] == 'callargs' and is_atomic(e[1]) and atomic_op(e[1]) in ATOMIC_RMW:
            tg = tag_of(e[2][0]) or ''
            if tg.endswith(field):
                out.append((atomic_op(e[1]), show(e[2][1]), e[3]))
    return out


def run(ctx):
    f = ctx.facts
    bad, n, edges = check_lock_order(ctx, f, DC, FILE)
    ctx.floor('lock-order', 'functions of distributor_channels.rs that take a lock', n, 6)
    if ('Channel.state', 'Gate.send_wakers') not in edges:
        ctx.fail('lock-order', 'documented nesting', FILE, 'the documented nesting Channel.state -> Gate.send_wakers was not observed (analysis blind or code changed)',
                 key='lock-order|nesting-not-seen')
    check_pending(ctx, f, SEND_POLL, DC)
    check_pending(ctx, f, RECV_POLL, DC)
    b3, n3 = check_taken_woken(ctx, f, DC, FILE)
    ctx.floor('taken-wakers-woken', 'functions that take a waker list', n3, 4)
    # (4) state change => wake
    rec = ctx.fn(SEND_POLL, 'change-wakes')
    if rec:
        outs = explore(f, rec, DC, observe=('was_empty',), force_domain={'was_empty': BOOLS})
        seen = 0
        for o in outs:
            we = strip(dict(o.obs).get('was_empty', TOP))
            pushed = any(e[0] == 'callargs' and e[1].endswith('::push_back') for e in o.events)
            if pushed and isinstance(we, I) and we.n == 1:
                seen += 1
                took = any(e[0] == 'callargs' and e[1].endswith('take_recv_wakers') for e in o.events)
                if not took:
                    ctx.fail('change-wakes', 'SendFuture::poll[push into empty queue]', ctx.loc(rec), 'an element is pushed into an empty queue but the receiver wakers are not taken (receiver stays parked)',
                             key='change-wakes|send-empty')
        if seen:
            ctx.ok('change-wakes', 'SendFuture::poll[push into empty queue]', sample={'paths': seen})
        else:
            ctx.fail('change-wakes', 'SendFuture::poll[paths]', ctx.loc(rec), 'no push-into-empty path found', key='change-wakes|send-nopath')
    rec = ctx.fn(R_DROP, 'change-wakes')
    if rec:
        outs = explore(f, rec, DC)
        okk = True
        for o in outs:
            names = [e[1] for e in o.events if e[0] == 'callargs']
            took = [i for i, nm in enumerate(names) if nm == 'core::option::Option::<T>::take']
            woke = [i for i, nm in enumerate(names) if nm.endswith('Gate::wake_channel_senders')]
            if took and not (woke and woke[0] > took[0]):
                okk = False
        if okk:
            ctx.ok('change-wakes', 'DistributionReceiver::drop', sample={'paths': len(outs)})
        else:
            ctx.fail('change-wakes', 'DistributionReceiver::drop', ctx.loc(rec), 'the receiver closes the queue without waking the senders blocked on this channel',
                     key='change-wakes|recv-drop')
    # (5) sender count pairing
    rec = ctx.fn(S_CLONE, 'sender-count')
    if rec:
        outs = explore(f, rec, DC)
        okk = all([a[0] for a in atom(o, 'n_senders')] == ['fetch_add'] and atom(o, 'n_senders')[0][1] == '1' for o in outs)
        (ctx.ok if okk else ctx.fail)(*(('sender-count', 'Clone increments n_senders once') if okk else
                                        ('sender-count', 'Clone', ctx.loc(rec), 'Clone for DistributionSender does not increment n_senders exactly once', 'sender-count|clone')))
    rec = ctx.fn(S_DROP, 'sender-count')
    if rec:
        outs = explore(f, rec, DC)
        problems = []
        closing = 0
        nonclosing = 0
        for o in outs:
            if any(e[0] == 'loopcut' for e in o.events):
                continue
            ops = atom(o, 'n_senders')
            if [a[0] for a in ops] != ['fetch_sub'] or ops[0][1] != '1':
                problems.append('n_senders is not decremented exactly once by 1')
            names = [(e[1], tag_of(e[2][0]) if e[2] else None, e[3]) for e in o.events if e[0] == 'callargs']
            close = [i for i, (nm, a0, _) in enumerate(names) if nm == 'core::option::Option::<T>::take' and a0 and a0.endswith('recv_wakers')]
            dec = [i for i, (nm, a0, _) in enumerate(names) if is_atomic(nm) and atomic_op(nm) == 'fetch_sub']
            if close:
                closing += 1
                if not dec or dec[0] > close[0]:
                    problems.append('recv_wakers is closed before n_senders is decremented')
            else:
                nonclosing += 1
        if closing == 0 or nonclosing == 0:
            problems.append('expected a closing (last sender) and a non-closing path, found %d/%d' % (closing, nonclosing))
        if problems:
            ctx.fail('sender-count', 'Drop', ctx.loc(rec), '; '.join(sorted(set(problems))), key='sender-count|drop')
        else:
            ctx.ok('sender-count', 'Drop decrements once; closes recv_wakers only after the decrement', sample={'closing_paths': closing, 'other_paths': nonclosing})
    # (6) decisions taken under the channel lock must not depend on n_senders: senders decrement it BEFORE taking the lock,
    # so under the lock it is not synchronised with the queue state (check-then-act race)
    FROZEN_NS = {R_DROP: 'receiver is going away: a stale n_senders only leaves empty_channels one too high (gate stays open), never too low'}
    for d, i in sorted(set(C16.module_fns(f, DC, FILE))):
        rec = f.fn(d, i)
        if rec.get('coroutine'):
            continue
        try:
            outs = explore(f, rec, DC, depth=0)
        except Undecidable:
            continue
        hit = None
        for o in outs:
            steps, edges, live_end = guard_timeline(o)
            for e, live in steps:
                if e[0] == 'branch' and e[1] and 'n_senders' in e[1] and any(short_class(c) == 'Channel.state' for t, c in live):
                    hit = e[1]
        if hit:
            if d in FROZEN_NS:
                ctx.ok('count-under-lock', d, nontrivial=False, sample={'fn': d, 'frozen': FROZEN_NS[d]})
            else:
                ctx.fail('count-under-lock', d, ctx.loc(rec), 'a decision taken while Channel.state is locked depends on n_senders (%s), which senders change before they take that lock: '
                         'the empty_channels gate can be left one too low and block every sender' % hit[:80], key='count-under-lock|' + d)
    ctx.ok('count-under-lock', 'module scanned', nontrivial=False)
    # census
    allowed = {'n_senders': {S_CLONE, S_DROP}, 'empty_channels': {RECV_POLL, DC + 'Gate::decr_empty_channels'}}
    nw = 0
    for d, i in sorted(set(C16.module_fns(f, DC, FILE))):
        rec = f.fn(d, i)
        if rec.get('coroutine'):
            continue
        try:
            outs = explore(f, rec, DC, depth=0)
        except Undecidable:
            continue
        for fld in allowed:
            if any(atom(o, fld) for o in outs):
                nw += 1
                # a private helper all of whose callers are protocol functions of that counter is part of the protocol
                callers = set(f.callers_of(d))
                if d not in allowed[fld] and not (callers and callers <= allowed[fld]):
                    ctx.fail('who-may-write', '%s in %s' % (fld, d), ctx.loc(rec), '%s is modified outside its protocol functions' % fld, key='who-may-write|%s|%s' % (fld, d))
                else:
                    ctx.ok('who-may-write', '%s in %s' % (fld, d))
    ctx.floor('who-may-write', 'counter writers', nw, 4)
    # selftests on the seeded pool module
    import common
    st = ctx.st
    probe = common.Ctx(ctx.pid, ctx.tier, st, st, {})
    probe.known = []
    STP = 'dfscan_selftest::chan::'
    b1, _, _ = check_lock_order(probe, st, STP, 'chan.rs', rule='st')
    ctx.selftest('lock order detects send_wakers -> state inversion', b1 > 0)
    b2 = check_pending(probe, st, STP + 'Send::bad_poll', STP, rule='st2')
    ctx.selftest('pending rule detects waker pushed after the guard was released', b2 > 0)
    b3, _ = check_taken_woken(probe, st, STP, 'chan.rs', rule='st3')
    ctx.selftest('taken-wakers rule detects a taken list that is dropped', b3 > 0)
