"""C34 — equal scalars have equal hashes (one clause of five)."""
from enumtab import *

TECHNIQUE = 'static analysis: per-variant payload-field coverage of Hash::hash vs PartialEq::eq extracted from MIR projections'
EXPLANATION = ('For every ScalarValue variant, the payload fields read by `impl Hash for ScalarValue` are a subset of the payload fields '
               'read by `impl PartialEq for ScalarValue` (a component that is hashed but not compared makes equal scalars hash '
               'differently), every variant that eq handles is handled by hash, and the float variants go through bit normalisation '
               '(to_bits / to_ne_bytes / total_cmp) on both sides. The other four clauses of C34 (array round trips, casts, ordering) are value-level and not decided.')
ASSUMPTIONS = ['pattern bindings are the only way the two impls read payload fields (no accessor indirection)']

SV = 'datafusion_common::scalar::ScalarValue'
HASH = '<datafusion_common::scalar::ScalarValue as core::hash::Hash>::hash'
EQ = '<datafusion_common::scalar::ScalarValue as core::cmp::PartialEq>::eq'


def variant_field_reads(facts, fn, adt_variants):
    """{variant: set(field idx)} for every place in fn (and nested closures) that downcasts to a ScalarValue variant"""
    res = {}
    names = set(adt_variants)
    for d in [fn] + sorted(x for x in facts.fn_index if x.startswith(fn + '::{closure')):
        rec = facts.fn(d)
        if rec is None:
            continue
        def scan(place):
            loc, projs = place
            for i, p in enumerate(projs):
                if isinstance(p, list) and p[0] == 'd' and p[2] in names:
                    # type of the base must be ScalarValue: the downcast name is unique enough together with a following field
                    if i + 1 < len(projs) and isinstance(projs[i + 1], list) and projs[i + 1][0] == 'f':
                        res.setdefault(p[2], set()).add(projs[i + 1][1])
                    else:
                        res.setdefault(p[2], set())
        for b in rec['bb']:
            if b.get('cu'):
                continue
            for st in b['s']:
                if st[0] == '=':
                    rv = st[2]
                    if rv[0] == 'use' and rv[1][0] in ('c', 'm'):
                        scan(rv[1][1])
                    elif rv[0] in ('ref', 'rawptr'):
                        scan(rv[1])
                    elif rv[0] == 'agg':
                        for o in rv[2]:
                            if o[0] in ('c', 'm'):
                                scan(o[1])
            t = b['t']
            if t[0] == 'call':
                for a in t[2]:
                    if a[0] in ('c', 'm'):
                        scan(a[1])
    return res


def check(ctx, facts, adt, hashfn, eqfn, rule='hash-subset-of-eq'):
    a = facts.adts.get(adt)
    if a is None or facts.fn(hashfn) is None or facts.fn(eqfn) is None:
        ctx.lost(rule, adt)
        return 1, 0
    ctx.analysed_fns.update([hashfn, eqfn])
    vnames = [v['name'] for v in a['variants']]
    h = variant_field_reads(facts, hashfn, vnames)
    e = variant_field_reads(facts, eqfn, vnames)
    bad = 0
    n = 0
    for v in a['variants']:
        name = v['name']
        hf, ef = h.get(name), e.get(name)
        nf = len(v['fields'])
        if nf == 0:
            continue
        n += 1
        if hf is None and ef is None:
            ctx.skip(rule, name, 'variant payload not read by either impl (wildcard arm)')
            continue
        hf, ef = hf or set(), ef or set()
        extra = sorted(hf - ef)
        if extra:
            bad += 1
            ctx.fail(rule, name, ctx.loc(facts.fn(hashfn)), 'Hash reads payload field(s) %s of %s that PartialEq does not compare: equal scalars can hash differently' % (
                [v['fields'][i][0] for i in extra], name), key='%s|%s' % (rule, name))
        else:
            ctx.ok(rule, name, sample={'variant': name, 'hashed_fields': sorted(hf), 'compared_fields': sorted(ef)})
    return bad, n


def run(ctx):
    f = ctx.facts
    bad, n = check(ctx, f, SV, HASH, EQ)
    ctx.floor('hash-subset-of-eq', 'ScalarValue variants with payload', n, 45)
    # float normalisation on both sides: the Hash wrappers for floats hash the bit pattern, eq compares the bit pattern
    fl = [i for i in f.impls if i.get('trait') == 'core::hash::Hash' and 'datafusion_common::scalar::Fl<' in i['self']]
    okfl = 0
    for i in fl:
        hd = dict((x[0], x[1]) for x in i['items']).get('hash')
        if hd and any(c.endswith(('::to_bits', '::to_ne_bytes')) for c in f.callees.get(hd, [])):
            okfl += 1
        else:
            ctx.fail('float-bit-normalisation', i['self'], '%s:%s' % (i['file'], i['line']), 'the float hash wrapper does not hash the bit pattern', key='float-bit-normalisation|' + i['self'])
    ctx.floor('float-bit-normalisation', 'float hash wrappers hashing the bit pattern', okfl, 3)
    tree = f.call_tree(EQ, depth=1)
    if any(c.endswith(('::to_bits', '::to_ne_bytes', '::total_cmp')) for d in tree for c in f.callees.get(d, [])):
        ctx.ok('float-bit-normalisation', 'eq')
    else:
        ctx.fail('float-bit-normalisation', 'eq', ctx.loc(f.fn(EQ)), 'float payloads are not compared through their bit pattern in eq', key='float-bit-normalisation|eq')
    import common
    st = ctx.st
    probe = common.Ctx(ctx.pid, ctx.tier, st, st, {})
    probe.known = []
    b, _ = check(probe, st, 'dfscan_selftest::scal::Sv', '<dfscan_selftest::scal::Sv as core::hash::Hash>::hash', '<dfscan_selftest::scal::Sv as core::cmp::PartialEq>::eq', rule='st')
    ctx.selftest('coverage rule detects a timezone that is hashed but not compared', b >= 1)
