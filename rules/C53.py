"""C53 — reported row-count metrics equal the rows produced: structural clauses."""
import re
from traces import *
import C16
import taint

TECHNIQUE = ('static analysis: census of Stream impls that own a BaselineMetrics vs. recorders in their poll_next call tree; exhaustive '
             'path enumeration over MIR with value-origin tags (record-once, inner/outer recorder summaries, one registered recorder per '
             'construction path); who-may-write census + value origin + success-edge ordering for spilled_rows')
EXPLANATION = ('(1) owner-records: every Stream impl in physical-plan / datasource* whose fields contain a BaselineMetrics reaches a '
               'recording primitive (record_poll, RecordOutput::record_output) in the call tree of its poll_next, or every site that '
               'constructs it wraps it in an ObservedStream fed with a clone of the same metrics (the unnest idiom). (2) record-once: on '
               'every path of every function that records output, no value is recorded twice — neither two recording calls on the same '
               'produced value, nor record_poll of a value returned by a local callee that already recorded what it returns (summaries are '
               'computed by fixpoint over local callees). (3) one-recorder-per-path: on every path of every function that registers output '
               'metrics (BaselineMetrics::new or a *Metrics::new wrapper, closures created on the path included), at most one registration '
               'is made for the produced stream, so a wrapper stream and the stream it wraps cannot both count the same rows (the '
               'preserve-order repartition case). (4) spilled-rows: Count::add on a spilled_rows counter occurs only in '
               'InProgressSpillFile::append_batch, exactly once on every path on which IPCStreamWriter::write succeeded and on no other, '
               'and its operand is the row count returned by that write. The counts themselves are not decided.')
# path rules cut loops after a bounded number of iterations: complete over rule instances, not over all unrollings
EXHAUSTIVE = False
ASSUMPTIONS = ['loops are cut after one iteration for the record-once rule (a double record inside one iteration is still seen)',
               'dyn-dispatched inner streams are opaque: wrapper-vs-inner double counting across operators is covered only by rule (3)',
               'metrics counters are reachable only through the named fields']

B = 'datafusion_physical_expr_common::metrics::baseline::'
BM = B + 'BaselineMetrics'
RECORD_POLL = B + 'BaselineMetrics::record_poll'
BM_NEW = B + 'BaselineMetrics::new'
BM_INTERMEDIATE = B + 'BaselineMetrics::intermediate'
COUNT_ADD = 'datafusion_physical_expr_common::metrics::value::Count::add'
OBSERVED = 'datafusion_physical_plan::stream::ObservedStream'
CRATES = ('datafusion_physical_plan', 'datafusion_datasource', 'datafusion_datasource_parquet', 'datafusion_datasource_csv',
          'datafusion_datasource_json', 'datafusion_datasource_avro', 'datafusion_datasource_arrow')
APPEND = 'datafusion_physical_plan::spill::in_progress_spill_file::InProgressSpillFile::append_batch'
IPC_WRITE = 'datafusion_physical_plan::spill::IPCStreamWriter::write'

_TOK = re.compile(r'call:([A-Za-z_0-9]+)@(\d+)')


class Cfg:
    """names the rules are stated on (the selftest crate supplies its own)"""
    def __init__(self, **kw):
        self.bm = BM
        self.record_poll = RECORD_POLL
        self.record_output_suffix = 'RecordOutput>::record_output'
        self.bm_new = BM_NEW
        self.count_add = COUNT_ADD
        self.observed_new = OBSERVED + '::new'
        self.crates = CRATES
        self.append = APPEND
        self.ipc_write = IPC_WRITE
        self.stream_trait = 'futures_core::stream::Stream'
        self.floors = True
        self.batch_type = 'RecordBatch'
        self.emission_ctors = (('core::result::Result', 'Ok'),)
        self.__dict__.update(kw)


REAL = Cfg()


def in_crates(d, cfg=REAL):
    s = d[1:] if d.startswith('<') else d
    return s.startswith(cfg.crates)


def prims(f, cfg=REAL):
    return {cfg.record_poll} | {k for k in f.callers if k.endswith(cfg.record_output_suffix)}


def contains_bm(f, ty, seen=None, depth=0, bm=BM):
    if bm in ty:
        return True
    if depth > 3:
        return False
    seen = seen if seen is not None else set()
    for p in re.findall(r'[A-Za-z_][A-Za-z_0-9:]*', ty):
        a = f.adts.get(p)
        if a and p not in seen and not a.get('ext'):
            seen.add(p)
            for v in a['variants']:
                for fl in v['fields']:
                    if contains_bm(f, fl[1], seen, depth + 1, bm):
                        return True
    return False


def leaves(v, out=None):
    """norm tags of the unknown leaves of a (possibly structured) abstract value"""
    out = out if out is not None else set()
    v = strip(v)
    if isinstance(v, A):
        for _, x in v.fields:
            leaves(x, out)
    elif isinstance(v, T):
        for x in v.items:
            leaves(x, out)
    elif isinstance(v, U) and v.tag:
        out.add(v.tag)
    return out


def tokens(tag):
    return set(_TOK.findall(tag or ''))


def fn_args(rec):
    if rec['k'] == 'closure':
        return [MR(-1, 0, (), sym('env'))] + [sym('a%d' % i) for i in range(1, rec['argc'])]
    return C16.args_for(rec)


class Recorders:
    """per-function path facts about recording, with a memoised 'records what it returns' summary"""

    def __init__(self, ctx, cfg=REAL):
        self.ctx = ctx
        self.cfg = cfg
        self.f = ctx.facts
        self.prims = prims(self.f, cfg)
        self.paths = {}
        self.summary = {}

    def traces(self, d):
        if d in self.paths:
            return self.paths[d]
        rec = self.f.fn(d)
        res = None
        if rec is not None and 'bb' in rec:
            try:
                res = (rec, run_traces(self.f, rec, fn_args(rec), inline_depth=0, loop_visits=1, time_budget=40, budget=900000, try_tags=True))
            except Undecidable as e:
                res = (rec, e)
        self.paths[d] = res
        return res

    @staticmethod
    def site_map(o):
        m = {}
        for e in o.events:
            if e[0] == 'callargs':
                m[(e[1].rsplit('::', 1)[-1], str(e[3] if len(e) > 3 else 0))] = e[1]
        return m

    def record_events(self, o):
        out = []
        for e in o.events:
            if e[0] == 'callargs' and e[1] in self.prims:
                val = e[2][1] if e[1] == self.cfg.record_poll else e[2][0]
                out.append((e[1], val, e[3] if len(e) > 3 else 0))
        return out

    def returns_recorded(self, d, depth=0):
        """does d (a local function) record a value that it then returns?  (memoised; cycles -> False)"""
        if d in self.summary:
            return self.summary[d]
        self.summary[d] = False
        if depth > 4 or not in_crates(d, self.cfg) or d not in self.f.fn_index:
            return False
        if not self.reaches_prim(d):
            return False
        tr = self.traces(d)
        if tr is None or isinstance(tr[1], Exception):
            return False
        res = False
        for o in tr[1]:
            rl = leaves(o.ret)
            rtoks = set()
            for t in rl:
                rtoks |= tokens(t)
            sm = self.site_map(o)
            for name, val, line in self.record_events(o):
                short = name.rsplit('::', 1)[-1]
                if (short, str(line)) in rtoks:
                    res = True       # returns the recorder's own result (batch.record_output(..) / record_poll(..))
                if {norm_tag(x) for x in leaves(val)} & {norm_tag(x) for x in rl}:
                    res = True       # the recorded value itself is returned
            for tk in rtoks:
                callee = sm.get(tk)
                if callee and callee not in self.prims and self.returns_recorded(callee, depth + 1):
                    res = True
            if res:
                break
        self.summary[d] = res
        return res

    def reaches_prim(self, d):
        tree = self.f.call_tree(d, depth=4)
        return any(p in self.prims for c in tree for p in self.f.callees.get(c, ()))


def rule_owner_records(ctx, cfg=REAL):
    f = ctx.facts
    P = prims(f, cfg)
    imps = [i for i in f.impls if i.get('trait') == cfg.stream_trait and i['crate'] in cfg.crates]
    owners = 0
    for i in imps:
        a = f.adts.get(i.get('self_adt'))
        if not a:
            continue
        own = [fl[0] for v in a['variants'] for fl in v['fields'] if contains_bm(f, fl[1], bm=cfg.bm)]
        if not own:
            continue
        owners += 1
        pn = [x[1] for x in i['items'] if x[0] == 'poll_next'][0]
        tree = f.call_tree(pn, depth=4)
        recs = sorted(c for c in tree if any(p in P for p in f.callees.get(c, ())))
        inst = i['self_adt'].rsplit('::', 1)[-1]
        if recs:
            ctx.ok('owner-records', inst, sample={'stream': i['self_adt'], 'metrics_fields': own, 'recorded_in': [r.rsplit('::', 1)[-1] for r in recs][:3]})
            continue
        # accepted idiom: every constructor site wraps the stream in an ObservedStream (which records) on the same path
        ctors = f.constructors.get(i['self_adt'], [])
        wrapped = bool(ctors)
        for c in ctors:
            root = c.split('::{closure')[0]
            tree = [root] + [d for d in f.fn_index if d.startswith(root + '::{closure')]
            builds_obs = any(cfg.observed_new in f.callees.get(d, ()) for d in tree)
            clones = any(('<%s as core::clone::Clone>::clone' % cfg.bm) in f.callees.get(d, ()) for d in tree)
            if not (builds_obs and clones):
                wrapped = False
        if wrapped:
            ctx.ok('owner-records', inst, 'records through ObservedStream at every construction site',
                   sample={'stream': i['self_adt'], 'observed_at': ctors})
        else:
            rec = f.fn(pn)
            ctx.fail('owner-records', inst, ctx.loc(rec) if rec else pn,
                     '%s holds a BaselineMetrics (%s) but nothing in the call tree of its poll_next records output (no record_poll / '
                     'record_output) and it is not wrapped in an ObservedStream where it is built: its operator reports output_rows = 0'
                     % (i['self_adt'], ', '.join(own)), key='owner-records|' + i['self_adt'])
    if cfg.floors:
        ctx.floor('owner-records', 'stream impls owning a BaselineMetrics', owners, 27)


def rule_record_once(ctx, cfg=REAL):
    f = ctx.facts
    R = Recorders(ctx, cfg)
    cands = set()
    for p in R.prims:
        for c in f.callers_of(p):
            if in_crates(c, cfg) and c not in R.prims:
                cands.add(c)
    n = 0
    for d in sorted(cands):
        tr = R.traces(d)
        if tr is None:
            continue
        rec, outs = tr
        inst = d
        if isinstance(outs, Exception):
            ctx.undecided('record-once', inst, str(outs))
            continue
        n += 1
        ctx.analysed_fns.add(d)
        problems = set()
        nrec = 0
        for o in outs:
            evs = R.record_events(o)
            if not evs:
                continue
            sm = R.site_map(o)
            seen = {}
            for name, val, line in evs:
                nrec += 1
                lv = leaves(val)
                for t in lv:
                    for tk in tokens(t):
                        callee = sm.get(tk)
                        if callee is None:
                            continue
                        if callee in R.prims:
                            problems.add('a value that already went through %s (line %s) is recorded again by %s' % (
                                callee.rsplit('::', 2)[-1], tk[1], name.rsplit('::', 1)[-1]))
                        elif in_crates(callee, cfg) and R.returns_recorded(callee):
                            problems.add('%s records the value returned by %s, which has already recorded it: every row is counted twice' % (
                                name.rsplit('::', 1)[-1], callee.rsplit('::', 2)[-2] + '::' + callee.rsplit('::', 1)[-1]))
                for t in {norm_tag(x) for x in lv}:
                    if t in seen and seen[t] != line:
                        problems.add('the same value (%s) is recorded at line %s and again at line %s on one path' % (t[:60], seen[t], line))
                    seen.setdefault(t, line)
        if problems:
            ctx.fail('record-once', inst, ctx.loc(rec), '; '.join(sorted(problems)), key='record-once|' + d)
        else:
            ctx.ok('record-once', inst, sample={'fn': d, 'paths': len(outs), 'record_events': nrec} if n <= 6 else None)
    if cfg.floors:
        ctx.floor('record-once', 'functions that record output', n, 30)
    return R



def _emission(v):
    """('no'|'val'|'unk', leaf tag) — does the abstract return value carry a produced batch (Ready(Some(Ok(x))) / Break(..Ok(x)) / Ok(Some(x)))?"""
    v = strip(v)
    if isinstance(v, A):
        if v.name in ('Pending', 'None', 'Err'):
            return ('no', None)
        if v.name in ('Ready', 'Some', 'Ok', 'Break', 'Continue'):
            if not v.fields:
                return ('no', None)
            return _emission(v.fields[0][1])
        return ('unk', None)
    if isinstance(v, T):
        for x in v.items:
            r = _emission(x)
            if r[0] != 'no':
                return r
        return ('no', None)
    if isinstance(v, U) and v.tag:
        return ('val', v.tag)
    return ('unk', None)


def rule_record_consistent(ctx, R, cfg=REAL, rule='record-consistent'):
    """Contradiction rule (a function that records the batch it hands out on one path believes it owns the recording): in every
    function whose return type carries a RecordBatch and that records on some batch-emitting path, every path that builds and returns
    a batch records it too (directly, through a callee that records what it returns, or the stream has no metrics on that path)."""
    f = ctx.facts
    n = 0
    cands = set()
    for p in R.prims:
        for c in f.callers_of(p):
            if in_crates(c, cfg) and c not in R.prims:
                cands.add(c)
    # callers of functions that record what they return are candidates too (one level)
    for c in list(cands):
        if R.returns_recorded(c):
            for u in f.callers_of(c):
                if in_crates(u, cfg):
                    cands.add(u)
    for d in sorted(cands):
        sg = f.sig(d)
        if not sg or cfg.batch_type not in sg[0]:
            continue
        tr = R.traces(d)
        if tr is None or isinstance(tr[1], Exception):
            continue
        rec, outs = tr
        recd, unrec = 0, []
        altered = []
        for o in outs:
            kind, tag = _emission(o.ret)
            if kind != 'val':
                continue
            evs = list(o.events)
            sm = R.site_map(o)
            ntag = norm_tag(tag)
            m = re.match(r'(?:try:)?call:([A-Za-z_0-9]+)@(\d+)', ntag)
            head = sm.get((m.group(1), m.group(2))) if m else None
            toks = _TOK.findall(tag)
            nested_only = head not in R.prims and any(sm.get(t) in R.prims for t in toks) and not \
                any(norm_tag(x) == ntag for _, val, _l in R.record_events(o) for x in leaves(val)) and not \
                (head is not None and in_crates(head, cfg) and R.returns_recorded(head))
            if nested_only and head is not None and in_crates(head, cfg) and cfg.batch_type in ((f.sig(head) or [''])[0]):
                # the recorded poll is handed to another batch-returning function of the crate and ITS result is what leaves: whatever that
                # function does to the batch (truncate to a fetch limit, filter, replace) happens after the rows were counted
                altered.append((ntag, head))
            recorded = head in R.prims or any(sm.get(t) in R.prims for t in toks) or \
                any(norm_tag(x) == ntag for _, val, _l in R.record_events(o) for x in leaves(val)) or \
                (head is not None and in_crates(head, cfg) and R.returns_recorded(head))
            if recorded:
                recd += 1
                continue
            if any(e[0] == 'variant' and e[3] == 'None' and 'metrics' in (e[1] or '') for e in evs):
                continue            # the stream carries no metrics on this path
            built_here = any(e[0] == 'agg' and (e[1], e[2]) in cfg.emission_ctors for e in evs)
            # only batches the function obtained itself (a binding, a field, an in-crate call, the payload it took out of an inner poll and wrapped
            # again) — values that come out of a std combinator are not decided here
            is_poll = head is not None and head.rsplit('::', 1)[-1].startswith('poll')
            if built_here and (head is None or in_crates(head, cfg) or is_poll):
                unrec.append(ntag)
        if not recd:
            continue
        n += 1
        ctx.analysed_fns.add(d)
        if altered:
            ctx.fail(rule, d, ctx.loc(rec), 'the poll is recorded and then passed to %s, whose result is what the stream returns: the batch can still be changed after its rows '
                     'were counted (output_rows / output_bytes would differ from what is emitted); record the poll last' % altered[0][1].rsplit('::', 1)[-1],
                     key='%s|%s|recorded-then-altered' % (rule, d))
        elif unrec:
            ctx.fail(rule, d, ctx.loc(rec), 'this function records the batch it hands out on %d path(s) but also builds and returns a batch (%s) on %d path(s) '
                     'without recording it: rows that leave through that path are missing from output_rows' % (recd, unrec[0][:60], len(unrec)),
                     key='%s|%s' % (rule, d))
        else:
            ctx.ok(rule, d, sample={'fn': d, 'recorded_emission_paths': recd} if n <= 6 else None)
    return n

def registration_sites(f, cfg=REAL):
    """functions that register output metrics: BaselineMetrics::new and the *Metrics::new wrappers around it"""
    wr = {c for c in f.callers_of(cfg.bm_new) if c.endswith('Metrics::new')}
    return {cfg.bm_new} | wr


def rule_one_recorder_per_path(ctx, cfg=REAL):
    f = ctx.facts
    REG = registration_sites(f, cfg)
    roots = {}
    for p in REG:
        for c in f.callers_of(p):
            if in_crates(c, cfg) and c not in REG:
                roots.setdefault(c.split('::{closure')[0], set()).add(c)
    n = 0
    for root in sorted(roots):
        members = roots[root]

        def count_static(d):
            k = 0
            for i in range(len(f.fn_index[d])):
                r = f.fn(d, i)
                k += sum(1 for b in r['bb'] if b['t'][0] == 'call' and not b.get('cu') and (b['t'][1].get('res') or b['t'][1].get('def')) in REG)
            return k
        total = sum(count_static(d) for d in members)
        n += 1
        if total <= 1:
            ctx.ok('one-recorder-per-path', root, '1 registration site', nontrivial=True)
            continue
        # several sites: they must be on exclusive paths of the outermost body that contains them (closures created on a path count)
        top = min(members, key=len) if root not in members else root
        bodies = [root] if root in f.fn_index and any(m == root for m in members) else []
        if not bodies:
            # all sites are in closures: analyse the shallowest closure that (transitively) contains the others
            bodies = [min(members, key=len)]
        worst = 0
        und = None
        for bd in bodies:
            rec = f.fn(bd)
            try:
                outs = run_traces(f, rec, fn_args(rec), inline_depth=0, loop_visits=1, time_budget=60, budget=1500000, try_tags=True)
            except Undecidable as e:
                und = str(e)
                continue
            for o in outs:
                k = 0
                for e in o.events:
                    if e[0] == 'callargs' and e[1] in REG:
                        k += 1
                    elif e[0] == 'mkclosure' and len(e) > 2 and isinstance(e[2], C):
                        cd = e[2].deff
                        for m in members:
                            if m == cd or m.startswith(cd + '::{closure'):
                                k += count_static(m)
                worst = max(worst, k)
        rec0 = f.fn(bodies[0])
        if und is not None:
            ctx.undecided('one-recorder-per-path', root, und)
        elif worst > 1:
            ctx.fail('one-recorder-per-path', root, ctx.loc(rec0),
                     '%d registrations of output metrics are made on one path of %s (closures created on the path included): a stream and the '
                     'stream that wraps it would both count the same rows' % (worst, root),
                     key='one-recorder-per-path|' + root)
        else:
            ctx.ok('one-recorder-per-path', root, '%d registration sites, never two on one path' % total,
                   sample={'fn': root, 'sites': total, 'max_on_one_path': worst})
    if cfg.floors:
        ctx.floor('one-recorder-per-path', 'functions registering output metrics', n, 40)


def rule_spilled_rows(ctx, cfg=REAL):
    f = ctx.facts
    COUNT_ADD, APPEND, IPC_WRITE = cfg.count_add, cfg.append, cfg.ipc_write
    # who may write
    writers = set()
    for c in f.callers_of(COUNT_ADD):
        for i in range(len(f.fn_index[c])):
            rec = f.fn(c, i)
            if taint.field_sources(rec, 'spilled_rows'):
                src = taint.propagate(rec, taint.field_sources(rec, 'spilled_rows'))
                for b in rec['bb']:
                    t = b['t']
                    if t[0] == 'call' and (t[1].get('res') or t[1].get('def')) == COUNT_ADD and taint.place_root(t[2][0]) in src:
                        writers.add(c)
    for w in sorted(writers):
        if w == APPEND:
            ctx.ok('spilled-rows-writer', w)
        else:
            rec = f.fn(w)
            ctx.fail('spilled-rows-writer', w, ctx.loc(rec), 'spilled_rows is incremented outside InProgressSpillFile::append_batch: rows not '
                     'written by the spill writer would be reported as spilled', key='spilled-rows-writer|' + w)
    rec = ctx.fn(APPEND, 'spilled-rows')
    if not rec:
        return
    outs = run_traces(f, rec, C16.args_for(rec), inline_depth=0, time_budget=40, try_tags=True)
    ok_paths = 0
    problems = set()
    for o in outs:
        wrote_ok = [norm_tag(e[1]) for e in o.events if e[0] == 'variant' and e[3] == 'Continue' and norm_tag(e[1]).startswith('try:call:write@')]
        wrote_any = [e for e in o.events if e[0] == 'callargs' and e[1] == IPC_WRITE]
        adds = [e for e in o.events if e[0] == 'callargs' and e[1] == COUNT_ADD and (tag_of(e[2][0]) or '').endswith('.spilled_rows')]
        if wrote_ok:
            ok_paths += 1
            if len(adds) != 1:
                problems.add('a path on which the batch was written adds to spilled_rows %d times (must be exactly once)' % len(adds))
            for a in adds:
                t = norm_tag(tag_of(a[2][1]) or '')
                if t != wrote_ok[0] + '.0.0':
                    problems.add('spilled_rows is increased by %s, not by the row count returned by the successful write (%s.0.0)' % (t or 'an unrelated value', wrote_ok[0]))
                ia = list(o.events).index(a)
                iw = max(i for i, e in enumerate(o.events) if e[0] == 'variant' and e[3] == 'Continue' and norm_tag(e[1]) == wrote_ok[0])
                if ia < iw:
                    problems.add('spilled_rows is increased before the write is known to have succeeded')
        elif adds:
            problems.add('spilled_rows is increased on a path on which no write succeeded (%s)' % ('write failed' if wrote_any else 'nothing written'))
    if ok_paths < 1:
        # vacuity guard only: how many ways there are to reach the write (writer reused / opened inline / opened in a helper) is not part of the rule
        problems.add('no path on which the batch write succeeds was found (anchor changed?)')
    if problems:
        ctx.fail('spilled-rows', 'append_batch', ctx.loc(rec), '; '.join(sorted(problems)), key='spilled-rows|append_batch')
    else:
        ctx.ok('spilled-rows', 'append_batch', sample={'paths': len(outs), 'successful_write_paths': ok_paths})
    # the writer returns the number of rows of the batch it wrote
    wrec = ctx.fn(IPC_WRITE, 'spilled-rows')
    if wrec:
        wo = run_traces(f, wrec, C16.args_for(wrec), inline_depth=0, time_budget=20, try_tags=True)
        bad = []
        okn = 0
        for o in wo:
            r = strip(o.ret)
            if isinstance(r, A) and r.name == 'Ok':
                okn += 1
                t = strip(read_proj(r, [('f', 0)]))
                first = strip(t.items[0]) if isinstance(t, T) and t.items else None
                tg = norm_tag(tag_of(first) or '') if first is not None else ''
                if not tg.startswith('call:num_rows@'):
                    bad.append(show(r)[:80])
        if bad or not okn:
            ctx.fail('spilled-rows', 'IPCStreamWriter::write returns num_rows', ctx.loc(wrec),
                     'the first component of the writer\'s Ok result is not RecordBatch::num_rows of the written batch (%s)' % (bad[:1] or 'no Ok path'),
                     key='spilled-rows|writer-result')
        else:
            ctx.ok('spilled-rows', 'IPCStreamWriter::write returns num_rows', sample={'ok_paths': okn})


def run(ctx):
    rule_owner_records(ctx)
    R = rule_record_once(ctx)
    nrc = rule_record_consistent(ctx, R)
    ctx.floor('record-consistent', 'functions that record on a batch-emitting path', nrc, 10)
    rule_one_recorder_per_path(ctx)
    rule_spilled_rows(ctx)
    # selftest: seeded violations in the selftest crate
    import common
    st = ctx.st
    probe = common.Ctx(ctx.pid, ctx.tier, st, st, {})
    probe.known = []
    selftest(ctx, probe)


def selftest(ctx, probe):
    SM = 'dfscan_selftest::metrics::'
    cfg = Cfg(bm=SM + 'Bm', record_poll=SM + 'Bm::record_poll', record_output_suffix='metrics::RecOut>::record_output',
              bm_new=SM + 'Bm::new', count_add=SM + 'Count::add', observed_new=SM + 'Observed::new', crates=('dfscan_selftest',),
              append=SM + 'Spill::append_batch', ipc_write=SM + 'Ipc::write', stream_trait=SM + 'Stream', floors=False,
              batch_type='metrics::Batch', emission_ctors=((SM + 'Poll', 'Ready'), ('core::option::Option', 'Some')))
    rule_owner_records(probe, cfg)
    ctx.selftest('owner-records detects a stream that owns metrics and never records (Silent), accepts Observed-wrapped (Wrapped)',
                 any(v['key'] == 'owner-records|' + SM + 'Silent' for v in probe.viol) and not any('Wrapped' in v['key'] or 'Good' in v['key'] for v in probe.viol))
    n0 = len(probe.viol)
    R2 = rule_record_once(probe, cfg)
    keys = [v['key'] for v in probe.viol[n0:]]
    ctx.selftest('record-once detects outer record_poll over a recording inner (Dbl) and a value recorded twice on one path (Twice), not Good',
                 any('Dbl' in k for k in keys) and any('Twice' in k for k in keys) and not any('Good' in k for k in keys))
    n0 = len(probe.viol)
    rule_record_consistent(probe, R2, cfg, rule='st-consistent')
    keys = [v['key'] for v in probe.viol[n0:]]
    ctx.selftest('record-consistent detects a function that records one emission arm and forgets another (Spilly::bad_poll_inner), accepts good_poll_inner; '
                 'and a poll that is recorded and then truncated (Trunc), not Good',
                 any('bad_poll_inner' in k for k in keys) and not any('good_poll_inner' in k for k in keys) and
                 any('Trunc' in k and 'recorded-then-altered' in k for k in keys) and not any('Good' in k for k in keys))
    n0 = len(probe.viol)
    rule_one_recorder_per_path(probe, cfg)
    keys = [v['key'] for v in probe.viol[n0:]]
    ctx.selftest('one-recorder-per-path detects a second registration inside a closure created on the same path (exec_bad), not exclusive branches (exec_ok)',
                 any('exec_bad' in k for k in keys) and not any('exec_ok' in k for k in keys))
    n0 = len(probe.viol)
    rule_spilled_rows(probe, cfg)
    keys = [v['key'] for v in probe.viol[n0:]]
    ctx.selftest('spilled-rows detects a count added before the write is known to have succeeded and a foreign writer',
                 any(k == 'spilled-rows|append_batch' for k in keys) and any(k.startswith('spilled-rows-writer|') for k in keys))
