"""C18 — memory-limited queries fail cleanly and release everything."""
from resultflow import *
import C19

TECHNIQUE = 'static analysis: def-use fate of Result values at every resource-request call site; type-resolved who-may-call / who-may-hold census'
EXPLANATION = ('(a) At every call site (engine crates, non-test) of a resource request — MemoryReservation::try_grow / try_resize / '
               'try_shrink, MemoryPool::try_grow, spill writes (InProgressSpillFile::append_batch / flush / finish, SpillManager::spill_*, '
               'SpillPool push_batch, DiskManager::create_tmp_file) — the returned Result is never unwrap/expect-ed (panic instead of '
               'ResourcesExhausted); a site that drops or tests-and-discards the result must be one of the frozen, individually justified '
               'sites (failure selects the spill path / best-effort resize while draining / destructor). (b) No mem::forget, '
               'ManuallyDrop::new, Box::leak, Box/Arc/Rc::into_raw in the execution crates (RAII owners must drop). (c) Every struct that '
               'stores a spill file stores the ref-counted handle (Arc<dyn SpillFile> / RefCountedTempFile inside the disk manager), '
               'so the last drop deletes the file. Exact results under a memory limit and absence of hangs are not decided.')
# path rules cut loops after a bounded number of iterations: complete over rule instances, not over all unrollings
EXHAUSTIVE = False
ASSUMPTIONS = ['the resource-request callee list is the set of fallible allocation / spill-write entry points of this code base']

SCOPE = ('datafusion_physical_plan', 'datafusion_execution', 'datafusion_datasource', 'datafusion_datasource_parquet', 'datafusion_datasource_csv',
         'datafusion_datasource_json', 'datafusion_datasource_arrow', 'datafusion_common_runtime', 'datafusion', 'datafusion_physical_expr',
         'datafusion_physical_expr_common', 'datafusion_functions_aggregate', 'datafusion_functions_aggregate_common')
REQ_SUFFIX = ('MemoryReservation::try_grow', 'MemoryReservation::try_resize', 'MemoryReservation::try_shrink', 'MemoryPool>::try_grow', 'MemoryPool::try_grow',
              'InProgressSpillFile::append_batch', 'InProgressSpillFile::flush', 'InProgressSpillFile::finish',
              'SpillManager::spill_record_batch_and_finish', 'SpillManager::spill_record_batch_by_size_and_return_max_batch_memory',
              'SpillManager::spill_record_batch_stream_and_return_max_batch_memory', 'SpillManager::create_in_progress_file',
              'SpillPoolSink::push_batch', 'SpillPoolWriter::push_batch', 'DiskManager::create_tmp_file', '::try_resize_reservation',
              '::update_memory_reservation', '::try_grow_reservation', '::allocate_reservation')

# (function suffix, callee suffix) -> reason.  One site each; a new site is reported.
ACCEPTED = {
    ('GroupedHashAggregateStream as futures_core::stream::Stream>::poll_next', 'update_memory_reservation'): 'called right after clear_all() while finishing: the reservation only shrinks',
    ('GroupedHashAggregateStream::emit', 'update_memory_reservation'): 'best-effort resize after emitting: a failure keeps the larger reservation',
    ('GroupedHashAggregateStream::update_memory_reservation', 'MemoryReservation::try_resize'): 'is_ok() only records the peak; the Result itself is returned',
    ('PartialHashAggregateStream::handle_producing_output', 'MemoryReservation::try_resize'): 'resize to the shrinking table while draining output: failure keeps the larger reservation',
    ('PartialHashAggregateStream as futures_core::stream::Stream>::poll_next', 'MemoryReservation::try_resize'): 'release at end of stream',
    ('FinalHashAggregateStream as futures_core::stream::Stream>::poll_next', 'MemoryReservation::try_resize'): 'release at end of stream',
    ('OrderedFinalAggregateStream as futures_core::stream::Stream>::poll_next', 'MemoryReservation::try_resize'): 'release at end of stream',
    ('OrderedPartialAggregateStream::handle_draining_final::{closure#0}', 'MemoryReservation::try_resize'): 'resize while draining: failure keeps the larger reservation',
    ('OrderedSingleAggregateStream as futures_core::stream::Stream>::poll_next', 'MemoryReservation::try_resize'): 'release at end of stream',
    ('PartialReduceHashAggregateStream::handle_producing_output', 'MemoryReservation::try_resize'): 'resize while draining output',
    ('PartialReduceHashAggregateStream as futures_core::stream::Stream>::poll_next', 'MemoryReservation::try_resize'): 'release at end of stream',
    ('SingleHashAggregateStream as futures_core::stream::Stream>::poll_next', 'MemoryReservation::try_resize'): 'release at end of stream',
    ('NestedLoopJoinStream::handle_buffering_left_memory_limited', 'MemoryReservation::try_grow'): 'failure selects the spill-to-disk path',
    ('BitwiseSortMergeJoinStream::buffer_inner_key_group::{closure#0}', 'try_resize_reservation'): 'failure selects the spill path',
    ('ExternalSorter::sort_and_spill_in_mem_batches::{closure#0}', 'MemoryReservation::try_grow'): 'failure selects the spill path',
    ('SpillPoolSink as core::ops::drop::Drop>::drop', 'InProgressSpillFile::finish'): 'destructor cannot return an error; the file is sealed and readers are woken regardless',
}
FORBIDDEN = ('core::mem::forget', 'core::mem::manually_drop::ManuallyDrop::<T>::new', 'alloc::boxed::Box::<T>::leak', 'alloc::boxed::Box::<T, A>::leak',
             'alloc::sync::Arc::<T>::into_raw', 'alloc::sync::Arc::<T, A>::into_raw', 'alloc::rc::Rc::<T>::into_raw', 'alloc::boxed::Box::<T>::into_raw',
             'alloc::boxed::Box::<T, A>::into_raw', 'alloc::vec::Vec::<T>::leak', 'alloc::vec::Vec::<T, A>::leak')


# accepted entries whose function holds more than one justified discarding site today (counted by hand; default 1)
BUDGET = {
    ('PartialHashAggregateStream::handle_producing_output', 'MemoryReservation::try_resize'): 2,
    ('PartialReduceHashAggregateStream::handle_producing_output', 'MemoryReservation::try_resize'): 2,
}


def request_sites(ctx, facts, scope, rule='resource-request-results', accepted=None, budget=None):
    accepted = ACCEPTED if accepted is None else accepted
    budget = BUDGET if budget is None else budget
    n = 0
    bad = 0
    lossy_sites = []        # (d, name, line, rec, inst, key, fs, lossy)
    for d, i, e in facts.all_fn_entries():
        if e[7] not in scope or '::test::' in d or '::test_util' in d or '::tests::' in d:
            continue
        # cheap prefilter on the callee index
        if not any(c.endswith(REQ_SUFFIX) for c in facts.callees.get(d, ())):
            continue
        rec = facts.fn(d, i)
        for bi, name, dl, line in result_sites(rec, want_callee=lambda nm: nm.endswith(REQ_SUFFIX)):
            n += 1
            fs = fate(rec, dl)
            inst = '%s -> %s' % (d, name.rsplit('::', 2)[-2] + '::' + name.rsplit('::', 1)[-1])
            key = '%s|%s' % (rule, inst)
            if 'panic' in fs:
                bad += 1
                ctx.fail(rule, inst, ctx.loc(rec, line), 'the result of a memory/spill request is unwrap/expect-ed: the query panics instead of failing with ResourcesExhausted', key=key + '|panic')
                continue
            lossy = [x for x in fs if x == 'dropped' or x.startswith('swallow')]
            if lossy and not ('matched' in fs or 'propagated' in fs):
                lossy_sites.append((d, name, line, rec, inst, key, fs, lossy))
            else:
                ctx.ok(rule, inst, sample={'site': inst, 'fate': sorted(fs)} if n < 12 else None)
    # attribute every discarding site to an accepted entry: directly (it is in the accepted function) or by inheritance (it is in a private
    # helper all of whose callers are accepted sites for the same callee, e.g. the body of a destructor moved into a free function).  Each entry
    # justifies a fixed number of sites: a NEW discarding site next to an accepted one (same function, or a helper of it) is reported.
    used = {}
    ordered = sorted(lossy_sites, key=lambda s_: (0 if any(s_[0].endswith(f_) and s_[1].endswith(c_) for (f_, c_) in accepted) else 1, s_[0], s_[2]))
    for d, name, line, rec, inst, key, fs, lossy in ordered:
        k = next(((f_, c_) for (f_, c_) in accepted if d.endswith(f_) and name.endswith(c_)), None)
        why = accepted.get(k) if k else None
        if k is None:
            callers = set(x.split('::{closure')[0] if False else x for x in facts.callers_of(d))
            ks = [next(((f_, c_) for (f_, c_) in accepted if c.endswith(f_) and name.endswith(c_)), None) for c in callers]
            if callers and all(ks):
                k = ks[0]
                why = 'helper called only from accepted site(s): ' + accepted[k]
        if k is not None and used.get(k, 0) < budget.get(k, 1):
            used[k] = used.get(k, 0) + 1
            ctx.ok(rule, inst, nontrivial=True, sample={'site': inst, 'fate': sorted(fs), 'accepted_because': why})
        else:
            bad += 1
            extra = '' if k is None else ' (the accepted entry %s::%s justifies %d site(s), which are already accounted for)' % (k[0].rsplit('::', 2)[-2] if '::' in k[0] else k[0], k[1], budget.get(k, 1))
            ctx.fail(rule, inst, ctx.loc(rec, line), 'the result of a memory/spill request is discarded (%s) at a site that is not one of the justified ones%s: a refused '
                     'reservation or a failed spill write would go unnoticed' % (sorted(lossy), extra), key=key)
    return bad, n


def run(ctx):
    f = ctx.facts
    bad, n = request_sites(ctx, f, SCOPE)
    ctx.floor('resource-request-results', 'resource request call sites', n, 60)
    # (b)
    nsite = 0
    for callee in f.callers:
        if callee in FORBIDDEN or any(callee.startswith(x.split('::<')[0]) and callee.endswith(x.rsplit('::', 1)[-1]) for x in FORBIDDEN if '::<' in x):
            for c in f.callers_of(callee):
                cr = C19.crate_of(f, c)
                if cr not in SCOPE:
                    ctx.skip('no-forget-leak', '%s -> %s' % (c, callee), 'crate %s out of scope (FFI ownership transfer / tooling)' % cr)
                    continue
                nsite += 1
                rec = f.fn(c)
                ctx.fail('no-forget-leak', '%s -> %s' % (c, callee), ctx.loc(rec) if rec else c, 'RAII owners (reservations, spill files, tasks) must be dropped; %s defeats drop' % callee,
                         key='no-forget-leak|%s|%s' % (c, callee))
    if nsite == 0:
        ctx.ok('no-forget-leak', 'execution crates', sample={'forbidden_callees': list(FORBIDDEN)[:4], 'sites': 0})
    # (c)
    nh = 0
    for p, a in f.adts.items():
        if a.get('ext') or a.get('crate') not in SCOPE:
            continue
        for v in a['variants']:
            for fl in v['fields']:
                ty = fl[1]
                if 'dyn datafusion_execution::spill_file::SpillFile' in ty:
                    nh += 1
                    if 'alloc::sync::Arc<(dyn datafusion_execution::spill_file::SpillFile' not in ty:
                        ctx.fail('spill-handle-refcounted', '%s.%s' % (p, fl[0]), p, 'spill file stored as %s, not as the ref-counted Arc<dyn SpillFile>' % ty, key='spill-handle-refcounted|%s.%s' % (p, fl[0]))
                    else:
                        ctx.ok('spill-handle-refcounted', '%s.%s' % (p, fl[0]))
                elif ('tempfile::file::NamedTempFile' in ty or 'datafusion_execution::disk_manager::RefCountedTempFile' in ty) and not p.startswith('datafusion_execution::disk_manager::'):
                    nh += 1
                    ctx.fail('spill-handle-refcounted', '%s.%s' % (p, fl[0]), p, 'raw temp file handle held outside the disk manager (%s)' % ty, key='spill-handle-refcounted|raw|%s.%s' % (p, fl[0]))
    ctx.floor('spill-handle-refcounted', 'spill file holders', nh, 6)
    # selftests
    import common
    st = ctx.st
    probe = common.Ctx(ctx.pid, ctx.tier, st, st, {})
    probe.known = []
    b, _ = request_sites(probe, st, ('dfscan_selftest',), rule='st')
    ctx.selftest('request-result rule reports an unwrap and a `let _ =` on try_grow in the selftest crate', b >= 2)
    fc = [c for callee in st.callers if callee in FORBIDDEN for c in st.callers_of(callee)]
    ctx.selftest('forbidden-callee census sees mem::forget in the selftest crate', len(fc) > 0)
