"""C29 — statistics reported as exact are exact: exactness never increases
through a `Precision` combinator."""
from enumtab import *

TECHNIQUE = 'static analysis: finite-domain path exploration over MIR (A1) with input exactness kinds as the domain; field coverage of to_inexact'
EXPLANATION = ('Every combinator over datafusion_common::stats::Precision (methods of the Precision impls and the in-place '
               'precision_* helpers that take &mut Precision) is explored with the kinds {Exact, Inexact, Absent} of its '
               'Precision inputs as the finite domain (payload unknown): the result (return value, or the final referent of '
               'the &mut argument) can be Exact only when ALL Precision inputs are Exact. A result that is not a statically '
               'known variant is judged by the Exact constructions on the path. Statistics::to_inexact and '
               'ColumnStatistics::to_inexact must demote every field of type Precision<_>. Per-operator downgrade decisions '
               '(which operator calls to_inexact when) are not decided.')
ASSUMPTIONS = ['ScalarValue arithmetic helpers (add_checked, cast_to, ...) do not fabricate Precision values']

PREC = 'datafusion_common::stats::Precision'
KINDS = ['Exact', 'Inexact', 'Absent']


def kind_val(facts, adt, k, tag):
    vn = facts.variant_names(adt)
    i = vn.index(k)
    return A(adt, i, k, ((0, sym(tag)),) if k != 'Absent' else ())


def result_kinds(o, ret_is_prec, mut_idx, adt):
    """set of possible kinds of the result on this outcome: names or '?'"""
    vals = []
    if mut_idx is not None:
        vals.append(strip(o.args[mut_idx]) if o.args else TOP)
    if ret_is_prec:
        r = strip(o.ret)
        if isinstance(r, A) and r.adt in ('core::result::Result',):
            if r.name == 'Err':
                return set()
            r = strip(read_proj(r, [('f', 0)]))
        vals.append(r)
    out = set()
    for v in vals:
        if isinstance(v, A) and v.adt == adt:
            out.add(v.name)
        else:
            out.add('?')
    return out


def combinators(facts, adt=PREC, crate_prefix='datafusion_common::'):
    """(d, which, prec_arg_indices, mut_idx, ret_is_prec)"""
    res = []
    for d, i, e in facts.all_fn_entries():
        if e[4] not in ('fn', 'assoc_fn') or not d.startswith(crate_prefix):
            continue
        sg = e[8]
        ret, args = sg[0], sg[1:]

        def is_prec(t):
            t = t.lstrip('&').replace('mut ', '')
            return t.startswith(adt + '<') or t == adt
        pidx = [k for k, t in enumerate(args) if is_prec(t)]
        if not pidx:
            continue
        mut = [k for k, t in enumerate(args) if t.startswith('&mut ') and is_prec(t)]
        ret_is = is_prec(ret) or ret.startswith('core::result::Result<' + adt)
        if not ret_is and not mut:
            continue
        if '<' in d.split('::')[0] and ' as ' in d:
            continue  # trait impls (Clone, Debug, PartialEq ...)
        res.append((d, i, pidx, mut[0] if mut else None, ret_is))
    return res


def check_combinator(ctx, facts, rule, d, which, pidx, mut_idx, ret_is, adt=PREC):
    import itertools
    rec = facts.fn(d, which)
    bad = 0
    ctx.analysed_fns.add(d)
    for kinds in itertools.product(KINDS, repeat=len(pidx)):
        args = [TOP] * rec['argc']
        for k, ai in zip(kinds, pidx):
            v = kind_val(facts, adt, k, 'in%d' % ai)
            t = rec['locals'][ai + 1][0]
            args[ai] = MR(-1, ai, (), v) if t.startswith('&mut') else R(v) if t.startswith('&') else v
        ex = Explorer(facts, inline_depth=3, budget=300000, time_budget=20.0,
                      inline_only=(adt.rsplit('::', 1)[0] + '::', 'datafusion_common::utils::aggregate::precision'))
        try:
            outs = ex.run(rec, args)
        except Undecidable as e:
            ctx.undecided(rule, '%s%s' % (d, list(kinds)), str(e))
            bad += 1
            continue
        may_exact = False
        how = ''
        for o in outs:
            ks = result_kinds(o, ret_is, mut_idx, adt)
            if 'Exact' in ks:
                may_exact, how = True, 'result is Exact'
            elif '?' in ks:
                # unknown result: judge by constructions of Exact on the path
                if any(ev[0] == 'agg' and ev[1] == adt and ev[2] == 'Exact' for ev in o.events) or \
                   any(ev[0] == 'fnarg' and ev[1].endswith('Precision::Exact') for ev in o.events):
                    may_exact, how = True, 'result not statically known and an Exact value is constructed on the path'
        inst = '%s(%s)' % (d.replace('datafusion_common::', ''), ','.join(kinds))
        all_exact = all(k == 'Exact' for k in kinds)
        if may_exact and not all_exact:
            bad += 1
            ctx.fail(rule, inst, ctx.loc(rec), 'exactness increases: inputs %s but %s' % (list(kinds), how), key='%s|%s' % (rule, inst))
        else:
            ctx.ok(rule, inst, nontrivial=not all_exact, sample={'fn': d, 'inputs': list(kinds), 'may_be_exact': may_exact})
    return bad


def fields_demoted(ctx, facts, rule, structpath, fnpath):
    """every field of type Precision<_> of `structpath` is passed through Precision::to_inexact in fnpath"""
    rec = facts.fn(fnpath)
    adt = facts.adts.get(structpath)
    if rec is None or adt is None:
        ctx.lost(rule, fnpath)
        return
    ctx.analysed_fns.add(fnpath)
    pf = [(i, f[0]) for i, f in enumerate(adt['variants'][0]['fields']) if f[1].startswith(PREC + '<')]
    # arg: self by value with each Precision field tagged
    ch = tuple(sorted(((('f', i), sym('self.' + n)) for i, n in pf), key=lambda kv: repr(kv[0])))
    selfv = U(ch, 'self')
    ex = Explorer(facts, inline_depth=0, watch=(PREC + '::<T>::to_inexact',))
    outs = ex.run(rec, [selfv])
    demoted = set()
    for o in outs:
        for ev in o.events:
            if ev[0] == 'callargs':
                v = strip(ev[2][0])
                if isinstance(v, U) and v.tag:
                    demoted.add(v.tag.split('.', 1)[1])
    for i, n in pf:
        inst = '%s.%s' % (structpath.rsplit('::', 1)[1], n)
        if n not in demoted:
            ctx.fail(rule, inst, ctx.loc(rec), 'field %s: Precision<_> is not demoted by %s' % (n, fnpath.rsplit('::', 2)[-2] + '::to_inexact'),
                     key='%s|%s' % (rule, inst))
        else:
            ctx.ok(rule, inst, sample={'struct': structpath, 'field': n, 'demoted_by': fnpath})
    return len(pf)


def run(ctx):
    f = ctx.facts
    combs = combinators(f)
    n = 0
    for d, which, pidx, mut_idx, ret_is in combs:
        n += 1
        check_combinator(ctx, f, 'exactness-monotone', d, which, pidx, mut_idx, ret_is)
    ctx.floor('exactness-monotone', 'Precision combinators analysed', n, 19)
    a = fields_demoted(ctx, f, 'to-inexact-coverage', 'datafusion_common::stats::ColumnStatistics', 'datafusion_common::stats::ColumnStatistics::to_inexact')
    b_ = fields_demoted(ctx, f, 'to-inexact-coverage', 'datafusion_common::stats::Statistics', 'datafusion_common::stats::Statistics::to_inexact')
    ctx.floor('to-inexact-coverage', 'Precision fields covered', (a or 0) + (b_ or 0), 8)
    # selftest
    import common
    st = ctx.st
    probe = common.Ctx(ctx.pid, ctx.tier, st, st, {})
    probe.known = []
    bad = 0
    for d, which, pidx, mut_idx, ret_is in combinators(st, adt='dfscan_selftest::stats::Prec', crate_prefix='dfscan_selftest::stats::'):
        bad += check_combinator(probe, st, 'st', d, which, pidx, mut_idx, ret_is, adt='dfscan_selftest::stats::Prec')
    ctx.selftest('monotonicity rule detects (Inexact,Exact)->Exact in a seeded max and an in-place add', bad >= 2)
