"""Fact production: runs `cargo +nightly check` over /repo's CURRENT working tree
with the dfscan driver as RUSTC_WORKSPACE_WRAPPER and returns a facts dir.

Cache key = content hash of every source/manifest file of /repo (tracked and
untracked, not ignored) + the driver binary.  The per-crate fact store follows
cargo's own freshness: a crate cargo did not recompile keeps its previous fact
file (same sources, same deps); a crate it recompiled gets a new one.  The
view for a key is the newest file per crate.  Fail closed: every expected
workspace crate must have a fact file carrying an end record.
"""
import hashlib, os, subprocess, sys, time, fcntl, json, shutil, glob

VERIF = os.path.dirname(os.path.dirname(os.path.abspath(__file__)))
REPO = os.environ.get('DFVERIF_REPO', '/repo')
CACHE = os.path.join(VERIF, '.cache')
DRIVER = os.path.join(VERIF, 'dfscan', 'target', 'release', 'dfscan')

# crates whose facts the rules use; all are produced by one workspace pass
EXPECTED = [
    'datafusion', 'datafusion_common', 'datafusion_common_runtime', 'datafusion_expr',
    'datafusion_expr_common', 'datafusion_execution', 'datafusion_physical_expr',
    'datafusion_physical_expr_common', 'datafusion_physical_plan', 'datafusion_optimizer',
    'datafusion_physical_optimizer', 'datafusion_proto', 'datafusion_proto_common',
    'datafusion_functions_aggregate', 'datafusion_functions_aggregate_common',
    'datafusion_functions_window', 'datafusion_functions', 'datafusion_functions_nested',
    'datafusion_spark', 'datafusion_substrait', 'datafusion_sql', 'datafusion_datasource',
    'datafusion_datasource_parquet', 'datafusion_datasource_csv', 'datafusion_datasource_json',
    'datafusion_catalog', 'datafusion_catalog_listing', 'datafusion_pruning', 'datafusion_session',
    'datafusion_cli', 'datafusion_ffi',
]


def sysroot():
    return subprocess.check_output(['rustc', '+nightly', '--print', 'sysroot'], text=True).strip()


def tree_key(repo=REPO):
    h = hashlib.sha1()
    if os.path.isdir(os.path.join(repo, '.git')) or os.path.isfile(os.path.join(repo, '.git')):
        out = subprocess.check_output(
            ['git', '-C', repo, 'ls-files', '-c', '-o', '--exclude-standard', '-z'])
        names = out.decode().split('\0')
    else:
        # a plain copy of the tree (seeded-fault regression): walk it
        names = []
        for root, dirs, fs in os.walk(repo):
            dirs[:] = [d for d in dirs if d not in ('target', '.git')]
            for fn in fs:
                names.append(os.path.relpath(os.path.join(root, fn), repo))
    files = sorted(set(f for f in names
                       if f.endswith(('.rs', '.toml', '.lock', '.proto')) and not f.startswith('target/')))
    for f in files:
        p = os.path.join(repo, f)
        try:
            with open(p, 'rb') as fh:
                data = fh.read()
        except OSError:
            continue
        h.update(f.encode())
        h.update(b'\0')
        h.update(hashlib.sha1(data).digest())
    with open(DRIVER, 'rb') as fh:
        h.update(hashlib.sha1(fh.read()).digest())
    return h.hexdigest()[:16], len(files)


def build_driver():
    if os.path.exists(DRIVER) and os.path.getmtime(DRIVER) >= os.path.getmtime(
            os.path.join(VERIF, 'dfscan', 'src', 'main.rs')):
        return
    env = dict(os.environ, CARGO_NET_OFFLINE='true')
    subprocess.check_call(['cargo', 'build', '--release', '--offline'], cwd=os.path.join(VERIF, 'dfscan'), env=env,
                          stdout=subprocess.DEVNULL, stderr=subprocess.DEVNULL)


def cargo_scan(repo, target, store, log, extra=()):
    env = dict(os.environ)
    env.update({
        'LD_LIBRARY_PATH': sysroot() + '/lib',
        'RUSTFLAGS': '-Zmir-opt-level=0 -Awarnings',
        'RUSTC_WORKSPACE_WRAPPER': DRIVER,
        'CARGO_TARGET_DIR': target,
        'DFSCAN_OUT': store,
        'CARGO_NET_OFFLINE': 'true',
        'CARGO_TERM_COLOR': 'never',
        'CARGO_INCREMENTAL': '0',     # incremental sessions replay queries and steal mir_built before the driver sees it
    })
    env.pop('RUSTC_WRAPPER', None)
    cmd = ['cargo', '+nightly', 'check', '--offline', '--workspace'] + list(extra)
    with open(log, 'w') as lf:
        rc = subprocess.call(cmd, cwd=repo, env=env, stdout=lf, stderr=subprocess.STDOUT)
    return rc


def newest_per_crate(store):
    best = {}
    for p in glob.glob(os.path.join(store, '*-lib-*.jsonl')):
        name = os.path.basename(p).rsplit('-lib-', 1)[0]
        m = os.path.getmtime(p)
        if name not in best or m > best[name][0]:
            best[name] = (m, p)
    return {k: v[1] for k, v in best.items()}


def complete(p):
    """the fact file has its end record and the driver saw every body (none stolen)"""
    try:
        with open(p, 'rb') as f:
            f.seek(max(0, os.path.getsize(p) - 400))
            tail = f.read()
        return b'"rec":"end"' in tail and b'"stolen":0}' in tail
    except OSError:
        return False


def ensure_facts(repo=REPO, variant='default', extra=(), quiet=False):
    """returns (facts_dir, info)"""
    os.makedirs(CACHE, exist_ok=True)
    build_driver()
    t0 = time.time()
    lockf = open(os.path.join(CACHE, 'scan.lock'), 'w')
    fcntl.flock(lockf, fcntl.LOCK_EX)
    try:
        key, nfiles = tree_key(repo)
        view = os.path.join(CACHE, 'facts', '%s-%s' % (variant, key))
        info = {'key': key, 'source_files_hashed': nfiles, 'variant': variant, 'scanned': False}
        if os.path.exists(os.path.join(view, 'OK')):
            info['scan_s'] = 0.0
            return view, info
        with open(DRIVER, 'rb') as fh:
            dh = hashlib.sha1(fh.read()).hexdigest()[:10]
        # one store per analysed tree location: cargo's freshness is per package path, so a store shared between /repo and a scratch copy
        # (DFVERIF_REPO) would hand the scratch copy's newer fact files to a later scan of /repo whose artifacts cargo still finds fresh
        store = os.path.join(CACHE, 'store-%s-%s-%s' % (variant, dh, hashlib.sha1(os.path.realpath(repo).encode()).hexdigest()[:8]))
        for old in glob.glob(os.path.join(CACHE, 'store-%s-*' % variant)):
            if old != store:
                shutil.rmtree(old, ignore_errors=True)
        target = os.path.join(CACHE, 'target-nightly' if variant == 'default' else 'target-' + variant)
        os.makedirs(store, exist_ok=True)
        log = os.path.join(CACHE, 'scan-%s.log' % variant)
        if not quiet:
            print('[scan] analysing /repo working tree (key %s) ...' % key, flush=True)
        rc = cargo_scan(repo, target, store, log, extra)
        if rc != 0:
            tail = open(log).read()[-3000:]
            raise RuntimeError('cargo +nightly check failed (the tree does not type-check under the driver):\n' + tail)
        files = newest_per_crate(store)
        missing = [c for c in files if not complete(files[c])] + [c for c in EXPECTED if c not in files]
        if missing:
            # store and target dir out of sync (e.g. store wiped): force members to re-check
            for fp in glob.glob(os.path.join(target, 'debug', '.fingerprint', '*')):
                b = os.path.basename(fp)
                if b.startswith(('datafusion', 'test-utils', 'test_utils')):
                    shutil.rmtree(fp, ignore_errors=True)
            rc = cargo_scan(repo, target, store, log, extra)
            if rc != 0:
                raise RuntimeError('cargo +nightly check failed:\n' + open(log).read()[-3000:])
            files = newest_per_crate(store)
            missing = [c for c in files if not complete(files[c])] + [c for c in EXPECTED if c not in files]
            if missing:
                raise RuntimeError('no complete facts exported for crates: %s' % missing)
        tmp = view + '.tmp%d' % os.getpid()
        shutil.rmtree(tmp, ignore_errors=True)
        os.makedirs(tmp)
        for c, p in files.items():
            os.link(p, os.path.join(tmp, os.path.basename(p)))
        open(os.path.join(tmp, 'OK'), 'w').write(key)
        shutil.rmtree(view, ignore_errors=True)
        os.rename(tmp, view)
        # garbage-collect: old store files not referenced by newest, old views (keep 3)
        keep = set(files.values())
        for p in glob.glob(os.path.join(store, '*.jsonl')):
            if p not in keep:
                os.unlink(p)
        views = sorted(glob.glob(os.path.join(CACHE, 'facts', variant + '-*')), key=os.path.getmtime)
        for v in views[:-6]:
            shutil.rmtree(v, ignore_errors=True)
        info['scanned'] = True
        info['scan_s'] = round(time.time() - t0, 1)
        return view, info
    finally:
        fcntl.flock(lockf, fcntl.LOCK_UN)
        lockf.close()


if __name__ == '__main__':
    d, info = ensure_facts()
    print(d, json.dumps(info))
