"""C17 — memory-pool accounting is exact: reservation/pool balance, sibling agreement of
every `impl MemoryPool`, RAII, and the type-level facts."""
from collections import Counter
from deltas import *
from locks import lock_hook, is_lock_call
import C16

TECHNIQUE = 'static analysis: exhaustive path enumeration over MIR; symbolic counter-delta balance per path; sibling agreement of trait impls; impl/constructor census from the type-checked program'
EXPLANATION = ('(1) Reservation/pool balance (and `size` is modified only by atomic read-modify-write operations, never load+store): on every non-error path of every MemoryReservation method the symbolic change applied '
               'to `size` equals the amount passed to the matching pool call (grow/try_grow +, shrink -, free: swap-to-0 with '
               'shrink(old), split: moved into the new reservation, no pool call); error paths commit nothing. (2) Every impl of '
               'MemoryPool: base pools add exactly `additional` in grow, subtract exactly `shrink` in shrink, add on the Ok path only '
               'in try_grow, on the counters that reserved() reads, and finite pools have a rejecting path; wrappers call the inner '
               'method exactly once with the same operands and update their own tracking only after it and only on success. (3) '
               'Drop for MemoryReservation reaches free, Drop for SharedRegistration reaches unregister. (4) MemoryReservation has '
               'no Clone/Copy impl, private fields, and is constructed only by register/split/new_empty. Concurrent clauses (peak '
               'under interleaving, fair-share arithmetic) are not decided.')
# path rules cut loops after a bounded number of iterations: complete over rule instances, not over all unrollings
EXHAUSTIVE = False
ASSUMPTIONS = ['closures handed to HashMap::entry().and_modify() are invoked by the callee',
               'amount identity is compared by the symbolic name of the operand (parameter / local)']

MP = 'datafusion_execution::memory_pool::'
RES = MP + 'MemoryReservation'
TRAIT = MP + 'MemoryPool'


def explore(facts, rec, prefix, depth=0, helpers=()):
    if helpers:
        return run_traces(facts, rec, C16.args_for(rec), hook=lock_hook, inline_depth=depth, inline_only=None, inline_pred=lambda n: n in helpers, time_budget=30)
    return run_traces(facts, rec, C16.args_for(rec), hook=lock_hook, inline_depth=depth, inline_only=(prefix,), time_budget=30)


def pool_calls(o, trait=TRAIT):
    out = []
    for name, args, line in calls(o):
        m = name.rsplit('::', 1)[-1]
        if (name.startswith(trait + '::') or (' as ' + trait + '>::') in name) and m in ('grow', 'shrink', 'try_grow', 'reserved', 'register', 'unregister'):
            out.append((m, tag_of(args[0]) or '?', show(args[2]).lstrip('?') if len(args) > 2 else '', line))
    return out


def reservation_method(facts, d, adt, prefix, trait, helpers=()):
    """-> (relevant, problems, npaths); raises Undecidable"""
    rec = facts.fn(d)
    outs = explore(facts, rec, prefix, helpers=helpers)
    relevant = False
    problems = set()
    has_release_path = False
    zero_swap_paths = 0
    for o in outs:
        ds = [x for x in delta_events(facts, o, inline_only=(prefix,), hook=lock_hook) if x[1] == 'size']
        pcs = [p for p in pool_calls(o, trait) if p[0] in ('grow', 'shrink', 'try_grow')]
        plain = [(atomic_op(nm), ln) for nm, a, ln in calls(o, is_atomic) if atomic_op(nm) == 'store' and (tag_of(a[0]) or '').endswith('.size')]
        if plain:
            problems.add('`size` is written with a plain atomic store (line %s): a read-modify-write split into load/store loses concurrent updates '
                         '(only swap / fetch_add / fetch_sub / fetch_update keep reserved() == sum of reservations under concurrency)' % plain[0][1])
        if not ds and not pcs:
            continue
        relevant = True
        rk = ret_kind(o)
        newres = [show(a[0]).lstrip('?') for nm, a, _ in calls(o) if nm.endswith('Atomic<usize>>::new') or nm.endswith('AtomicUsize::new') or
                  nm.endswith('atomic::Atomic::<T>::new') or '::new' in nm and 'atomic' in nm.lower()]
        built = any(e[0] == 'agg' and e[1] == adt for e in o.events)
        if rk == 'Err':
            committed = [x for x in ds if not x[4]] + [p for p in pcs if p[0] in ('grow', 'shrink')]
            if committed:
                problems.add('an error exit leaves a change behind: %s' % (committed,))
            continue
        bal = Counter()
        wildcard = 0
        for sign, fld, amt, line, try_ in ds:
            if sign == '=':
                wildcard += 1
            else:
                bal[amt] += 1 if sign == '+' else -1
        for m, recv, amt, line in pcs:
            bal[amt] -= 1 if m in ('grow', 'try_grow') else -1
        if built:
            for a in newres:
                if a not in ('0',):
                    bal[a] += 1
        for k in [k for k, v in bal.items() if v == 0]:
            del bal[k]
        if wildcard:
            # swap(size, 0): releases the whole reservation; must be matched by exactly one pool.shrink or be the zero branch
            neg = [k for k, v in bal.items() if v == 1]
            if len(bal) == 1 and len(neg) == 1:
                has_release_path = True
                continue
            if not bal:
                zero_swap_paths += 1
                continue
        if bal:
            problems.add('size and pool change differ on a %s path: residual %s (size deltas %s, pool calls %s)' % (
                rk, dict(bal), [x[:3] for x in ds], [p[:3] for p in pcs]))
    if zero_swap_paths and not has_release_path:
        problems.add('the reservation is reset to 0 but the pool is never shrunk by the old size')
    return relevant, problems, len(outs)


def check_reservation(ctx, facts, adt=RES, prefix=MP, trait=TRAIT, rule='reservation-balance'):
    bad = 0
    n = 0
    methods = [d for d in sorted(facts.fn_index) if d.startswith(adt + '::') and '{closure' not in d and not facts.fn(d).get('coroutine')]
    res = {}
    for d in methods:
        try:
            res[d] = reservation_method(facts, d, adt, prefix, trait)
        except Undecidable as e:
            res[d] = e
    # a private method that moves only one side of the pair (e.g. an extracted `subtract_from_size`) is a building block, not an operation:
    # it is followed inside its callers, which must then balance; it may only be called from methods of the reservation
    helpers = set()
    for d in methods:
        r = res[d]
        if not isinstance(r, Exception) and r[1] and not facts.fn(d).get('pub'):
            callers = [c.split('::{closure')[0] for c in facts.callers_of(d)]
            if callers and all(c in methods for c in callers):
                helpers.add(d)
    if helpers:
        for d in methods:
            if d not in helpers and any(h in facts.callees.get(d, ()) or any(h in facts.callees.get(k, ()) for k in facts.fn_index if k.startswith(d + '::{closure')) for h in helpers):
                try:
                    res[d] = reservation_method(facts, d, adt, prefix, trait, helpers=tuple(helpers))
                except Undecidable as e:
                    res[d] = e
    for d in methods:
        r = res[d]
        rec = facts.fn(d)
        if isinstance(r, Exception):
            ctx.undecided(rule, d, str(r))
            bad += 1
            continue
        ctx.analysed_fns.add(d)
        relevant, problems, npaths = r
        if not relevant:
            continue
        n += 1
        if d in helpers:
            ctx.ok(rule, d, sample={'fn': d, 'role': 'private one-sided helper, followed inside its callers', 'callers': sorted(set(facts.callers_of(d)))})
        elif problems:
            bad += 1
            ctx.fail(rule, d, ctx.loc(rec), '; '.join(sorted(problems)), key='%s|%s' % (rule, d))
        else:
            ctx.ok(rule, d, sample={'fn': d, 'paths': npaths})
    return bad, n


def check_pool_impl(ctx, facts, impl, prefix=MP, trait=TRAIT, rule='pool-siblings'):
    selfty = impl['self']
    items = {x[0]: x[1] for x in impl['items']}
    bad = 0
    short = selfty.rsplit('::', 1)[-1]
    info = {}
    for m in ('grow', 'shrink', 'try_grow', 'reserved', 'memory_limit'):
        d = items.get(m)
        if d is None or facts.fn(d) is None:
            if m != 'memory_limit':
                ctx.lost(rule, '%s::%s' % (selfty, m))
                bad += 1
            continue
        rec = facts.fn(d)
        ctx.analysed_fns.add(d)

        def hk(ex, name, deff, args):
            r = lock_hook(ex, name, deff, args)
            if r is not None:
                return r
            if is_atomic(name) and atomic_op(name) == 'load':
                return sym('load(%s)' % (tag_of(args[0]) or '?'))
            return None
        try:
            outs = run_traces(facts, rec, C16.args_for(rec), hook=hk, inline_depth=1, inline_only=(prefix,), time_budget=30)
        except Undecidable as e:
            ctx.undecided(rule, d, str(e))
            bad += 1
            continue
        info[m] = (rec, outs)
    if 'grow' not in info:
        return bad + 1
    # wrapper?
    wrapper = any(pool_calls(o, trait) for o in info['grow'][1])
    amt_name = {}
    for m in ('grow', 'shrink', 'try_grow'):
        if m in info:
            amt_name[m] = info[m][0]['locals'][3][1] or 'a2'
    fields = {}
    for m in ('grow', 'shrink', 'try_grow'):
        if m not in info:
            continue
        rec, outs = info[m]
        want_sign = '-' if m == 'shrink' else '+'
        fl = set()
        problems = set()
        n_err = 0
        for o in outs:
            ds = delta_events(facts, o, inline_only=(prefix,), hook=lock_hook)
            ds = [x for x in ds if x[0] in ('+', '-', '?') and x[1] not in ('num_spill',)]
            rk = ret_kind(o)
            pcs = [p for p in pool_calls(o, trait) if p[0] == m]
            if wrapper:
                if len(pcs) != 1 or pcs[0][2] != amt_name[m]:
                    problems.add('wrapper must call inner.%s exactly once with the same amount (got %s)' % (m, [p[:3] for p in pcs]))
                if rk == 'Err' and ds:
                    problems.add('own tracking is updated on the error path of inner.%s' % m)
                    continue
                if rk == 'Err':
                    n_err += 1
                    continue
                # own tracking after the inner call
                if pcs:
                    idx_inner = [i for i, e in enumerate(o.events) if e[0] == 'callargs' and e[1].rsplit('::', 1)[-1] == m and
                                 ((e[1].startswith(trait + '::')) or (' as ' + trait + '>::') in e[1])]
                    idx_own = [i for i, e in enumerate(o.events) if (e[0] == 'callargs' and is_atomic(e[1]) and atomic_op(e[1]) in ('fetch_add', 'fetch_sub')) or e[0] == 'mkclosure']
                    if idx_inner and idx_own and min(idx_own) < idx_inner[0]:
                        problems.add('own tracking is updated before inner.%s returned' % m)
                for sign, fld, amt, line, try_ in ds:
                    if sign != want_sign or amt != amt_name[m]:
                        problems.add('own tracking applies %s%s to %s, expected %s%s' % (sign, amt, fld, want_sign, amt_name[m]))
                    fl.add(fld)
                continue
            committed = [x for x in ds if not (x[4] and rk == 'Err')]
            if m == 'try_grow' and rk != 'Err' and committed:
                # check-and-charge atomicity: the limit test and the counter update of a fallible grow are ONE critical section
                # (one acquisition of the state lock) or ONE atomic read-modify-write (fetch_update / compare_exchange)
                locks = [e for e in o.events if e[0] == 'callargs' and is_lock_call(e[1])]
                if len(locks) > 1:
                    problems.add('try_grow takes the state lock %d times on a path that grants the request (lines %s): the limit is tested in one critical '
                                 'section and the charge is applied in another, so two concurrent requests can both pass the test and together exceed the limit'
                                 % (len(locks), [e[3] for e in locks]))
                if not locks:
                    loaded = [e for e in o.events if e[0] == 'branch' and 'load(' in str(e[1])]
                    plain = [e for e in o.events if e[0] == 'callargs' and is_atomic(e[1]) and atomic_op(e[1]) in ('fetch_add', 'store')]
                    if loaded and plain:
                        problems.add('try_grow decides on a separately loaded counter value and then applies the charge with %s: the test and the update are '
                                     'not one atomic read-modify-write' % atomic_op(plain[0][1]))
            if rk == 'Err':
                n_err += 1
                if committed:
                    problems.add('the error path of %s leaves a charge behind: %s' % (m, [x[:3] for x in committed]))
                continue
            if len(committed) != 1:
                problems.add('%s must change exactly one counter once per path, got %s' % (m, [x[:3] for x in committed]))
                continue
            sign, fld, amt, line, try_ = committed[0]
            if sign != want_sign or amt != amt_name[m]:
                problems.add('%s applies %s%s to %s, expected %s%s' % (m, sign, amt, fld, want_sign, amt_name[m]))
            fl.add(fld)
        fields[m] = fl
        info[m] = (rec, outs, n_err)
        inst = '%s::%s' % (short, m)
        if problems:
            bad += 1
            ctx.fail(rule, inst, ctx.loc(rec), '; '.join(sorted(problems)), key='%s|%s' % (rule, inst))
        else:
            ctx.ok(rule, inst, sample={'impl': selfty, 'method': m, 'wrapper': wrapper, 'counters': sorted(fl), 'error_paths': n_err})
    # same counters in grow / shrink / try_grow
    if not wrapper:
        sets = [fields.get(m) for m in ('grow', 'shrink', 'try_grow') if fields.get(m) is not None]
        if sets and any(s != sets[0] for s in sets):
            bad += 1
            ctx.fail(rule, short + '[same counters]', ctx.loc(info['grow'][0]), 'grow/shrink/try_grow do not update the same counters: %s' % fields, key='%s|%s|counters' % (rule, short))
        # reserved reads them
        if 'reserved' in info and sets:
            rec, outs = info['reserved'][0], info['reserved'][1]
            txt = ' '.join(show(o.ret) for o in outs)
            missing = [c for c in sets[0] if c not in txt]
            inst = short + '::reserved'
            if missing:
                bad += 1
                ctx.fail(rule, inst, ctx.loc(rec), 'reserved() does not read the counter(s) %s that grow/shrink maintain (returns %s)' % (missing, txt), key='%s|%s' % (rule, inst))
            else:
                ctx.ok(rule, inst, sample={'impl': selfty, 'reserved_returns': txt})
        # finite pools must be able to reject
        if 'memory_limit' in info and 'try_grow' in info:
            lim = set(show(o.ret) for o in info['memory_limit'][1])
            finite = any(l.startswith('Finite') for l in lim)
            if finite and info['try_grow'][2] == 0:
                bad += 1
                ctx.fail(rule, short + '::try_grow[limit]', ctx.loc(info['try_grow'][0]), 'the pool declares a finite limit but try_grow has no rejecting path', key='%s|%s|limit' % (rule, short))
            elif finite:
                ctx.ok(rule, short + '::try_grow[limit]')
    else:
        # a wrapper's own per-consumer tracking is symmetric: what grow / try_grow add to, shrink subtracts from
        g = fields.get('grow', set()) | fields.get('try_grow', set())
        sh = fields.get('shrink', set())
        if g != sh:
            bad += 1
            ctx.fail(rule, short + '[tracking symmetric]', ctx.loc(info['grow'][0]), 'the wrapper adds to its own tracking counter(s) %s when memory is granted but subtracts from %s when it is '
                     'returned: the per-consumer figures it reports drift away from what the consumers hold' % (sorted(g), sorted(sh) or 'nothing'), key='%s|%s|tracking-symmetric' % (rule, short))
        elif g:
            ctx.ok(rule, short + '[tracking symmetric]', sample={'impl': selfty, 'own_counters': sorted(g)})
        if 'reserved' in info:
            rec, outs = info['reserved'][0], info['reserved'][1]
            if not all(any(p[0] == 'reserved' for p in pool_calls(o, trait)) for o in outs):
                bad += 1
                ctx.fail(rule, short + '::reserved', ctx.loc(rec), 'wrapper does not delegate reserved() to the inner pool', key='%s|%s|reserved' % (rule, short))
            else:
                ctx.ok(rule, short + '::reserved')
    return bad


def run(ctx):
    f = ctx.facts
    bad, n = check_reservation(ctx, f)
    ctx.floor('reservation-balance', 'MemoryReservation methods that touch size or the pool', n, 6)
    impls = [i for i in f.impls if i.get('trait') == TRAIT]
    for i in impls:
        check_pool_impl(ctx, f, i)
    ctx.floor('pool-siblings', 'impl MemoryPool', len(impls), 5)
    # (3) RAII
    for d, want, what in (('<%s as core::ops::drop::Drop>::drop' % RES, RES + '::free', 'free'),
                          ('<%sSharedRegistration as core::ops::drop::Drop>::drop' % MP, 'unregister', 'pool.unregister')):
        rec = ctx.fn(d, 'raii')
        if rec:
            outs = explore(f, rec, MP)
            okk = all(any(nm == want or nm.rsplit('::', 1)[-1] == want for nm, a, l in calls(o)) for o in outs)
            if okk:
                ctx.ok('raii', d, sample={'drop': d, 'reaches': what})
            else:
                ctx.fail('raii', d, ctx.loc(rec), 'a path of this Drop does not reach %s' % what, key='raii|' + d)
    # (4) type-level
    bad_impls = [i.get('trait') for i in f.impls if i.get('self_adt') == RES and i.get('trait') in ('core::clone::Clone', 'core::marker::Copy')]
    if bad_impls:
        ctx.fail('type-level', 'MemoryReservation: !Clone', RES, 'MemoryReservation implements %s: a reservation could be duplicated without charging the pool' % bad_impls, key='type-level|clone')
    else:
        ctx.ok('type-level', 'MemoryReservation: !Clone, !Copy')
    adt = f.adts.get(RES)
    if adt is None:
        ctx.lost('type-level', RES)
    else:
        pub = [fl[0] for fl in adt['variants'][0]['fields'] if fl[2].startswith('Public')]
        if pub:
            ctx.fail('type-level', 'MemoryReservation: private fields', RES, 'fields %s are public' % pub, key='type-level|fields')
        else:
            ctx.ok('type-level', 'MemoryReservation: private fields')
    cons = set(f.constructors.get(RES, []))
    allowed = {MP + 'MemoryConsumer::register', RES + '::split', RES + '::new_empty'}
    extra = cons - allowed
    if extra:
        ctx.fail('type-level', 'MemoryReservation: constructors', RES, 'constructed outside register/split/new_empty: %s' % sorted(extra), key='type-level|constructors')
    elif not cons:
        ctx.lost('type-level', RES + ' constructors')
    else:
        ctx.ok('type-level', 'MemoryReservation: constructors', sample={'constructors': sorted(cons)})
    # selftests
    import common
    st = ctx.st
    probe = common.Ctx(ctx.pid, ctx.tier, st, st, {})
    probe.known = []
    SM = 'dfscan_selftest::mem::'
    b1, _ = check_reservation(probe, st, adt=SM + 'Reservation', prefix=SM, trait=SM + 'Pool', rule='st')
    ctx.selftest('balance rule detects try_grow that bumps size before the pool call can fail', b1 > 0)
    b2 = 0
    for i in st.impls:
        if i.get('trait') == SM + 'Pool':
            b2 += check_pool_impl(probe, st, i, prefix=SM, trait=SM + 'Pool', rule='st2')
    ctx.selftest('sibling rule detects a pool whose failed try_grow keeps the charge and a wrapper that tracks before delegating', b2 >= 2)
