"""C43 — configuration options round-trip through their text form."""
import re
from traces import *
import strtab, C16

TECHNIQUE = 'static analysis: key/field agreement of set / visit / reset extracted from MIR (string-literal arms, format templates, field tags); exhaustive Display/FromStr round trip of leaf option enums; ordered-trace path rule (A2): no fallible step after a write to self in any set() entry point'
EXPLANATION = ('(a) For every impl of ConfigField on a namespace struct (macro-generated and hand-written): the set of keys accepted by '
               'set, the set of keys reported by visit (decoded from the format_args templates) and the set accepted by reset are '
               'equal, and each key reads/writes the same struct field in all three. (b) For every leaf option enum with its own '
               'FromStr and Display (SpillCompression, CompressionTypeVariant, CsvQuoteStyle, MapKeyDedupPolicy, ExplainFormat, '
               'MetricType, MetricCategory, ConfigDurationFormat, DFParquetWriterVersion, JoinType): from_str(display(v)) = Ok(v) for '
               'every variant; table-driven impls (Dialect) are listed as undecided, not claimed. (c) set() with an unknown key returns '
               'an error without touching any field. (d) set-atomic: in every set(&mut self, key, value) -> Result of the configuration module, once self has been '
               'written (assignment rooted at self, or an Option/container mutator on it) the function neither returns Err nor returns the Result of a later '
               'call (an invalid value is rejected without changing any option). Numeric parsing and SET/SHOW plumbing are not decided.')
ASSUMPTIONS = ['format_args! template encoding of the analysed toolchain (literal pieces are stored verbatim)']

CF = 'datafusion_common::config::ConfigField'


def literal_keys(rec):
    """string literals compared with PartialEq::eq(str, str) in the body (the arms of `match key`)"""
    out = []
    for b in rec['bb']:
        t = b['t']
        if t[0] == 'call' and isinstance(t[1], dict) and (t[1].get('def') == 'core::cmp::PartialEq::eq') and 'str' in (t[1].get('a0') or ''):
            for a in t[2]:
                if a[0] == 'k' and 'str' in a[1]:
                    out.append(a[1]['str'])
    return out


def hook_no_dot(ex, name, deff, args):
    if name.endswith('::split_once'):
        return A('core::option::Option', 0, 'None', ())
    return None


def field_of_key(facts, rec, key, extra_args):
    """field tags touched when the function is called with this key"""
    try:
        outs = run_traces(facts, rec, [MR(-1, 0, (), sym('self')), R(S(key))] + extra_args, hook=hook_no_dot, inline_depth=0, time_budget=10, budget=300000)
    except Undecidable:
        return None, None
    fields = set()
    rets = set()
    for o in outs:
        rets.add(ret_kind(o))
        for e in o.events:
            if e[0] == 'callargs' and e[2]:
                t = tag_of(e[2][0]) or ''
                if t.startswith('self.') and e[1].rsplit('::', 1)[-1] in ('set', 'reset', 'visit'):
                    fields.add(t.split('.')[1])
            elif e[0] == 'assign' and e[1].startswith('self.'):
                fields.add(e[1].split('.')[1])
    return fields, rets


def visit_keys(facts, rec):
    """{key literal: field} from the ordered (format template, visit call) pairs"""
    try:
        outs = run_traces(facts, rec, [R(sym('self')), MR(-1, 1, (), sym('v')), R(sym('prefix')), R(sym('desc'))][:rec['argc']], inline_depth=0, time_budget=20, budget=500000)
    except Undecidable:
        return None
    res = {}
    for o in outs:
        last = None
        for e in o.events:
            if e[0] == 'callargs':
                for a in e[2]:
                    t = tag_of(a) or ''
                    if t.startswith('fmt:{}.'):
                        last = t[len('fmt:{}.'):]
                short = e[1].rsplit('::', 1)[-1]
                t0 = tag_of(e[2][0]) if e[2] else None
                if short in ('visit', 'some', 'none') and last is not None:
                    if t0 and t0.startswith('self.'):
                        res[last] = t0.split('.')[1]
                        last = None
                    elif short in ('some', 'none'):
                        # leaf visit: the value argument carries the field
                        vt = [tag_of(a) for a in e[2][1:]]
                        fl = [x.split('.')[1] for x in vt if x and x.startswith('self.')]
                        res[last] = fl[0] if fl else '?'
                        last = None
    return res


def check_namespace(ctx, facts, items, selfname, where, rule='key-field-agreement'):
    srec = facts.fn(items.get('set')) if items.get('set') else None
    vrec = facts.fn(items.get('visit')) if items.get('visit') else None
    rrec = facts.fn(items.get('reset')) if items.get('reset') else None
    if srec is None or vrec is None:
        return None
    keys = [k for k in dict.fromkeys(literal_keys(srec)) if k and ' ' not in k]
    if len(keys) < 2:
        return None
    vmap = visit_keys(facts, vrec)
    if vmap is None or not vmap:
        ctx.skip(rule, selfname, 'visit keys not extractable (no literal templates)')
        return None
    problems = []
    smap = {}
    for k in keys:
        fl, rets = field_of_key(facts, srec, k, [R(sym('value'))])
        if fl is None:
            ctx.skip(rule, selfname, 'set(%s) not explorable' % k)
            return None
        smap[k] = fl
    rkeys = None
    rmap = {}
    if rrec is not None:
        rkeys = [k for k in dict.fromkeys(literal_keys(rrec)) if k and ' ' not in k]
        for k in rkeys:
            fl, rets = field_of_key(facts, rrec, k, [])
            rmap[k] = fl or set()
    if set(keys) != set(vmap):
        problems.append('keys accepted by set but not reported by visit: %s; reported but not settable: %s' % (sorted(set(keys) - set(vmap)), sorted(set(vmap) - set(keys))))
    if rkeys is not None and len(rkeys) >= 2 and set(rkeys) != set(keys):
        problems.append('keys accepted by set but not by reset: %s; by reset only: %s' % (sorted(set(keys) - set(rkeys)), sorted(set(rkeys) - set(keys))))
    for k in keys:
        fs = smap[k]
        if k in vmap and fs and vmap[k] not in fs and vmap[k] != '?':
            problems.append('key %s: set writes %s but visit reads %s' % (k, sorted(fs), vmap[k]))
        if k in rmap and rmap[k] and fs and not (rmap[k] & fs):
            problems.append('key %s: set writes %s but reset writes %s' % (k, sorted(fs), sorted(rmap[k])))
    if problems:
        ctx.fail(rule, selfname, where, '; '.join(problems), key='%s|%s' % (rule, selfname))
        return False
    ctx.ok(rule, selfname, sample={'namespace': selfname, 'keys': len(keys), 'example': keys[:3]})
    # unknown key
    fl, rets = field_of_key(facts, srec, '__no_such_option__', [R(sym('value'))])
    if fl is not None:
        if fl or rets - {'Err'}:
            ctx.fail('unknown-key-rejected', selfname, where, 'set() with an unknown key touches %s / returns %s' % (sorted(fl), sorted(rets)), key='unknown-key-rejected|' + selfname)
        else:
            ctx.ok('unknown-key-rejected', selfname)
    return True



def invalid_text_not_defaulted(ctx, f, in_scope, rule='invalid-text-not-defaulted'):
    """Every text-to-value conversion in the configuration module (str::parse, FromStr::from_str) hands its Result on (`?`, map_err, a
    comparison, the return value); it is never consumed by unwrap_or* / unwrap_or_default / ok() — which would silently replace
    unparsable text by a default and make `set` accept a value it then does not report back."""
    import resultflow as rf
    n = 0
    parsers = [k for k in f.callers if k == 'core::str::<impl str>::parse' or k.endswith('core::str::traits::FromStr>::from_str')]
    for k in parsers:
        for c in sorted(set(f.callers[k])):
            if not in_scope(c):
                continue
            for i in range(len(f.fn_index[c])):
                rec = f.fn(c, i)
                if 'bb' not in rec:
                    continue
                for b in rec['bb']:
                    t = b['t']
                    if t[0] == 'call' and not b.get('cu') and (t[1].get('res') or t[1].get('def')) == k and not t[3][1]:
                        n += 1
                        fates = rf.fate(rec, t[3][0])
                        bad = sorted(x for x in fates if x.startswith('swallow:') or x in ('dropped',))
                        inst = '%s <- %s' % (c, k.rsplit('::', 2)[-2] + '::' + k.rsplit('::', 1)[-1])
                        ctx.analysed_fns.add(c)
                        if bad:
                            ctx.fail(rule, inst, ctx.loc(rec, t[5] if len(t) > 5 else None), 'the result of parsing configuration text is consumed by %s: text that does not parse is '
                                     'silently replaced by a default instead of being rejected' % bad, key='%s|%s' % (rule, inst))
                        else:
                            ctx.ok(rule, inst, sample={'site': c, 'parser': k, 'fate': sorted(fates)} if n <= 5 else None)
    return n

SELF_MUT = ('get_or_insert_with', 'get_or_insert', 'get_or_insert_default', 'insert', 'or_default', 'or_insert', 'or_insert_with', 'push', 'push_str',
            'extend', 'clear', 'remove', 'take', 'replace', 'truncate', 'retain', 'append')


def rooted_at_self(t):
    return bool(t) and (t == 'self' or t.startswith('self.') or re.match(r'^call:(entry|get_mut|as_mut|deref_mut)@\d+\(self[,.)]', t) is not None)


def set_atomic(ctx, facts, in_scope, rule='set-atomic'):
    """(d) 'an invalid value is rejected without changing any option': in every `set(&mut self, key, value) -> Result` of the configuration
    module, once `self` has been written (an assignment rooted at self, or a std container/Option mutator on it) the function can no
    longer fail: it neither returns Err nor returns the Result of a later call"""
    import re as _re
    n = 0
    bad = 0
    for d, i, e in sorted(facts.all_fn_entries()):
        if not in_scope(d, e) or not e[8] or len(e[8]) < 4 or '{closure' in d or d.rsplit('::', 1)[-1] != 'set' or not e[8][1].startswith('&mut'):
            continue
        if 'Result<' not in e[8][0]:
            continue
        rec = facts.fn(d, i)
        try:
            outs = run_traces(facts, rec, [MR(-1, 0, (), sym('self')), R(sym('key')), R(sym('value'))][:rec['argc']], inline_depth=0, time_budget=20,
                              budget=400000, try_tags=True)
        except Undecidable as ex:
            ctx.undecided(rule, d, str(ex))
            bad += 1
            continue
        ctx.analysed_fns.add(d)
        n += 1
        viol = None
        nmut = 0
        for o in outs:
            m = None
            for k, ev in enumerate(o.events):
                if ev[0] == 'assign' and rooted_at_self(str(ev[1])):
                    m = m or (k, 'assignment to %s' % str(ev[1])[:40], ev[3] if len(ev) > 3 else 0)
                elif (ev[0] == 'callargs' and ev[2] and ev[1].rsplit('::', 1)[-1] in SELF_MUT and
                      ev[1].startswith(('core::', 'alloc::', 'std::', '<core', '<alloc', '<std', 'hashbrown')) and rooted_at_self(tag_of(ev[2][0]) or '')):
                    m = m or (k, ev[1].rsplit('::', 1)[-1], ev[3])
            if not m:
                continue
            nmut += 1
            r = strip(o.ret)
            if isinstance(r, A) and r.name == 'Err':
                viol = viol or (m, 'returns an error')
            elif isinstance(r, U) and r.tag and _re.match(r'^call:[A-Za-z_0-9]+@', r.tag):
                later = ['call:%s@%s' % (ev[1].rsplit('::', 1)[-1], ev[3]) for ev in o.events[m[0] + 1:] if ev[0] == 'callargs']
                if norm_tag(r.tag) in later:
                    viol = viol or (m, 'returns the Result of the later call `%s`' % norm_tag(r.tag)[5:].split('@')[0])
        if viol:
            bad += 1
            ctx.fail(rule, d, ctx.loc(rec, viol[0][2] or None), 'self is modified (%s) and afterwards the function %s: an invalid value is rejected with the option already changed'
                     % (viol[0][1], viol[1]), key='%s|%s' % (rule, d))
        else:
            ctx.ok(rule, d, nontrivial=nmut > 0, sample={'set': d, 'paths': len(outs), 'paths_that_write_self': nmut} if nmut else None)
    return bad, n


def run(ctx):
    f = ctx.facts
    n = 0
    for imp in f.impls_of(CF):
        adt = f.adts.get(imp.get('self_adt') or '')
        if not adt or adt['kind'] != 'struct' or len(adt['variants'][0]['fields']) < 2:
            continue
        items = {x[0]: x[1] for x in imp['items']}
        r = check_namespace(ctx, f, items, imp['self'], '%s:%s' % (imp['file'], imp['line']))
        if r is not None:
            n += 1
    ctx.floor('key-field-agreement', 'config namespaces analysed', n, 8)
    # (b)
    fs, disp = strtab.str_impls(f)
    m = 0
    for a in sorted(a for a in fs if a in disp):
        adt = f.adts.get(a)
        if not adt or adt['kind'] != 'enum' or any(v['fields'] for v in adt['variants']) or not a.startswith('datafusion_common::'):
            continue
        rt = strtab.roundtrip(f, a, fs[a]['from_str'], disp[a]['fmt'])
        if all(s is None for s, _ in rt.values()):
            ctx.skip('display-fromstr-roundtrip', a, 'Display is not a literal table (table-driven / Debug-based): not decided')
            continue
        m += 1
        bad = ['%s -> %r -> %s' % (v, s, back) for v, (s, back) in rt.items() if s is None or back != ['Ok(%s)' % v]]
        if bad:
            ctx.fail('display-fromstr-roundtrip', a, a, 'from_str(display(v)) != v: %s' % bad, key='display-fromstr-roundtrip|' + a)
        else:
            ctx.ok('display-fromstr-roundtrip', a, sample={'enum': a, 'table': {v: s for v, (s, _) in rt.items()}})
    ctx.floor('display-fromstr-roundtrip', 'leaf option enums', m, 9)
    # (d)
    sb, sn = set_atomic(ctx, f, lambda d, e: e[7] == 'datafusion_common')
    ctx.floor('set-atomic', 'set() entry points of the configuration module', sn, 45)
    # selftest
    nt = invalid_text_not_defaulted(ctx, f, lambda c: (c[1:] if c.startswith('<') else c).startswith('datafusion_common::config'))
    ctx.floor('invalid-text-not-defaulted', 'parse sites in the configuration module', nt, 10)
    import common
    st = ctx.st
    probe = common.Ctx(ctx.pid, ctx.tier, st, st, {})
    probe.known = []
    r = check_namespace(probe, st, {'set': 'dfscan_selftest::conf::Opts::set', 'visit': 'dfscan_selftest::conf::Opts::visit'}, 'Opts', 'selftest', rule='st')
    ctx.selftest('key agreement detects a key that set accepts but visit never reports', r is False)
    invalid_text_not_defaulted(probe, st, lambda c: 'dfscan_selftest::conf::' in c, rule='st-parse')
    keys = [v['key'] for v in probe.viol if v['key'].startswith('st-parse|')]
    ctx.selftest('parse rule reports unwrap_or_default on a parse result (bad_transform), accepts the comparison form (good_transform)',
                 any('bad_transform' in x for x in keys) and not any('good_transform' in x for x in keys))
    sb2, _ = set_atomic(probe, st, lambda d, e: d.startswith('<dfscan_selftest::conf::'), rule='st-set')
    keys = sorted(v['key'] for v in probe.viol if v['rule'] == 'st-set')
    ctx.selftest('set-atomic reports the Option slot filled before a fallible inner set (Lazy) and accepts the store-after-success form (Careful) and the leaf parse-then-assign',
                 keys == ['st-set|<dfscan_selftest::conf::Lazy<F> as dfscan_selftest::conf::Field>::set'])
