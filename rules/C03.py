"""C03 — logical optimisation preserves results: the finite decision tables that
gate join rewrites, each bounded by the reference join model (the code may be
more conservative than the model, never less)."""
from jt import *

TECHNIQUE = 'finite-domain constant propagation over MIR (A1) + reference join model as a soundness bound'
EXPLANATION = ('Exhaustive extraction (per join type x flag) of the tables that gate join rewrites — '
               'push_down_filter::lr_is_preserved, JoinType::on_lr_is_preserved (+ optimizer alias), '
               'eliminate_outer_join::eliminate_outer, the join arm of PropagateEmptyRelation::rewrite (over the named '
               'locals left_empty/right_empty), push_down_limit::push_down_join — each compared as a bound with a '
               'brute-force relational model: a rewrite is enabled only where the model shows it is an identity.')
ASSUMPTIONS = ['reference model in oracles/joins.py is SQL join semantics',
               'the rewrites themselves (moving the predicate, building the projection) are not decided, only their gating tables']

OPT = 'datafusion_optimizer::'
LR = OPT + 'push_down_filter::lr_is_preserved'
ONLR_ALIAS = OPT + 'push_down_filter::on_lr_is_preserved'
ONLR = 'datafusion_common::join_type::JoinType::on_lr_is_preserved'
ELIM = OPT + 'eliminate_outer_join::eliminate_outer'
PER = '<datafusion_optimizer::propagate_empty_relation::PropagateEmptyRelation as datafusion_optimizer::optimizer::OptimizerRule>::rewrite'
PDL = OPT + 'push_down_limit::push_down_join'
LP = 'datafusion_expr::logical_plan::plan::LogicalPlan'
JOIN = 'datafusion_expr::logical_plan::plan::Join'
SIDE = ['left', 'right']


def bound_pair_table(ctx, rule, fnpath, by_ref, oracle_name, meaning):
    tab = jt_table(ctx, rule, fnpath, by_ref)
    if not tab:
        return None
    rec = ctx.facts.fn(fnpath)
    for jt, v in tab.items():
        pr = pair(v)
        for s in (0, 1):
            m = oracle(oracle_name, jt, s)
            inst = '%s(%s).%s' % (fnpath.rsplit('::', 1)[1], jt, SIDE[s])
            if pr[s] and m is False:
                ctx.fail(rule, inst, ctx.loc(rec), 'code says the %s side is preserved for %s, but in the model %s fails' % (SIDE[s], jt, meaning),
                         key='%s|%s' % (rule, inst))
            else:
                ctx.ok(rule, inst, nontrivial=pr[s], sample={'fn': fnpath, 'jt': jt, 'side': SIDE[s], 'code': pr[s], 'model_allows': m})
    return tab


def field_idx(facts, adt, name):
    for i, f in enumerate(facts.adts[adt]['variants'][0]['fields']):
        if f[0] == name:
            return i
    return None


def check_eliminate_outer(ctx, facts, fnpath, rule='eliminate-outer', jt_adt=JT):
    rec = facts.fn(fnpath)
    if rec is None:
        ctx.lost(rule, fnpath)
        return 0
    ctx.analysed_fns.add(fnpath)
    bad = 0
    for jtv in enum_domain(facts, jt_adt):
        for l in (0, 1):
            for r in (0, 1):
                ex = Explorer(facts)
                outs = ex.run(rec, [jtv, I(l), I(r)])
                v = single(outs)
                inst = 'eliminate_outer(%s,%d,%d)' % (jtv.name, l, r)
                if v is None or not isinstance(v, A):
                    ctx.undecided(rule, inst, 'not a constant')
                    bad += 1
                    continue
                nn = tuple(s for s, f in ((0, l), (1, r)) if f)
                # the flags mean: the filter above rejects rows whose <side> columns are NULL
                two_sided = jtv.name in M.TWO_SIDED
                if v.name == jtv.name:
                    ctx.ok(rule, inst, nontrivial=False)
                    continue
                if not two_sided or v.name not in M.TWO_SIDED or not oracle('null_rejecting_filter_equiv', jtv.name, v.name, nn):
                    bad += 1
                    ctx.fail(rule, inst, ctx.loc(rec), '%s rewritten to %s under null-rejection of sides %s, but the model results differ' % (
                        jtv.name, v.name, [SIDE[s] for s in nn]), key='%s|%s' % (rule, inst))
                else:
                    ctx.ok(rule, inst, sample={'jt': jtv.name, 'left_non_nullable': l, 'right_non_nullable': r, 'result': v.name})
    return bad


def tag_of(v):
    v = strip(v)
    return v.tag if isinstance(v, U) else None


def check_propagate_empty(ctx):
    rule = 'propagate-empty'
    f = ctx.facts
    rec = ctx.fn(PER, rule)
    if rec is None:
        return
    lp = f.adts.get(LP)
    if lp is None or JOIN not in f.adts:
        ctx.lost(rule, LP)
        return
    vi = [i for i, v in enumerate(lp['variants']) if v['name'] == 'Join'][0]
    fi_jt = field_idx(f, JOIN, 'join_type')
    n = 0
    HELPER = OPT + 'propagate_empty_relation::binary_plan_children_is_empty'
    name_free = HELPER in f.fn_index
    combos = [(a, b) for a in (0, 1) for b in (0, 1)] if name_free else [None]
    for jtv, combo in [(j, c) for j in enum_domain(f, JT) for c in combos]:
        joinv = U(((('f', fi_jt), jtv),), 'join')
        plan = A(LP, vi, 'Join', ((0, joinv),))
        if name_free:
            # the emptiness of the two inputs is supplied as the result of the helper that computes it (no local names involved)
            res = A('core::result::Result', 0, 'Ok', ((0, T((I(combo[0]), I(combo[1])))),))
            ex = Explorer(f, inline_depth=2, models={HELPER: (lambda ex_, a_, r=res: r)},
                          watch=(OPT + 'propagate_empty_relation::build_null_padded_projection',),
                          inline_only=('datafusion_common::tree_node::Transformed',), budget=400000)
        else:
            ex = Explorer(f, inline_depth=2, force_domain={'left_empty': BOOLS, 'right_empty': BOOLS},
                          observe=('left_empty', 'right_empty'), watch=(OPT + 'propagate_empty_relation::build_null_padded_projection',),
                          inline_only=('datafusion_common::tree_node::Transformed',), budget=400000)
        try:
            outs = ex.run(rec, [TOP, plan, TOP])
        except Undecidable as e:
            ctx.undecided(rule, 'rewrite[Join %s]' % jtv.name, str(e))
            continue
        for o in outs:
            if name_free:
                if ('call', HELPER) not in o.events:
                    continue      # a path that never asked whether the inputs are empty
                le, re_ = bool(combo[0]), bool(combo[1])
            else:
                obs = dict(o.obs)
                if 'left_empty' not in obs or not ground(obs['left_empty']) or not ground(obs['right_empty']):
                    continue  # error exit before the flags exist
                le, re_ = bool(strip(obs['left_empty']).n), bool(strip(obs['right_empty']).n)
            inst = 'rewrite[Join %s,left_empty=%s,right_empty=%s]' % (jtv.name, le, re_)
            made_empty = ('agg', 'datafusion_expr::logical_plan::plan::EmptyRelation', 'EmptyRelation') in o.events
            padded = [e for e in o.events if e[0] == 'callargs']
            n += 1
            if made_empty:
                if not oracle('empty_given', jtv.name, le, re_):
                    ctx.fail(rule, inst, ctx.loc(rec), 'join replaced by an EmptyRelation although the model result is not always empty',
                             key='%s|%s' % (rule, inst))
                else:
                    ctx.ok(rule, inst, sample={'jt': jtv.name, 'left_empty': le, 'right_empty': re_, 'action': 'EmptyRelation'})
            elif padded:
                e = padded[0]
                t = tag_of(e[2][0])
                side = 0 if t and t.endswith('left') else 1 if t and t.endswith('right') else None
                isleft = strip(e[2][3])
                other_empty = re_ if side == 0 else le
                okk = side is not None and other_empty and oracle('null_padded_passthrough', jtv.name, side) and \
                    isinstance(isleft, I) and bool(isleft.n) == (side == 0)
                if not okk:
                    ctx.fail(rule, inst, ctx.loc(rec), 'join replaced by a NULL-padded projection of %s (is_left=%s) which the model does not justify' % (t, show(isleft)),
                             key='%s|%s' % (rule, inst))
                else:
                    ctx.ok(rule, inst, sample={'jt': jtv.name, 'left_empty': le, 'right_empty': re_, 'action': 'null-padded ' + SIDE[side]})
            else:
                # either unchanged (Transformed::no) or a pass-through of one input
                r = strip(o.ret)
                t = None
                if isinstance(r, A) and r.name == 'Ok':
                    tr = strip(read_proj(r, [('f', 0)]))
                    data = strip(read_proj(tr, [('f', 0)])) if isinstance(tr, A) else None
                    t = tag_of(data) if data is not None else None
                if t and (t.endswith('.left') or t.endswith('.right')):
                    side = 0 if t.endswith('.left') else 1
                    other_empty = re_ if side == 0 else le
                    if not (other_empty and oracle('plain_passthrough', jtv.name, side)):
                        ctx.fail(rule, inst, ctx.loc(rec), 'join replaced by its %s input which the model does not justify' % SIDE[side],
                                 key='%s|%s' % (rule, inst))
                    else:
                        ctx.ok(rule, inst, sample={'jt': jtv.name, 'left_empty': le, 'right_empty': re_, 'action': 'pass-through ' + SIDE[side]})
                else:
                    ctx.ok(rule, inst, nontrivial=False)
    ctx.floor(rule, 'propagate_empty (jt,left_empty,right_empty) paths', n, 40)


def check_push_down_limit(ctx):
    rule = 'push-down-limit'
    f = ctx.facts
    rec = ctx.fn(PDL, rule)
    if rec is None:
        return
    fi_jt = field_idx(f, JOIN, 'join_type')
    for cross in (0, 1):
        models = {'alloc::vec::Vec::<T, A>::is_empty': lambda ex, a, c=cross: I(c),
                  'core::option::Option::<T>::is_none': None}
        for jtv in enum_domain(f, JT):
            ch = [(('f', fi_jt), jtv)]
            fi_filter = field_idx(f, JOIN, 'filter')
            if cross:
                ch.append((('f', fi_filter), A('core::option::Option', 0, 'None', ())))
            joinv = U(tuple(sorted(ch, key=lambda kv: repr(kv[0]))), 'join')
            ex = Explorer(f, inline_depth=2, observe=('left_limit', 'right_limit'),
                          models={k: v for k, v in models.items() if v},
                          inline_only=(OPT + 'push_down_limit::push_down_join::is_cross_join',))
            outs = ex.run(rec, [joinv, sym('limit')])
            for o in outs:
                obs = dict(o.obs)
                ll, rl = strip(obs.get('left_limit', TOP)), strip(obs.get('right_limit', TOP))
                if not isinstance(ll, A) or not isinstance(rl, A):
                    ctx.undecided(rule, 'push_down_join[%s,cross=%d]' % (jtv.name, cross), 'limits not constant')
                    continue
                pl, pr_ = ll.name == 'Some', rl.name == 'Some'
                inst = 'push_down_join[%s,%s]' % (jtv.name, 'no-condition' if cross else 'with-condition')
                if cross and jtv.name == 'Inner' and (pl or pr_):
                    okk = oracle('cross_limit_commutes', 'Inner')
                else:
                    okk = (not pl or oracle('limit_commutes_with_side', jtv.name, 0)) and \
                          (not pr_ or oracle('limit_commutes_with_side', jtv.name, 1))
                if not okk:
                    ctx.fail(rule, inst, ctx.loc(rec), 'limit pushed to %s but the model shows rows can be lost' % (
                        [s for s, p in zip(SIDE, (pl, pr_)) if p]), key='%s|%s' % (rule, inst))
                else:
                    ctx.ok(rule, inst, nontrivial=pl or pr_, sample={'jt': jtv.name, 'cross': bool(cross), 'left_limit': pl, 'right_limit': pr_})


def run(ctx):
    f = ctx.facts
    bound_pair_table(ctx, 'post-filter-preserved', LR, False, 'post_filter_commutes',
                     'sigma_p(join(L,R)) == join(sigma_p(side),other)')
    t1 = bound_pair_table(ctx, 'on-filter-preserved', ONLR, True, 'on_filter_commutes',
                          'join ON (c AND p(side)) == join(sigma_p(side), other) ON c')
    t2 = jt_table(ctx, 'on-filter-alias', ONLR_ALIAS, False)
    if t1 and t2:
        for jt in t1:
            if pair(t1[jt]) != pair(t2[jt]):
                ctx.fail('on-filter-alias', jt, ctx.loc(f.fn(ONLR_ALIAS)), 'optimizer alias disagrees with JoinType::on_lr_is_preserved',
                         key='on-filter-alias|' + jt)
            else:
                ctx.ok('on-filter-alias', jt, nontrivial=False)
    check_eliminate_outer(ctx, f, ELIM)
    check_propagate_empty(ctx)
    check_push_down_limit(ctx)
    # expression / child coverage of the LogicalPlan traversal functions (A6)
    import plancov
    plancov.check(ctx, floor=26)
    # selftest: a seeded wrong eliminate_outer in the selftest crate must be reported
    st = ctx.st
    import common
    probe = common.Ctx(ctx.pid, ctx.tier, st, st, {})
    probe.known = []
    bad = check_eliminate_outer(probe, st, 'dfscan_selftest::tables::bad_eliminate_outer', rule='st',
                                jt_adt='dfscan_selftest::tables::JoinType')
    ctx.selftest('eliminate_outer bound detects seeded Left->Inner under left null-rejection', bad > 0)
    SP = 'dfscan_selftest::plans::'
    plancov.check(probe, 'st-cov', fns={'inputs': SP + 'Plan::inputs', 'map_children': SP + 'Plan::map_children', 'apply_expressions': SP + 'Plan::apply_expressions',
                                        'map_expressions': SP + 'Plan::map_expressions'}, lp=SP + 'Plan', expr_types=(SP + 'Ex',), exempt={},
                  helper_prefix=SP, floor=None)
    keys = [v['key'] for v in probe.viol if v['key'].startswith('st-cov|')]
    ctx.selftest('plan coverage rule reports Join.filter never read by apply_expressions and nothing else',
                 len(keys) == 1 and 'Join.filter' in keys[0] and 'apply_expressions' in keys[0])
