"""C35 — logical plans and expressions survive serialization unchanged: enum tag round trips."""
from tagtab import *
import strtab
import protocov

TECHNIQUE = 'static analysis: exhaustive evaluation (A1) of every standalone domain<->protobuf enum conversion pair; operator wire-name round trip'
EXPLANATION = ('Every pair of standalone conversion functions between a fieldless domain enum and its protobuf enum (JoinType, '
               'JoinConstraint, NullEquality, NullTreatment, WindowFrameUnits, MergeIntoClauseKind, TimeUnit, IntervalUnit, '
               'CompressionTypeVariant, CsvQuoteStyle, JoinSide, ...; discovered from the signatures of all functions in the '
               'workspace) is evaluated for every variant: decode(encode(v)) = v by variant name (an encoder may refuse a variant '
               'with an explicit error, never map it to a different one). Operator::from_proto_name(name of variant) returns that '
               'variant for every Operator (the encoder writes the Debug name). Field-level agreement: for each of the 40 messages built by '
               'LogicalPlanNode::try_from_logical_plan and the 36 built by serialize_expr (closures included), no field is filled with a '
               'constant / None / empty container, and every field is read somewhere in the call tree (depth 3) of try_into_logical_plan / '
               'parse_expr; reads are attributed through enum payloads, boxes and references by the owner type of each field projection. '
               'Exceptions are frozen per (message, field) with the reason read in the source (rules/protocov.py). Whether the value written '
               'is the right one, and textual equality of whole plans, are not decided.')
ASSUMPTIONS = ['derive(Debug) prints the variant name of a fieldless enum (the wire name of Operator)']

OP = 'datafusion_expr_common::operator::Operator'


def run(ctx):
    f = ctx.facts
    bad, n = check_pairs(ctx, f, 'enum-tag-roundtrip')
    ctx.floor('enum-tag-roundtrip', 'domain<->wire enum conversion pairs', n, 12)
    # Operator wire names
    for fn in (OP + '::from_proto_name', 'datafusion_proto::logical_plan::from_proto::from_proto_binary_op'):
        rec = ctx.fn(fn, 'operator-wire-name')
        if not rec:
            continue
        badv = []
        for v in f.adts[OP]['variants']:
            outs = Explorer(f, inline_depth=2, time_budget=5).run(rec, [R(S(v['name']))])
            got = set()
            for o in outs:
                r = strip(o.ret)
                if isinstance(r, A) and r.name in ('Ok', 'Some'):
                    r = strip(read_proj(r, [('f', 0)]))
                got.add(r.name if isinstance(r, A) else '?')
            if got - {v['name'], 'None', 'Err'}:
                badv.append('%s -> %s' % (v['name'], sorted(got)))
            elif got != {v['name']}:
                ctx.skip('operator-wire-name', '%s(%s)' % (fn.rsplit('::', 1)[-1], v['name']), 'decoder refuses this operator with an explicit error/None (loud, not a silent change)')
        if badv:
            ctx.fail('operator-wire-name', fn.rsplit('::', 1)[-1], ctx.loc(rec), 'operators whose wire name does not decode to themselves: %s' % badv, key='operator-wire-name|' + fn)
        else:
            ctx.ok('operator-wire-name', fn.rsplit('::', 1)[-1], sample={'fn': fn, 'variants': len(f.adts[OP]['variants'])})
    # field-level agreement of the logical plan / expression encoders and decoders
    L = '<datafusion_proto_models::generated::datafusion::LogicalPlanNode as datafusion_proto::logical_plan::AsLogicalPlan>::'
    protocov.check_roots(ctx, 'LogicalPlan', L + 'try_from_logical_plan', L + 'try_into_logical_plan', min_messages=35)
    protocov.check_roots(ctx, 'Expr', 'datafusion_proto::logical_plan::to_proto::serialize_expr', 'datafusion_proto::logical_plan::from_proto::parse_expr', min_messages=30)
    # encoder-side coverage of the source structs
    protocov.check_encoder_reads(ctx, 'LogicalPlan', L + 'try_from_logical_plan', 'datafusion_expr::logical_plan::plan::LogicalPlan', min_structs=15)
    protocov.check_encoder_reads(ctx, 'Expr', 'datafusion_proto::logical_plan::to_proto::serialize_expr', 'datafusion_expr::expr::Expr', min_structs=10)
    protocov.oneof_roundtrip(ctx, 'datafusion_expr::expr::Expr', 'datafusion_proto::logical_plan::to_proto::serialize_expr',
                             'datafusion_proto::logical_plan::from_proto::parse_expr',
                             'datafusion_proto_models::generated::datafusion::logical_expr_node::ExprType', floor=28)
    # selftest
    import common
    st = ctx.st
    probe = common.Ctx(ctx.pid, ctx.tier, st, st, {})
    probe.known = []
    b, m = check_pairs(probe, st, 'st', select=None)
    ctx.selftest('round-trip rule detects a decoder that maps RightMark to LeftMark', b >= 1)
    SPL = 'dfscan_selftest::protos::lp::'
    n0 = len(probe.viol)
    protocov.check_encoder_reads(probe, 'Plan', SPL + 'encode', SPL + 'Plan', rule='st-src', exempt={})
    protocov.oneof_roundtrip(probe, SPL + 'Plan', SPL + 'encode', SPL + 'decode', SPL + 'Wire', rule='st-oneof')
    keys = sorted(v['key'] for v in probe.viol[n0:])
    ctx.selftest('source-struct coverage reports a plan field the encoder never reads (Scan.fetch, not Sort.*) and the oneof round trip reports a decode arm that '
                 'builds another variant through a constructor passed as a function item (IsFalse -> IsTrue)',
                 keys == ['st-oneof|IsFalse -> IsFalse', 'st-src|Scan.fetch'])
