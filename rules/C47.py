"""C47 — mixed-type comparisons are order-independent and exact for integers."""
import os, sys
sys.path.insert(0, os.path.join(os.path.dirname(os.path.dirname(os.path.abspath(__file__))), 'oracles'))
import intranges, ops3
from enumtab import *

TECHNIQUE = 'static analysis: exhaustive table extraction from MIR (A1); symmetry + integer-range containment; one-sided-arm detection over sibling match arms'
EXPLANATION = ('(a) numerical_coercion is evaluated for all 11x11 ordered pairs of integer/float types: the table is symmetric and, '
               'for integer pairs, the common type\'s value range contains both operand ranges (UInt64 x signed -> Decimal128(20,0)); '
               'float results are at least as wide as every float operand. (b) every helper in comparison_coercion\'s or_else chain '
               '(taken from the resolved callees of its closures) is evaluated on all 41x41 ordered pairs of DataType variants '
               '(payloads unknown) and must give the same abstract result for (a,b) and (b,a) — a deleted or one-sided match arm '
               'makes `a < b` and `b > a` coerce differently. (c) Operator::swap mirror law as in C04. Decimal precision/scale '
               'arithmetic, strings and temporal units (payload values) are not decided.')
ASSUMPTIONS = ['arrow DataType::is_numeric / is_null modelled from their documented variant sets',
               'abstract result = constructor shape; payload expressions are compared only as far as they are constants']

DT = 'arrow_schema::datatype::DataType'
B = 'datafusion_expr_common::type_coercion::binary::'
NUMS = ['Int8', 'Int16', 'Int32', 'Int64', 'UInt8', 'UInt16', 'UInt32', 'UInt64', 'Float16', 'Float32', 'Float64']
NUMERIC = set(NUMS) | {'Decimal32', 'Decimal64', 'Decimal128', 'Decimal256'}


def hook(ex, name, deff, args):
    if name == 'arrow_schema::datatype::DataType::is_numeric':
        v = strip(args[0])
        if isinstance(v, A):
            return I(int(v.name in NUMERIC))
    if name == 'arrow_schema::datatype::DataType::is_null':
        v = strip(args[0])
        if isinstance(v, A):
            return I(int(v.name == 'Null'))
    return None


def num_table(ctx, facts, fnpath, dt=DT, rule='numeric-common-type'):
    rec = facts.fn(fnpath)
    if rec is None:
        ctx.lost(rule, fnpath)
        return None
    ctx.analysed_fns.add(fnpath)
    tab = {}
    for a in NUMS:
        for b_ in NUMS:
            outs = Explorer(facts).run(rec, [R(mk_variant(facts, dt, a)), R(mk_variant(facts, dt, b_))])
            vals = set(strip(o.ret) for o in outs)
            if len(vals) != 1 or not ground(next(iter(vals))):
                ctx.undecided(rule, '%s(%s,%s)' % (fnpath, a, b_), 'not constant')
                return None
            tab[(a, b_)] = next(iter(vals))
    return tab


def check_num(ctx, rule, tab, where):
    bad = 0
    for (a, b_), v in sorted(tab.items()):
        inst = 'numerical_coercion(%s,%s)' % (a, b_)
        res = show(v)
        if show(tab[(b_, a)]) != res:
            bad += 1
            ctx.fail(rule, inst, where, 'not symmetric: (%s,%s)->%s but (%s,%s)->%s' % (a, b_, res, b_, a, show(tab[(b_, a)])), key=rule + '|sym|' + inst)
            continue
        if v.name != 'Some':
            bad += 1
            ctx.fail(rule, inst, where, 'no common type for two numeric types', key=rule + '|none|' + inst)
            continue
        t = strip(read_proj(v, [('f', 0)]))
        ia, ib = intranges.INT.get(a), intranges.INT.get(b_)
        if ia and ib:
            if t.name in intranges.INT:
                rng = intranges.INT[t.name]
            elif t.name.startswith('Decimal'):
                p, s = strip(read_proj(t, [('f', 0)])), strip(read_proj(t, [('f', 1)]))
                rng = intranges.decimal_range(p.n, s.n) if isinstance(p, I) and isinstance(s, I) else None
            else:
                rng = None
            if rng is None or not (intranges.contains(rng, ia) and intranges.contains(rng, ib)):
                bad += 1
                ctx.fail(rule, inst, where, 'common type %s cannot represent every value of both integer operands (wrapping comparison)' % show(t),
                         key=rule + '|range|' + inst)
                continue
        else:
            fr = max(intranges.FLOAT_RANK.get(a, 0), intranges.FLOAT_RANK.get(b_, 0))
            if intranges.FLOAT_RANK.get(t.name, 0) < fr:
                bad += 1
                ctx.fail(rule, inst, where, 'common type %s is narrower than a float operand' % show(t), key=rule + '|float|' + inst)
                continue
        ctx.ok(rule, inst, sample={'lhs': a, 'rhs': b_, 'common': show(t)})
    return bad


def run(ctx):
    f = ctx.facts
    if DT not in f.adts:
        ctx.lost('anchor', DT)
        return
    tab = num_table(ctx, f, B + 'numerical_coercion')
    if tab:
        check_num(ctx, 'numeric-common-type', tab, ctx.loc(f.fn(B + 'numerical_coercion')))
    # (b) helpers of comparison_coercion's chain
    chain = set()
    root = ctx.fn(B + 'comparison_coercion', 'mirrored-arms')
    for d in list(f.fn_index):
        if d.startswith(B + 'comparison_coercion'):
            r = f.fn(d)
            for blk in r['bb']:
                t = blk['t']
                if t[0] == 'call' and 'def' in t[1] and t[1].get('local'):
                    chain.add(t[1].get('res') or t[1]['def'])
    dom = [R(mk_variant(f, DT, v['name'])) for v in f.adts[DT]['variants']]
    n = 0
    for fn in sorted(chain):
        sg = f.sig(fn)
        if not sg or tuple(sg[1:3]) != ('&' + DT, '&' + DT) or not sg[0].startswith('core::option::Option<' + DT):
            continue
        rec = f.fn(fn)
        ctx.analysed_fns.add(fn)
        res = {}
        try:
            for a in dom:
                for b_ in dom:
                    args = [a, b_] + [TOP] * (rec['argc'] - 2)
                    outs = Explorer(f, inline_depth=2, model_hook=hook, budget=100000).run(rec, args)
                    res[(strip(a).name, strip(b_).name)] = frozenset(show(o.ret) for o in outs)
        except Undecidable as e:
            ctx.undecided('mirrored-arms', fn, str(e))
            continue
        n += 1
        short = fn.rsplit('::', 1)[1]
        asym = [(k, sorted(v), sorted(res[(k[1], k[0])])) for k, v in res.items() if k[0] < k[1] and v != res[(k[1], k[0])]]
        some = sum(1 for v in res.values() if any(x.startswith('Some') for x in v))
        if asym:
            k, v1, v2 = asym[0]
            ctx.fail('mirrored-arms', short, ctx.loc(rec), '%d operand orders coerce differently, e.g. (%s,%s)->%s but (%s,%s)->%s' % (
                len(asym), k[0], k[1], v1, k[1], k[0], v2), key='mirrored-arms|' + short)
        elif some == 0:
            n -= 1
            ctx.skip('mirrored-arms', short, 'result depends on nested field types only (no constructor shape at variant level): not decided')
        else:
            ctx.ok('mirrored-arms', short, sample={'helper': short, 'ordered_pairs': len(res), 'pairs_with_a_common_type': some})
    ctx.floor('mirrored-arms', 'comparison_coercion chain helpers analysed', n, 11)
    # (c) swap mirror law (shared with C04)
    import C04
    sw = C04.opt_table(ctx, f, 'operator-swap', C04.SWAP)
    if sw:
        C04.check_law(ctx, 'operator-swap', sw, ops3.is_mirror, 'op2(b,a) = op(a,b)', ctx.loc(f.fn(C04.SWAP)), 'swap')
    # selftest
    import common
    st = ctx.st
    probe = common.Ctx(ctx.pid, ctx.tier, st, st, {})
    probe.known = []
    t = num_table(probe, st, 'dfscan_selftest::tables::bad_numerical_coercion', dt='dfscan_selftest::tables::Dt', rule='st')
    ctx.selftest('range bound detects Int64 x UInt64 -> Int64 and asymmetry', bool(t) and check_num(probe, 'st', t, 'selftest') >= 2)
