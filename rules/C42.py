"""C42 — tree traversal and rewriting follow their recursion contract."""
import re
import os, sys
sys.path.insert(0, os.path.join(os.path.dirname(os.path.dirname(os.path.abspath(__file__))), 'oracles'))
import treenode
from enumtab import *
from traces import run_traces, ret_kind

TECHNIQUE = 'static analysis: exhaustive evaluation of the recursion combinators over {Continue, Jump, Stop} x transformed flag from MIR; composition order of the default TreeNode methods; child-field coverage of apply_children vs map_children'
EXPLANATION = ('(a) TreeNodeRecursion::visit_children/sibling/parent and Transformed::transform_children/sibling/parent are evaluated for '
               'each recursion value: whether the continuation is invoked and which recursion value comes back when it is not, against '
               'the documented contract (Jump skips children then resets, skips parents in post-order, Stop is absorbing). (b) In every '
               'transform_* / transform_data combinator the resulting `transformed` flag is true whenever the incoming flag was true '
               '(flag OR), and map_data/update_data keep the flag and the recursion value. (c) The default TreeNode methods compose '
               'them in the documented order (apply: f, then visit_children(apply_children); transform_down: f before map_children; '
               'transform_up: map_children before f; rewrite/visit: f_down, children, f_up), checked on resolved callees. (d) Child '
               'coverage: for Expr, LogicalPlan and every ExecutionPlan/PhysicalExpr node type with both, the child fields read by the '
               'visiting function equal those read by the rewriting function; every field of an ExecutionPlan impl that holds an Arc<dyn ExecutionPlan> (33 operators) is read by its children(). (e) Children-result propagation: in each of the 25 combinators of the '
               'traversal layer (map_children of Expr, LogicalPlan, Arc<T: DynTreeNode> and ConcreteTreeNode, every TreeNodeContainer::map_elements, '
               'the transform_* / rewrite defaults) every path that obtained the Transformed result of mapping children returns a value computed '
               'from that result, never a fresh Transformed::no/yes that forgets the children\'s Stop/Jump and changed-flag. User closures and node '
               'semantics are not decided.')
ASSUMPTIONS = ['oracles/treenode.py restates the documented contract of TreeNodeRecursion']

TN = 'datafusion_common::tree_node::'
TNR = TN + 'TreeNodeRecursion'
TR = TN + 'Transformed'


def called(o):
    return any(e[0] in ('callparam',) or (e[0] == 'call' and 'call_once' in e[1]) for e in o.events)


def check_visit(ctx, facts, fn, kind, rule='visit-contract', tnr_adt=TNR):
    rec = facts.fn(fn)
    if rec is None:
        ctx.lost(rule, fn)
        return 1
    ctx.analysed_fns.add(fn)
    bad = 0
    for v in enum_domain(facts, tnr_adt):
        outs = Explorer(facts, inline_depth=1).run(rec, [v, TOP])
        want_call, want_ret = treenode.CONTRACT[kind][v.name]
        did = set(called(o) for o in outs)
        inst = '%s(%s)' % (fn.rsplit('::', 1)[-1], v.name)
        problems = []
        if did != {want_call}:
            problems.append('continuation %s but the contract says it %s' % ('is invoked' if True in did else 'is not invoked', 'must be' if want_call else 'must not be'))
        if not want_call:
            rets = set()
            for o in outs:
                r = strip(o.ret)
                rr = strip(read_proj(r, [('f', 0)])) if isinstance(r, A) and r.name == 'Ok' else None
                rets.add(rr.name if isinstance(rr, A) else '?')
            if rets != {want_ret}:
                problems.append('returns %s, contract says %s' % (sorted(rets), want_ret))
        if problems:
            bad += 1
            ctx.fail(rule, inst, ctx.loc(rec), '; '.join(problems), key='%s|%s' % (rule, inst))
        else:
            ctx.ok(rule, inst, sample={'fn': fn, 'tnr': v.name, 'calls_continuation': want_call, 'returns': want_ret})
    return bad


def check_transform(ctx, facts, fn, kind, rule='transform-contract'):
    rec = facts.fn(fn)
    if rec is None:
        ctx.lost(rule, fn)
        return 1
    ctx.analysed_fns.add(fn)
    adt = facts.adts[TR]
    fld = {f[0]: k for k, f in enumerate(adt['variants'][0]['fields'])}
    bad = 0
    doms = enum_domain(facts, TNR) if kind else [None]
    for v in doms:
        for flag in (0, 1):
            fields = [(fld['data'], sym('data')), (fld['transformed'], I(flag))]
            fields.append((fld['tnr'], v if v is not None else sym('tnr')))
            selfv = A(TR, 0, 'Transformed', tuple(sorted(fields)))
            outs = Explorer(facts, inline_depth=2, inline_only=(TN,)).run(rec, [selfv, TOP])
            inst = '%s(%s,transformed=%d)' % (fn.rsplit('::', 1)[-1], v.name if v is not None else '-', flag)
            problems = []
            if kind:
                want_call, want_ret = treenode.CONTRACT[kind][v.name]
                did = set(called(o) for o in outs if not (isinstance(strip(o.ret), A) and strip(o.ret).name == 'Err' and not called(o)))
                if did != {want_call}:
                    problems.append('continuation invoked=%s, contract says %s' % (sorted(did), want_call))
            for o in outs:
                r = strip(o.ret)
                if isinstance(r, A) and r.name == 'Err':
                    continue
                t = strip(read_proj(r, [('f', 0)])) if isinstance(r, A) and r.name == 'Ok' else r
                tf = strip(read_proj(t, [('f', fld['transformed'])]))
                if flag == 1 and not (isinstance(tf, I) and tf.n == 1):
                    problems.append('an incoming transformed=true flag can be lost (result flag %s)' % show(tf))
                if kind and not called(o):
                    want_call, want_ret = treenode.CONTRACT[kind][v.name]
                    tn = strip(read_proj(t, [('f', fld['tnr'])]))
                    if not (isinstance(tn, A) and tn.name == want_ret):
                        problems.append('recursion value after skipping is %s, contract says %s' % (show(tn), want_ret))
                    if flag == 0 and not (isinstance(tf, I) and tf.n == 0):
                        problems.append('flag becomes %s without any transformation' % show(tf))
            if problems:
                bad += 1
                ctx.fail(rule, inst, ctx.loc(rec), '; '.join(sorted(set(problems))), key='%s|%s' % (rule, inst))
            else:
                ctx.ok(rule, inst)
    return bad


def call_order(facts, fn, names):
    """first-occurrence order of the given callee-name suffixes in fn followed by its nested closures (outermost first)"""
    if facts.fn(fn) is None:
        return None
    seq = []
    bodies = [fn] + sorted(d for d in facts.fn_index if d.startswith(fn + '::{closure'))
    for d in bodies:
        rec = facts.fn(d)
        for b in rec['bb']:
            if b.get('cu'):
                continue
            t = b['t']
            if t[0] == 'call' and isinstance(t[1], dict):
                nm = t[1].get('res') or t[1].get('def') or ''
                for n in names:
                    if nm.endswith(n) and n not in seq:
                        seq.append(n)
                if t[1].get('def', '').endswith(('FnOnce::call_once', 'FnMut::call_mut', 'Fn::call')) and 'f' not in seq:
                    # only calls of the user callback (a parameter / capture), not of local closures
                    a0 = t[1].get('a0', '')
                    if not a0.startswith(('{closure', '&{closure', '&mut {closure')) and '{closure@' not in a0:
                        seq.append('f')
    return seq



_TOK = re.compile(r'call:([A-Za-z_0-9]+)@(\d+)')
SUBMAP = ('map_until_stop_and_collect', 'map_elements', 'map_children', 'transform_down', 'transform_up', 'rewrite', 'transform_down_up',
          'map_expressions', 'map_subqueries', 'transform_children', 'transform_sibling', 'transform_parent')


def children_result_propagated(ctx, f, tr_prefix, in_scope, rule='children-result-propagated'):
    """In every combinator that returns a Transformed and, on a path, obtained the Transformed result R of mapping its children
    (a call that returns Transformed<_>), the value it returns on that path is computed from R (R.map_data / update_data /
    Transformed::new(.., R.transformed, R.tnr)) — never a fresh Transformed::no/yes/new(const) that forgets R's recursion value
    and changed-flag."""
    import C53
    n = 0
    for d in sorted(f.fn_index):
        sg = f.sig(d)
        if not sg or tr_prefix not in sg[0] or '{closure' in d or not in_scope(d):
            continue
        rec = f.fn(d)
        if 'bb' not in rec:
            continue

        def keep(e):
            return e[0] in ('callargs', 'variant')
        try:
            outs = run_traces(f, rec, C53.fn_args(rec), inline_depth=0, loop_visits=1, time_budget=30, try_tags=True, keep=keep, kill_dead=True)
        except Undecidable as e:
            ctx.undecided(rule, d, str(e))
            continue
        probs = set()
        k = 0
        for o in outs:
            if ret_kind(o) == 'Err':
                continue
            subs = []
            for e in o.events:
                if e[0] != 'callargs':
                    continue
                cal = e[1]
                s2 = f.sig(cal)
                short = cal.rsplit('::', 1)[-1]
                ctor = '::Transformed::<T>::' in cal or cal.rsplit('::', 2)[-2].startswith('Transformed')
                if ((s2 and tr_prefix in s2[0]) or short in SUBMAP) and not ctor:
                    subs.append((short, str(e[3])))
            if not subs:
                continue
            k += 1
            last = subs[-1]
            rt = show(o.ret)
            if last not in set(_TOK.findall(rt)):
                probs.add('a path obtains the result of %s (line %s) and then returns %s, which is not computed from it: the recursion value '
                          '(Stop/Jump) and the changed-flag of the children are forgotten' % (last[0], last[1], rt[:60]))
        if k == 0:
            continue
        n += 1
        ctx.analysed_fns.add(d)
        if probs:
            ctx.fail(rule, d, ctx.loc(rec), '; '.join(sorted(probs)), key='%s|%s' % (rule, d))
        else:
            ctx.ok(rule, d, sample={'fn': d, 'paths_with_children_result': k} if n <= 6 else None)
    return n


def physical_children_coverage(ctx, f, rule='physical-children-coverage'):
    """Every field of an ExecutionPlan implementation whose type is (a container of) Arc<dyn ExecutionPlan> is read by its children():
    a child that children() does not report is never visited, optimised or displayed by any traversal of the physical plan."""
    import plancov
    EP = 'datafusion_physical_plan::execution_plan::ExecutionPlan'
    n = 0
    for i in f.impls_of(EP):
        owner = i.get('self_adt')
        a = f.adts.get(owner) if owner else None
        if not a or a['kind'] != 'struct' or a.get('ext') or '::test' in owner or 'test_utils' in owner:
            continue
        items = dict((x[0], x[1]) for x in i['items'])
        kids = [fl[0] for fl in a['variants'][0]['fields'] if 'dyn ' + EP in fl[1]]
        if not kids or 'children' not in items:
            continue
        n += 1
        ctx.analysed_fns.add(items['children'])
        rc = plancov.reads(f, items['children'], helper_prefix='@@').get(owner, set())
        miss = [k for k in kids if k not in rc]
        inst = owner.rsplit('::', 1)[-1]
        if miss:
            ctx.fail(rule, inst, ctx.loc(f.fn(items['children'])), '%s holds child plan(s) %s that children() never reads: they are invisible to every traversal of the physical plan' % (inst, miss),
                     key='%s|%s|%s' % (rule, owner, ','.join(miss)))
        else:
            ctx.ok(rule, inst, sample={'operator': owner, 'child_fields': kids} if n <= 5 else None)
    return n

def run(ctx):
    f = ctx.facts
    for kind in ('children', 'sibling', 'parent'):
        check_visit(ctx, f, TNR + '::visit_' + kind, kind)
        check_transform(ctx, f, TR + '::<T>::transform_' + kind, kind)
    check_transform(ctx, f, TR + '::<T>::transform_data', None, rule='flag-or')
    # (c) composition order in the default methods
    APPLY = TN + 'TreeNode::apply::apply_impl'
    for fn, want in ((TN + 'TreeNode::apply::apply_impl', ['f', 'visit_children']),
                     (TN + 'TreeNode::transform_down::transform_down_impl', ['f', 'transform_children']),
                     (TN + 'TreeNode::transform_up::transform_up_impl', ['map_children', 'transform_parent'])):
        seq = call_order(f, fn, ('visit_children', 'transform_children', 'map_children', 'transform_parent', 'visit_parent'))
        if seq is None:
            ctx.lost('composition-order', fn)
            continue
        got = [x for x in seq if x in want]
        if got != want:
            ctx.fail('composition-order', fn.rsplit('::', 1)[-1], ctx.loc(f.fn(fn)), 'combinators appear in order %s, documented order is %s' % (seq, want), key='composition-order|' + fn)
        else:
            ctx.ok('composition-order', fn.rsplit('::', 1)[-1], sample={'fn': fn, 'order': seq})
    # (d) child coverage: fields read by apply_children vs map_children for the two core node types
    from taint import place_root
    cov = 0
    for adt, vis, rew in (('datafusion_expr::expr::Expr', 'datafusion_expr::tree_node::<impl datafusion_common::tree_node::TreeNode for datafusion_expr::expr::Expr>::apply_children',
                           'datafusion_expr::tree_node::<impl datafusion_common::tree_node::TreeNode for datafusion_expr::expr::Expr>::map_children'),
                          ('datafusion_expr::logical_plan::plan::LogicalPlan', 'datafusion_expr::logical_plan::tree_node::<impl datafusion_common::tree_node::TreeNode for datafusion_expr::logical_plan::plan::LogicalPlan>::apply_children',
                           'datafusion_expr::logical_plan::tree_node::<impl datafusion_common::tree_node::TreeNode for datafusion_expr::logical_plan::plan::LogicalPlan>::map_children')):
        sets = {}
        for fn in (vis, rew):
            rec = ctx.fn(fn, 'child-coverage')
            if rec is None:
                continue
            tree = [d for d in f.call_tree(fn, depth=1) if d == fn or d.startswith(fn + '::{closure') or d.startswith(adt + '::')]
            vs = set()
            for d in tree:
                r = f.fn(d)
                for b in r['bb']:
                    items = [st[2] for st in b['s'] if st[0] == '=']
                    for rv in items:
                        places = []
                        if rv[0] == 'use' and rv[1][0] in ('c', 'm'):
                            places.append(rv[1][1])
                        elif rv[0] in ('ref', 'discr'):
                            places.append(rv[1])
                        for loc, projs in places:
                            if loc == 1:
                                ds = [p[2] for p in projs if isinstance(p, list) and p[0] == 'd']
                                if ds:
                                    vs.add(ds[0])
            sets[fn] = vs
        if len(sets) == 2:
            a, b_ = sets[vis], sets[rew]
            names = set(v['name'] for v in f.adts[adt]['variants'])
            only_v, only_r = (a - b_), (b_ - a)
            inst = adt.rsplit('::', 1)[-1]
            cov += 1
            if only_v or only_r:
                ctx.fail('child-coverage', inst, ctx.loc(f.fn(rew)), 'variants whose payload is inspected only by apply_children: %s; only by map_children: %s — visiting and rewriting disagree on the children' % (
                    sorted(only_v), sorted(only_r)), key='child-coverage|' + inst)
            else:
                ctx.ok('child-coverage', inst, sample={'node': adt, 'variants_with_children': len(a), 'variants': len(names)})
    ctx.floor('child-coverage', 'node types compared', cov, 2)
    npc = physical_children_coverage(ctx, f)
    ctx.floor('physical-children-coverage', 'ExecutionPlan impls with child-plan fields', npc, 30)
    # (e) combinators hand the children's recursion value and changed-flag on
    comb = lambda d: ('tree_node::' in d or ' as datafusion_common::tree_node::TreeNode>' in d or 'TreeNodeContainer' in d) \
        and 'TreeNodeRewriter>' not in d and 'TreeNodeVisitor>' not in d
    nc = children_result_propagated(ctx, f, 'datafusion_common::tree_node::Transformed<', comb)
    ctx.floor('children-result-propagated', 'combinators that map children and return a Transformed', nc, 25)
    import common
    st = ctx.st
    probe = common.Ctx(ctx.pid, ctx.tier, st, st, {})
    probe.known = []
    b = check_visit(probe, st, 'dfscan_selftest::tree::Tnr::bad_visit_children', 'children', rule='st', tnr_adt='dfscan_selftest::tree::Tnr')
    ctx.selftest('contract rule detects visit_children that descends on Jump', b > 0)
    children_result_propagated(probe, st, 'dfscan_selftest::tree::tree_node::Transformed<', lambda d: 'dfscan_selftest::tree::tree_node::' in d, rule='st-prop')
    keys = [v['key'] for v in probe.viol if v['key'].startswith('st-prop|')]
    ctx.selftest('propagation rule detects map_children whose unchanged branch returns Transformed::no (bad_map_children), accepts good_map_children',
                 any('bad_map_children' in k for k in keys) and not any('good_map_children' in k for k in keys))
