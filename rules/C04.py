"""C04 — expression simplification never changes a value: the operator algebra
the simplifier, canonicalizer, guarantee rewriter and NOT push-down rely on."""
import os, sys
sys.path.insert(0, os.path.join(os.path.dirname(os.path.dirname(os.path.abspath(__file__))), 'oracles'))
import ops3
from enumtab import *

TECHNIQUE = 'static analysis: exhaustive table extraction from MIR (A1) vs a 3-valued operator model; who-may-map-operators census'
EXPLANATION = ('Operator::negate, Operator::swap and Operator::returns_null_on_null are extracted exhaustively (one row per '
               'Operator variant) and compared with a 3-valued SQL model: negate(op)=Some(op2) only if op2(a,b)=NOT op(a,b) for '
               'all a,b in {NULL,0,1,2} (pattern operators: for every interpretation of the underlying predicate); '
               'swap(op)=Some(op2) only if op2(b,a)=op(a,b); returns_null_on_null(op) only if op(NULL,x)=op(x,NULL)=NULL; '
               'negate is an involution where defined; is_logic_operator is exactly {AND,OR}. Census of every '
               'Operator->Operator function in the workspace: each must be one of the verified tables, a delegate of them, or '
               'satisfy the mirror law itself (physical planner reverse_ineq). The ~200 pattern rewrites, constant folding, '
               'casts and preimages are not decided.')
ASSUMPTIONS = ['oracles/ops3.py is SQL three-valued semantics for the modelled operators',
               'operators the model does not know may only be mapped to None / declared conservatively']

OP = 'datafusion_expr_common::operator::Operator'
NEG = OP + '::negate'
SWAP = OP + '::swap'
RNN = OP + '::returns_null_on_null'
LOGIC = OP + '::is_logic_operator'


def opt_table(ctx, facts, rule, fnpath, op_adt=OP, by_ref=True):
    rec = facts.fn(fnpath)
    if rec is None:
        ctx.lost(rule, fnpath)
        return None
    ctx.analysed_fns.add(fnpath)
    tab = {}
    for v in enum_domain(facts, op_adt, by_ref):
        outs = Explorer(facts).run(rec, [v])
        vals = set(strip(o.ret) for o in outs)
        name = strip(v).name
        if len(vals) != 1:
            ctx.undecided(rule, '%s(%s)' % (fnpath, name), 'not a constant')
            return None
        r = next(iter(vals))
        if isinstance(r, A) and r.name in ('Some', 'Ok'):
            inner = strip(read_proj(r, [('f', 0)]))
            if not isinstance(inner, A):
                ctx.undecided(rule, '%s(%s)' % (fnpath, name), 'payload not constant')
                return None
            tab[name] = inner.name
        elif isinstance(r, A) and r.name in ('None', 'Err'):
            tab[name] = None
        elif isinstance(r, A) and r.adt == op_adt:
            tab[name] = r.name
        elif isinstance(r, I):
            tab[name] = bool(r.n)
        else:
            ctx.undecided(rule, '%s(%s)' % (fnpath, name), 'unexpected result %s' % show(r))
            return None
    return tab


def check_law(ctx, rule, tab, law, lawname, where, fname):
    bad = 0
    for op, op2 in tab.items():
        inst = '%s(%s)' % (fname, op)
        if op2 is None:
            ctx.ok(rule, inst, nontrivial=False)
            continue
        if not (ops3.known(op) and ops3.known(op2)):
            bad += 1
            ctx.fail(rule, inst, where, '%s maps %s to %s but the reference model has no semantics for it and cannot justify the mapping' % (fname, op, op2),
                     key='%s|%s' % (rule, inst))
        elif not law(op, op2):
            bad += 1
            ctx.fail(rule, inst, where, '%s(%s)=%s violates the %s law in the 3-valued model' % (fname, op, op2, lawname), key='%s|%s' % (rule, inst))
        else:
            ctx.ok(rule, inst, sample={'fn': fname, 'op': op, 'maps_to': op2, 'law': lawname})
    return bad


def run(ctx):
    f = ctx.facts
    neg = opt_table(ctx, f, 'negate', NEG)
    if neg:
        check_law(ctx, 'negate', neg, ops3.is_negation, 'op2(a,b) = NOT op(a,b)', ctx.loc(f.fn(NEG)), 'negate')
        for op, op2 in neg.items():
            if op2 is not None and neg.get(op2) != op:
                ctx.fail('negate-involution', op, ctx.loc(f.fn(NEG)), 'negate(negate(%s)) = %s' % (op, neg.get(op2)), key='negate-involution|' + op)
            elif op2 is not None:
                ctx.ok('negate-involution', op)
    sw = opt_table(ctx, f, 'swap', SWAP)
    if sw:
        check_law(ctx, 'swap', sw, ops3.is_mirror, 'op2(b,a) = op(a,b)', ctx.loc(f.fn(SWAP)), 'swap')
        for op, op2 in sw.items():
            if op2 is not None and sw.get(op2) != op:
                ctx.fail('swap-involution', op, ctx.loc(f.fn(SWAP)), 'swap(swap(%s)) = %s' % (op, sw.get(op2)), key='swap-involution|' + op)
            elif op2 is not None:
                ctx.ok('swap-involution', op)
    rnn = opt_table(ctx, f, 'null-on-null', RNN)
    if rnn:
        for op, v in rnn.items():
            m = ops3.null_on_null(op)
            inst = 'returns_null_on_null(%s)' % op
            if v and m is False:
                ctx.fail('null-on-null', inst, ctx.loc(f.fn(RNN)), '%s can return a non-NULL value for a NULL operand in the model (e.g. FALSE AND NULL), but is declared null-propagating' % op,
                         key='null-on-null|' + inst)
            elif m is None:
                ctx.skip('null-on-null', inst, 'operator not in the reference model')
            else:
                ctx.ok('null-on-null', inst, nontrivial=(m is False) or v, sample={'op': op, 'declared': v, 'model': m})
    lg = opt_table(ctx, f, 'logic-operator', LOGIC)
    if lg:
        got = sorted(k for k, v in lg.items() if v)
        if got != ['And', 'Or']:
            ctx.fail('logic-operator', 'is_logic_operator', ctx.loc(f.fn(LOGIC)), 'logic operators are %s, expected exactly AND/OR' % got, key='logic-operator|set')
        else:
            ctx.ok('logic-operator', 'is_logic_operator')
    # ---- census of Operator -> Operator mappings
    known = {NEG: 'verified above', SWAP: 'verified above',
             '<%s as core::clone::Clone>::clone' % OP: 'derived Clone'}
    n = 0
    for d, i, e in list(f.all_fn_entries()):
        if e[4] not in ('fn', 'assoc_fn'):
            continue
        sg = e[8]
        ret, args = sg[0], list(sg[1:])
        if len(args) != 1 or args[0] not in (OP, '&' + OP):
            continue
        if ret not in (OP, 'core::option::Option<%s>' % OP, 'core::result::Result<%s, datafusion_common::error::DataFusionError>' % OP):
            continue
        r = f.fn(d, i)
        n += 1
        if d in known:
            continue
        # delegate: calls Operator::swap / negate and constructs no Operator itself
        outs = Explorer(f, inline_depth=0).run(r, [TOP])
        calls = set(ev[1] for o in outs for ev in o.events if ev[0] == 'call')
        builds = any(ev[0] == 'agg' and ev[1] == OP for o in outs for ev in o.events)
        if not builds and (SWAP in calls or NEG in calls):
            ctx.ok('operator-map-census', d, sample={'fn': d, 'class': 'delegates to ' + (SWAP if SWAP in calls else NEG)})
            continue
        tab = opt_table(ctx, f, 'operator-map-census', d, by_ref=args[0].startswith('&'))
        if tab is None:
            continue
        mapped = {k: v for k, v in tab.items() if v is not None and v != k}
        if all(ops3.known(k) and ops3.known(v) and ops3.is_mirror(k, v) for k, v in mapped.items()) and mapped:
            # identity entries must be symmetric operators among the comparison family
            cmp_ops = ['Eq', 'NotEq', 'Lt', 'LtEq', 'Gt', 'GtEq']
            bad = [k for k in cmp_ops if tab.get(k) is not None and not ops3.is_mirror(k, tab[k])]
            if bad:
                ctx.fail('operator-map-census', d, ctx.loc(r), 'mirror table is wrong for %s' % bad, key='operator-map-census|mirror|' + d)
            else:
                ctx.ok('operator-map-census', d, sample={'fn': d, 'class': 'mirror (own table)', 'table': mapped})
        elif all(ops3.known(k) and ops3.known(v) and ops3.is_negation(k, v) for k, v in mapped.items()) and mapped:
            ctx.ok('operator-map-census', d, sample={'fn': d, 'class': 'negation (own table)', 'table': mapped})
        elif all(ops3.arith_inverse(k, v) for k, v in mapped.items()) and mapped:
            ctx.ok('operator-map-census', d, sample={'fn': d, 'class': 'arithmetic inverse', 'table': mapped})
        else:
            ctx.fail('operator-map-census', d, ctx.loc(r), 'Operator->Operator mapping %s is neither a mirror, a negation nor an arithmetic inverse in the model' % mapped,
                     key='operator-map-census|' + d)
    ctx.floor('operator-map-census', 'Operator->Operator functions found', n, 6)
    # ---- selftest
    import common
    st = ctx.st
    probe = common.Ctx(ctx.pid, ctx.tier, st, st, {})
    probe.known = []
    t = opt_table(probe, st, 'st', 'dfscan_selftest::tables::Op::bad_negate', op_adt='dfscan_selftest::tables::Op')
    bad = check_law(probe, 'st', t, ops3.is_negation, 'neg', 'selftest', 'bad_negate') if t else 0
    ctx.selftest('negation law detects Lt -> Gt (off-by-one NOT)', bad > 0)
