"""A1 — finite-domain path explorer over exported mir_built bodies.

Sparse conditional constant propagation specialised per assignment of a finite
domain to chosen inputs.  Branches on known values are pruned, branches on
unknown values are all explored, local callees are inlined up to a bound, a
handful of std functions are modelled.  Nothing is executed; no solver.

Values (all hashable / immutable):
  U(children)         unknown, with optionally known sub-places
  I(n)                integer / bool / char scalar
  S(s)                string constant
  A(adt, vi, name, fields)   enum variant / struct value, fields = ((idx,val),..)
  T(items)            tuple or array
  R(v)                reference (snapshot of the referent)
  F(fd)               fn item (fd = hashable (def,res))
  C(def, caps)        closure value
"""
import sys
from collections import namedtuple

sys.setrecursionlimit(10000)


class U(namedtuple('U', 'ch tag')):
    """unknown value; `tag` is an optional symbolic origin (e.g. 'self.left') that
    survives moves, copies, borrows and identity-modelled calls"""
    __slots__ = ()

    def __repr__(self):
        t = '?' + (self.tag or '')
        return t if not self.ch else t + '{%s}' % ','.join('%s:%r' % (k, v) for k, v in self.ch)


def sym(tag):
    return U((), tag)


I = namedtuple('I', 'n')
S = namedtuple('S', 's')
A = namedtuple('A', 'adt vi name fields')
T = namedtuple('T', 'items')
R = namedtuple('R', 'v')
F = namedtuple('F', 'deff res ga')
C = namedtuple('C', 'deff caps')
# mutable reference: origin place (frame, local, projs) + current value of the referent
MR = namedtuple('MR', 'frame loc projs v')
TOP = U((), None)

STD_VARIANTS = {
    'core::option::Option': ['None', 'Some'],
    'core::result::Result': ['Ok', 'Err'],
    'core::task::poll::Poll': ['Ready', 'Pending'],
    'core::ops::control_flow::ControlFlow': ['Continue', 'Break'],
    'core::cmp::Ordering': ['Less', 'Equal', 'Greater'],
    'alloc::borrow::Cow': ['Borrowed', 'Owned'],
}
STD_DISCR = {'core::cmp::Ordering': [-1, 0, 1]}


class Undecidable(Exception):
    pass


class Trace(tuple):
    """ordered event sequence (trace mode); `|` appends.  A subclass may set `keep` (predicate on one event) to record
    only the events a rule needs, which lets the explorer merge paths that differ in irrelevant events."""
    __slots__ = ()
    keep = None

    def __or__(self, other):
        cls = type(self)
        if isinstance(other, Trace):
            return cls(tuple(self) + tuple(other))
        if not other:
            return self
        items = sorted(other, key=repr)
        if cls.keep is not None:
            items = [e for e in items if cls.keep(e)]
            if not items:
                return self
        return cls(tuple(self) + tuple(items))

    def __ror__(self, other):
        cls = type(self)
        items = sorted(other, key=repr)
        if cls.keep is not None:
            items = [e for e in items if cls.keep(e)]
        return cls(tuple(items) + tuple(self))


def norm_tag(t):
    """call-site tag without the argument-origin suffixes: 'call:f@12(call:g@3).0' -> 'call:f@12.0'"""
    if not t or '(' not in t or '@' not in t:
        return t
    out, i, n = [], 0, len(t)
    while i < n:
        ch = t[i]
        if ch == '(' and out and out[-1].isdigit() and '@' in ''.join(out[-12:]):
            depth = 0
            while i < n:
                if t[i] == '(':
                    depth += 1
                elif t[i] == ')':
                    depth -= 1
                    if depth == 0:
                        i += 1
                        break
                i += 1
            continue
        out.append(ch)
        i += 1
    return ''.join(out)


def decode_fmt_template(b):
    """format_args! template bytes -> 'lit{}lit' ; None if the encoding is not understood"""
    out, i = '', 0
    while i < len(b):
        x = b[i]
        if x == 0:
            return out if i == len(b) - 1 else None
        if x == 0xC0:
            out += '{}'
            i += 1
        elif x < 0x80:
            lit = b[i + 1:i + 1 + x]
            if len(lit) != x:
                return None
            try:
                out += lit.decode('utf-8')
            except UnicodeDecodeError:
                return None
            i += 1 + x
        else:
            return None
    return None


def tag_of(v):
    v = strip(v)
    return v.tag if isinstance(v, U) else None


def strip(v):
    while isinstance(v, (R, MR)):
        v = v.v
    return v


def ground(v):
    v = strip(v)
    if isinstance(v, (I, S, F)):
        return True
    if isinstance(v, A):
        return all(ground(x) for _, x in v.fields) and True
    if isinstance(v, T):
        return all(ground(x) for x in v.items)
    return False


def show(v):
    v0 = v
    v = strip(v)
    if isinstance(v, I):
        return str(v.n)
    if isinstance(v, S):
        return repr(v.s)
    if isinstance(v, A):
        if v.fields:
            return '%s(%s)' % (v.name, ','.join(show(x) for _, x in v.fields))
        return v.name
    if isinstance(v, T):
        return '(%s)' % ','.join(show(x) for x in v.items)
    if isinstance(v, F):
        return 'fn:' + (v.res or v.deff)
    if isinstance(v, C):
        return 'closure:' + v.deff
    if isinstance(v, U) and v.tag:
        return '?' + v.tag
    return '?'


def mk_variant(facts, adt, name, fields=()):
    vi = variant_index(facts, adt, name)
    return A(adt, vi, name, tuple(enumerate(fields)))


def variant_names(facts, adt):
    a = facts.adts.get(adt)
    if a:
        return [v['name'] for v in a['variants']]
    return STD_VARIANTS.get(adt)


def variant_index(facts, adt, name):
    return variant_names(facts, adt).index(name)


def discr_of(facts, adt, vi):
    a = facts.adts.get(adt)
    if a:
        return a['variants'][vi]['discr']
    if adt in STD_DISCR:
        return STD_DISCR[adt][vi]
    return vi


def vi_of_discr(facts, adt, d):
    a = facts.adts.get(adt)
    if a:
        for i, v in enumerate(a['variants']):
            if v['discr'] == d:
                return i
        return None
    if adt in STD_DISCR:
        return STD_DISCR[adt].index(d) if d in STD_DISCR[adt] else None
    return d


def get_child(v, key, name=None):
    if isinstance(v, U):
        for k, c in v.ch:
            if k == key:
                return c
        if v.tag is not None:
            if key == '*':
                return U((), v.tag)          # deref keeps the origin
            if key[0] == 'f':
                return U((), '%s.%s' % (v.tag, name if name else key[1]))
            if key[0] == 'd':
                return U((), v.tag)
        return TOP
    return TOP


def set_child(v, key, new):
    ch = tuple((k, c) for k, c in v.ch if k != key) + ((key, new),)
    return U(tuple(sorted(ch, key=lambda kv: repr(kv[0]))), v.tag)


def read_proj(v, projs):
    for p in projs:
        if p == '*':
            if isinstance(v, (R, MR)):
                v = v.v
            elif isinstance(v, U):
                v = get_child(v, '*')
            else:
                v = TOP
        elif p[0] == 'f':
            i = p[1]
            if isinstance(v, A):
                for k, c in v.fields:
                    if k == i:
                        v = c
                        break
                else:
                    v = TOP
            elif isinstance(v, T):
                v = v.items[i] if i < len(v.items) else TOP
            elif isinstance(v, C):
                v = v.caps[i] if i < len(v.caps) else TOP
            elif isinstance(v, U):
                v = get_child(v, ('f', i), p[2] if len(p) > 2 else None)
            else:
                v = TOP
        elif p[0] == 'd':
            if isinstance(v, A):
                if v.vi != p[1]:
                    v = TOP
            elif isinstance(v, U):
                v = get_child(v, ('d', p[1]))
            else:
                v = TOP
        elif p[0] == 'ci' and isinstance(v, T) and not p[2]:
            v = v.items[p[1]] if p[1] < len(v.items) else TOP
        else:
            v = TOP
    return v


def write_proj(v, projs, new):
    if not projs:
        return new
    p = projs[0]
    rest = projs[1:]
    if p == '*':
        if isinstance(v, R):
            return R(write_proj(v.v, rest, new))
        if isinstance(v, MR):
            return MR(v.frame, v.loc, v.projs, write_proj(v.v, rest, new))
        if isinstance(v, U):
            return set_child(v, '*', write_proj(get_child(v, '*'), rest, new))
        return TOP
    if p[0] == 'f':
        i = p[1]
        if isinstance(v, A):
            cur = read_proj(v, [p])
            nf = tuple((k, c) for k, c in v.fields if k != i) + ((i, write_proj(cur, rest, new)),)
            return A(v.adt, v.vi, v.name, tuple(sorted(nf)))
        if isinstance(v, T) and i < len(v.items):
            it = list(v.items)
            it[i] = write_proj(it[i], rest, new)
            return T(tuple(it))
        if isinstance(v, U):
            return set_child(v, ('f', i), write_proj(get_child(v, ('f', i)), rest, new))
        return TOP
    if p[0] == 'd':
        if isinstance(v, A) and v.vi == p[1]:
            return write_proj(v, rest, new)
        if isinstance(v, U):
            return set_child(v, ('d', p[1]), write_proj(get_child(v, ('d', p[1])), rest, new))
        return TOP
    return TOP


def moved_locals(ops):
    out = []
    for o in ops:
        if isinstance(o, list) and o and o[0] == 'm' and not o[1][1]:
            out.append(o[1][0])
    return out


def rv_operands(rv):
    k = rv[0]
    if k in ('use', 'repeat'):
        return [rv[1]]
    if k == 'cast':
        return [rv[2]]
    if k == 'bin':
        return [rv[2], rv[3]]
    if k == 'un':
        return [rv[2]]
    if k == 'agg':
        return list(rv[2])
    return []


def fd_name(fd):
    return fd.get('res') or fd.get('def')


IDENTITY_CALLS = (
    'core::ops::deref::Deref::deref', 'core::ops::deref::DerefMut::deref_mut', 'core::convert::AsRef::as_ref',
    'core::borrow::Borrow::borrow', 'core::clone::Clone::clone', 'alloc::borrow::ToOwned::to_owned',
    'alloc::string::String::as_str', 'alloc::string::ToString::to_string', 'core::convert::Into::into',
    'alloc::str::<impl str>::to_owned', 'core::str::<impl str>::as_ref', 'alloc::string::String::as_ref',
    'core::convert::identity', 'alloc::boxed::Box::<T>::new', 'alloc::sync::Arc::<T>::new',
    'core::str::<impl str>::trim',
)


class Outcome(namedtuple('Outcome', 'ret events obs args')):
    pass


Outcome.__new__.__defaults__ = ((),)


class Explorer:
    def __init__(self, facts, inline_depth=3, budget=200000, no_inline=(), force_domain=None,
                 observe=(), models=None, loop_visits=2, inline_only=None, watch=(), model_hook=None, time_budget=60.0, trace=False, tag_named=False, const_params=None, force_type=None, observe_types=(), inline_pred=None, try_tags=False, keep=None, kill_dead=False):
        self.facts = facts
        self.inline_depth = inline_depth
        self.budget = budget
        self.steps = 0
        self.no_inline = tuple(no_inline)
        self.force_domain = force_domain or {}
        self.observe = tuple(observe)
        self.models = models or {}
        self.loop_visits = loop_visits
        self.inline_only = inline_only
        self.watch = tuple(watch)
        self.model_hook = model_hook
        self.trace = trace
        self.tag_named = tag_named
        self.const_params = const_params or {}
        self.force_type = force_type or {}
        self.observe_types = tuple(observe_types)
        self.inline_pred = inline_pred
        self.try_tags = try_tags
        self.trace_cls = type('FilteredTrace', (Trace,), {'keep': staticmethod(keep), '__slots__': ()}) if keep is not None else Trace
        self.kill_dead = kill_dead
        import time as _t
        # wall-clock budgets are a safety net only (the step budget is the deterministic bound): scaled so that a loaded machine
        # cannot turn a decidable instance into an 'undecidable' one
        import os as _os
        self.deadline = _t.time() + time_budget * float(_os.environ.get('DFVERIF_TIME_SCALE', '5'))
        self.memo = {}
        self.cut = False

    # ------------------------------------------------------------------
    def const(self, k, depth):
        if 'fn' in k:
            fd = k['fn']
            return F(fd.get('def'), fd.get('res'), fd.get('ga'))
        if 'str' in k:
            return R(S(k['str']))
        if 'int' in k:
            ty = k['ty']
            a = self.facts.adts.get(ty)
            if a and a['kind'] == 'enum':
                vi = vi_of_discr(self.facts, ty, k['int'])
                if vi is not None and not a['variants'][vi]['fields']:
                    return A(ty, vi, a['variants'][vi]['name'], ())
            return I(k['int'])
        if 'unev' in k and 'promoted' not in k:
            rec = self.facts.fn(k['unev'])
            if rec is not None and rec['k'] == 'const' and depth < self.inline_depth + 2:
                try:
                    outs = self.run(rec, [], depth + 1)
                except Undecidable:
                    return TOP
                vals = set(o.ret for o in outs)
                if len(vals) == 1 and ground(next(iter(vals))):
                    return vals.pop()
            return sym('const:' + k['unev'])
        if 'param' in k and k['param'] in self.const_params:
            return I(self.const_params[k['param']])
        if k.get('zst') and k['ty'] == '()':
            return T(())
        if k.get('ty', '').startswith('&[u8; '):
            if 'bytes' in k:
                t = decode_fmt_template(bytes.fromhex(k['bytes']))
                return U((), ('fmt:' + t) if t is not None else ('bytes:' + k['bytes']))
            return U((), 'const:' + k['ty'])
        return TOP

    def operand(self, env, op, depth):
        if op[0] in ('c', 'm'):
            loc, projs = op[1]
            return read_proj(env.get(loc, TOP), projs)
        if op[0] == 'k':
            return self.const(op[1], depth)
        return TOP

    def binop(self, op, a, b):
        a, b = strip(a), strip(b)
        if isinstance(a, I) and isinstance(b, I):
            x, y = a.n, b.n
            if op in ('AddWithOverflow', 'SubWithOverflow', 'MulWithOverflow'):
                # checked arithmetic yields (value, overflowed); constants in the analysed tables are far from the type bounds
                r = x + y if op[0] == 'A' else x - y if op[0] == 'S' else x * y
                return T((I(r), I(0)))
            try:
                return I({
                    'Eq': lambda: int(x == y), 'Ne': lambda: int(x != y), 'Lt': lambda: int(x < y),
                    'Le': lambda: int(x <= y), 'Gt': lambda: int(x > y), 'Ge': lambda: int(x >= y),
                    'BitAnd': lambda: x & y, 'BitOr': lambda: x | y, 'BitXor': lambda: x ^ y,
                    'Add': lambda: x + y, 'Sub': lambda: x - y, 'Mul': lambda: x * y,
                    'AddWithOverflow': lambda: x + y, 'SubWithOverflow': lambda: x - y,
                }[op]())
            except KeyError:
                return TOP
        if op in ('AddWithOverflow', 'SubWithOverflow', 'Add', 'Sub') and self.trace:
            return sym('%s(%s,%s)' % (op[:3].lower(), show(a), show(b)))
        if op in ('Gt', 'Ge', 'Lt', 'Le', 'Eq', 'Ne') and self.trace:
            return sym('%s(%s,%s)' % (op.lower(), show(a), show(b)))
        # absorbing elements for bool ops
        for k, o in ((a, b), (b, a)):
            if isinstance(k, I):
                if op == 'BitAnd' and k.n == 0:
                    return I(0)
                if op == 'BitOr' and k.n == 1 and getattr(self, '_bool_or', True):
                    return I(1)
                if op == 'BitOr' and k.n == 0:
                    return o
                if op == 'BitAnd' and k.n == 1:
                    return o
        return TOP

    # ------------------------------------------------------------------
    def eq_values(self, a, b):
        """structural equality of two abstract values: 1/0/None(unknown)"""
        a, b = strip(a), strip(b)
        if isinstance(a, I) and isinstance(b, I):
            return int(a.n == b.n)
        if isinstance(a, S) and isinstance(b, S):
            return int(a.s == b.s)
        if isinstance(a, A) and isinstance(b, A):
            if a.adt != b.adt:
                return None
            if a.vi != b.vi:
                return 0
            fa, fb = dict(a.fields), dict(b.fields)
            nfields = self.nfields(a)
            if nfields is None:
                nfields = max(list(fa) + list(fb) + [-1]) + 1
            res = 1
            for i in range(nfields):
                r = self.eq_values(fa.get(i, TOP), fb.get(i, TOP))
                if r == 0:
                    return 0
                if r is None:
                    res = None
            return res
        if isinstance(a, T) and isinstance(b, T) and len(a.items) == len(b.items):
            res = 1
            for x, y in zip(a.items, b.items):
                r = self.eq_values(x, y)
                if r == 0:
                    return 0
                if r is None:
                    res = None
            return res
        return None

    def nfields(self, a):
        ad = self.facts.adts.get(a.adt)
        if ad:
            return len(ad['variants'][a.vi]['fields'])
        if a.adt in STD_VARIANTS:
            return {'None': 0, 'Some': 1, 'Ok': 1, 'Err': 1, 'Ready': 1, 'Pending': 0,
                    'Continue': 1, 'Break': 1, 'Less': 0, 'Equal': 0, 'Greater': 0,
                    'Borrowed': 1, 'Owned': 1}[a.name]
        return None

    def model_call(self, fd, args, depth):
        """returns a value, or None when not modelled"""
        name = fd_name(fd)
        deff = fd.get('def')
        if self.model_hook is not None:
            r = self.model_hook(self, name, deff, args)
            if r is not None:
                return r
        if name in self.models:
            r = self.models[name](self, args)
            if r is not None:
                return r
        if deff in self.models:
            r = self.models[deff](self, args)
            if r is not None:
                return r
        if deff in ('core::cmp::PartialEq::eq', 'core::cmp::PartialEq::ne'):
            # only std impls and derived impls are structural
            rec = self.facts.fn(fd.get('res')) if fd.get('local') else None
            if rec is None or rec.get('derived'):
                r = self.eq_values(args[0], args[1])
                if r is None:
                    if self.trace and rec is None:
                        return sym('%s(%s,%s)' % ('eq' if deff.endswith('eq') else 'ne', show(args[0]), show(args[1])))
                    return TOP if rec is None else None
                return I(r if deff.endswith('eq') else 1 - r)
            return None
        if deff == 'core::intrinsics::discriminant_value' or name == 'core::intrinsics::discriminant_value':
            v = strip(args[0])
            if isinstance(v, A):
                return I(discr_of(self.facts, v.adt, v.vi))
            return TOP
        if deff in ('core::ops::deref::Deref::deref', 'core::ops::deref::DerefMut::deref_mut') and \
                isinstance(args[0], (R, MR)) and isinstance(args[0].v, (R, MR)):
            return args[0].v      # reference to a pointer-like value (Pin<&mut T>, &&T): one level off
        if name in ('core::option::Option::<T>::as_mut', 'core::option::Option::<T>::as_ref',
                    'core::option::Option::<T>::as_deref', 'core::option::Option::<T>::as_deref_mut') and \
                isinstance(args[0], (R, MR)):
            return args[0].v
        if deff in IDENTITY_CALLS or name in IDENTITY_CALLS:
            if deff in ('core::clone::Clone::clone', 'alloc::borrow::ToOwned::to_owned',
                        'alloc::string::ToString::to_string') and isinstance(args[0], R):
                return args[0].v
            return args[0]
        if deff == 'core::convert::From::from':
            ga = fd.get('ga', '')
            # <T as From<T>>::from
            inner = ga.strip('[]').split(', ')
            if len(inner) == 2 and inner[0] == inner[1]:
                return args[0]
            if name in ('<alloc::string::String as core::convert::From<&str>>::from',):
                return args[0]
            return None
        if name in ('alloc::str::<impl str>::to_lowercase', 'alloc::str::<impl str>::to_ascii_lowercase'):
            v = strip(args[0])
            return S(v.s.lower()) if isinstance(v, S) else TOP
        if name in ('alloc::str::<impl str>::to_uppercase', 'alloc::str::<impl str>::to_ascii_uppercase'):
            v = strip(args[0])
            return S(v.s.upper()) if isinstance(v, S) else TOP
        if name in ('core::str::<impl str>::contains', 'core::str::<impl str>::starts_with', 'core::str::<impl str>::ends_with'):
            a, b = strip(args[0]), strip(args[1])
            if isinstance(a, S) and isinstance(b, S):
                if name.endswith('contains'):
                    return I(int(b.s in a.s))
                if name.endswith('starts_with'):
                    return I(int(a.s.startswith(b.s)))
                return I(int(a.s.endswith(b.s)))
            return None
        if name == 'core::str::<impl str>::is_empty':
            a = strip(args[0])
            return I(int(a.s == '')) if isinstance(a, S) else None
        if name == 'core::str::<impl str>::eq_ignore_ascii_case':
            a, b = strip(args[0]), strip(args[1])
            if isinstance(a, S) and isinstance(b, S):
                return I(int(a.s.lower() == b.s.lower()))
            return TOP
        if name == 'alloc::boxed::box_assume_init_into_vec_unsafe' or name == 'alloc::slice::<impl [T]>::into_vec':
            def find(v):
                v = strip(v)
                if isinstance(v, T):
                    return v
                if isinstance(v, U):
                    for _, c in v.ch:
                        r = find(c)
                        if r is not None:
                            return r
                return None
            r = find(args[0])
            return r if r is not None else TOP
        if deff == 'core::ops::bit::Not::not':
            v = strip(args[0])
            if isinstance(v, I) and v.n in (0, 1):
                return I(1 - v.n)
            return TOP
        if deff == 'core::ops::try_trait::Try::branch':
            v = strip(args[0])
            if isinstance(v, A):
                cf = 'core::ops::control_flow::ControlFlow'
                if v.name in ('Ok', 'Some'):
                    return A(cf, 0, 'Continue', ((0, read_proj(v, [('f', 0)])),))
                if v.name == 'Err':
                    return A(cf, 1, 'Break', ((0, A(v.adt, v.vi, v.name, v.fields)),))
                if v.name == 'None':
                    return A(cf, 1, 'Break', ((0, v),))
            if self.trace and self.try_tags and isinstance(v, U) and v.tag and not v.ch:
                # keep the origin of the tried value: Continue payload becomes 'try:<tag>.0'
                return sym('try:' + v.tag)
            return TOP
        if deff == 'core::ops::try_trait::FromResidual::from_residual':
            v = strip(args[0])
            if name.startswith('<core::result::Result<T, F> as core::ops::try_trait::FromResidual<core::result::Result<'):
                return A('core::result::Result', 1, 'Err', ((0, TOP),))
            if name.startswith('<core::option::Option<T> as core::ops::try_trait::FromResidual<core::option::Option<'):
                return A('core::option::Option', 0, 'None', ())
            if isinstance(v, A) and v.name == 'Err':
                return A('core::result::Result', 1, 'Err', ((0, TOP),))
            if isinstance(v, A) and v.name == 'None':
                return A('core::option::Option', 0, 'None', ())
            return TOP
        if name in ('core::option::Option::<T>::is_some', 'core::option::Option::<T>::is_none',
                    'core::result::Result::<T, E>::is_ok', 'core::result::Result::<T, E>::is_err'):
            v = strip(args[0])
            if isinstance(v, A):
                pos = v.name in ('Some', 'Ok')
                want = name.endswith(('is_some', 'is_ok'))
                return I(int(pos == want))
            if self.trace and isinstance(v, U) and v.tag:
                return sym('%s(%s)' % (name.rsplit('::', 1)[-1], v.tag))
            return TOP
        return None

    # ------------------------------------------------------------------
    def run(self, rec, args, depth=0):
        key = (rec['d'], rec['u'], tuple(args))
        if key in self.memo:
            return self.memo[key]
        outs = self._run(rec, args, depth)
        self.memo[key] = outs
        return outs

    def _run(self, rec, args, depth):
        bbs = rec['bb']
        locs = rec['locals']
        names = {i: n for i, (_, n) in enumerate(locs) if n}
        env0 = {}
        for i, a in enumerate(args):
            env0[i + 1] = a
        results = {}
        seen = set()
        # state: (bb, stmt_idx, env(dict), events(frozenset), dsrc(dict), visits(dict))
        stack = [(0, 0, env0, self.trace_cls() if self.trace else frozenset(), {}, {})]
        while stack:
            bb, si, env, events, dsrc, visits = stack.pop()
            self.steps += 1
            if self.steps > self.budget:
                raise Undecidable('budget exceeded in %s' % rec['d'])
            if (self.steps & 255) == 0:
                import time as _t
                if _t.time() > self.deadline:
                    raise Undecidable('time budget exceeded in %s' % rec['d'])
            if si == 0:
                sk = (bb, frozenset(env.items()), events)
                if sk in seen:
                    continue
                seen.add(sk)
                nv = visits.get(bb, 0) + 1
                if nv > self.loop_visits:
                    self.cut = True
                    results[Outcome(TOP, events | {('loopcut', rec['d'])}, ())] = 1
                    continue
                visits = dict(visits)
                visits[bb] = nv
            env = dict(env)
            dsrc = dict(dsrc)
            b = bbs[bb]
            forked = False
            stmts = b['s']
            for idx in range(si, len(stmts)):
                st = stmts[idx]
                if st[0] != '=':
                    if self.kill_dead and st[0] == 'dead':
                        env.pop(st[1], None)
                        dsrc.pop(st[1], None)
                    continue
                (loc, projs), rv = st[1], st[2]
                val = self.rvalue(env, rv, depth, dsrc, loc if not projs else None)
                if self.trace:
                    for ml in moved_locals(rv_operands(rv)):
                        if ml != loc:
                            env[ml] = TOP
                if rv[0] == 'agg' and rv[1][0] == 'adt':
                    events = events | {('agg', rv[1][1], rv[1][3])}
                elif rv[0] == 'agg' and rv[1][0] in ('closure', 'coroutine', 'coroutine_closure'):
                    events = events | {('mkclosure', rv[1][1], val)}
                if not projs:
                    nm = names.get(loc)
                    if self.force_type and not ground(val) and locs[loc][0] in self.force_type and nm:
                        for dv in self.force_type[locs[loc][0]]:
                            e2 = dict(env)
                            e2[loc] = dv
                            stack.append((bb, idx + 1, e2, events, dsrc, visits))
                        forked = True
                        break
                    if nm in self.force_domain and not ground(val):
                        for dv in self.force_domain[nm]:
                            e2 = dict(env)
                            e2[loc] = dv
                            stack.append((bb, idx + 1, e2, events, dsrc, visits))
                        forked = True
                        break
                    if self.tag_named and nm and isinstance(val, U) and val.tag is None and not val.ch:
                        val = sym(nm)
                    if self.trace and nm:
                        events = events | {('let', nm, val, st[3])}
                    env[loc] = val
                    if rv[0] != 'discr':
                        dsrc.pop(loc, None)
                    if rv[0] == 'use' and rv[1][0] in ('c', 'm') and not rv[1][1][1] and not isinstance(val, I):
                        dsrc[loc] = ('alias', rv[1][1][0])
                    elif rv[0] == 'un' and rv[1] == 'Not' and rv[2][0] in ('c', 'm') and not rv[2][1][1] and not isinstance(val, I):
                        dsrc[loc] = ('notalias', rv[2][1][0])
                else:
                    if self.trace:
                        events = events | {('assign', self.place_desc(env, loc, projs, names), val, st[3])}
                    env[loc] = write_proj(env.get(loc, TOP), projs, val)
                    if projs[0] == '*' and isinstance(env[loc], MR):
                        self.sync_mut(env, env[loc], depth)
            if forked:
                continue
            self.terminator(rec, b['t'], env, events, dsrc, visits, stack, results, depth, names)
        return list(results.keys())

    def place_desc(self, env, loc, projs, names):
        cur = env.get(loc, TOP)
        name = tag_of(cur) if isinstance(strip(cur), U) and not isinstance(cur, (R, MR)) else None
        if name is None:
            name = names.get(loc)
        for p in projs:
            if p == '*':
                cur = read_proj(cur, ['*'])
                t = tag_of(cur) if isinstance(cur, U) else None
                if t:
                    name = t
            elif p[0] == 'f':
                name = '%s.%s' % (name or '?', p[2] if len(p) > 2 and p[2] else p[1])
                cur = read_proj(cur, [p])
            elif p[0] == 'd':
                cur = read_proj(cur, [p])
            else:
                name = (name or '?') + '[]'
                cur = TOP
        return name or '?'

    def sync_mut(self, env, m, depth):
        """propagate the current value of mutable reference m to its origin (if in this
        frame) and to every alias of the reference held in this frame"""
        if m.frame == depth:
            env[m.loc] = write_proj(env.get(m.loc, TOP), list(m.projs), m.v) if m.projs else m.v
        for l, v in list(env.items()):
            if isinstance(v, MR) and v is not m and (v.frame, v.loc, v.projs) == (m.frame, m.loc, m.projs):
                env[l] = m
            elif isinstance(v, MR) and v.frame == m.frame and v.loc == m.loc and len(v.projs) < len(m.projs) \
                    and tuple(m.projs[:len(v.projs)]) == tuple(v.projs):
                # m was reborrowed from a part of v's referent (e.g. &mut self.field from &mut self): write through
                rest = [list(p) if isinstance(p, tuple) else p for p in m.projs[len(v.projs):]]
                try:
                    env[l] = MR(v.frame, v.loc, v.projs, write_proj(v.v, rest, m.v))
                except Exception:
                    pass

    def rvalue(self, env, rv, depth, dsrc, dest):
        k = rv[0]
        if k == 'use':
            return self.operand(env, rv[1], depth)
        if k == 'ref':
            loc, projs = rv[1]
            v = read_proj(env.get(loc, TOP), projs)
            if rv[2]:
                if '*' not in projs:
                    return MR(depth, loc, tuple(tuple(p) if isinstance(p, list) else p for p in projs), v)
                # reborrow through an existing reference: hand on the same mutable reference
                k = projs.index('*')
                base = read_proj(env.get(loc, TOP), projs[:k])
                if isinstance(base, MR):
                    rest = projs[k + 1:]
                    if not rest:
                        return base
                    return MR(base.frame, base.loc, base.projs + tuple(tuple(p) if isinstance(p, list) else p for p in rest), v)
                return R(v)
            return R(v)
        if k == 'rawptr':
            return TOP
        if k == 'discr':
            loc, projs = rv[1]
            v = strip(read_proj(env.get(loc, TOP), projs))
            if dest is not None:
                dsrc[dest] = (loc, projs, rv[2])
            if isinstance(v, A):
                return I(discr_of(self.facts, v.adt, v.vi))
            return TOP
        if k == 'agg':
            kind = rv[1]
            ops = tuple(self.operand(env, o, depth) for o in rv[2])
            if kind[0] in ('tuple', 'array'):
                return T(ops)
            if kind[0] == 'adt':
                return A(kind[1], kind[2], kind[3], tuple(enumerate(ops)))
            if kind[0] in ('closure', 'coroutine', 'coroutine_closure'):
                return C(kind[1], ops)
            return TOP
        if k == 'bin':
            return self.binop(rv[1], self.operand(env, rv[2], depth), self.operand(env, rv[3], depth))
        if k == 'un':
            v = strip(self.operand(env, rv[2], depth))
            if rv[1] == 'Not' and isinstance(v, I) and v.n in (0, 1):
                return I(1 - v.n)
            if rv[1] == 'Neg' and isinstance(v, I):
                return I(-v.n)
            return TOP
        if k == 'cast':
            v = self.operand(env, rv[2], depth)
            ck = rv[1]
            if 'IntToInt' in ck or 'PointerCoercion' in ck or 'PtrToPtr' in ck or 'Transmute' in ck:
                sv = strip(v)
                if 'IntToInt' in ck and isinstance(sv, A) and not sv.fields:
                    return I(discr_of(self.facts, sv.adt, sv.vi))
                return v
            return TOP
        return TOP

    def terminator(self, rec, t, env, events, dsrc, visits, stack, results, depth, names):
        k = t[0]
        if k == 'goto':
            stack.append((t[1], 0, env, events, dsrc, visits))
        elif k == 'ret':
            obs = tuple((n, env.get(i, TOP)) for i, n in sorted(names.items()) if n in self.observe)
            if self.observe_types:
                obs = obs + tuple(('%s#%d' % (rec['locals'][i][0], i), env.get(i, TOP)) for i in range(len(rec['locals']))
                                  if rec['locals'][i][0] in self.observe_types and i in env)
            results[Outcome(env.get(0, T(())), events, obs, tuple(env.get(i + 1, TOP) for i in range(rec['argc'])))] = 1
        elif k == 'switch':
            v = strip(self.operand(env, t[1], depth))
            targets, otherwise = t[2], t[3]
            if isinstance(v, I):
                for val, tg in targets:
                    if val == v.n or (v.n < 0 and val == v.n + (1 << 128)) or (v.n < 0 and val == v.n + (1 << 64)):
                        stack.append((tg, 0, env, events, dsrc, visits))
                        break
                else:
                    stack.append((otherwise, 0, env, events, dsrc, visits))
                return
            # unknown: fork, refining the switched local / its discriminant source
            sloc = t[1][1][0] if t[1][0] in ('c', 'm') and not t[1][1][1] else None
            src = dsrc.get(sloc) if sloc is not None else None
            listed = set()
            btag = tag_of(self.operand(env, t[1], depth)) if self.trace else None
            for val, tg in targets:
                listed.add(val)
                e2 = dict(env)
                vev = self.refine(e2, sloc, src, val, rec)
                ev2 = (events | {('branch', btag, val)}) if btag else events
                if vev and self.trace:
                    ev2 = ev2 | {vev}
                stack.append((tg, 0, e2, ev2, dsrc, visits))
            # otherwise
            e2 = dict(env)
            if sloc is not None:
                ty = rec['locals'][sloc][0]
                vev = None
                if ty == 'bool' and listed == {0}:
                    self.refine(e2, sloc, src, 1, rec)
                elif src is not None and src[0] not in ('alias', 'notalias'):
                    # exactly one variant not listed -> refine to it
                    vn = variant_names(self.facts, src[2])
                    if vn:
                        rest = [i for i in range(len(vn)) if discr_of(self.facts, src[2], i) not in listed]
                        if len(rest) == 1:
                            vev = self.refine(e2, sloc, src, discr_of(self.facts, src[2], rest[0]), rec)
                            if vev and self.trace:
                                events = events | {vev}
                        elif len(rest) == 0:
                            return  # unreachable otherwise
            if btag:
                ty0 = rec['locals'][sloc][0] if sloc is not None else ''
                events = events | {('branch', btag, 1, (0,)) if (ty0 == 'bool' and listed == {0}) else ('branch', btag, 'other', tuple(sorted(listed)))}
            stack.append((otherwise, 0, e2, events, dsrc, visits))
        elif k == 'call':
            self.call(rec, t, env, events, dsrc, visits, stack, results, depth)
        elif k == 'drop':
            if self.trace:
                loc, projs = t[1]
                v = read_proj(env.get(loc, TOP), projs)
                tg = tag_of(v)
                if tg:
                    events = events | {('drop', tg, t[3], loc, not projs)}
                elif isinstance(strip(v), A) and strip(v).name == 'Err' and not projs:
                    events = events | {('drop', 'Err', t[3], loc, True)}
            stack.append((t[2], 0, env, events, dsrc, visits))
        elif k == 'assert':
            stack.append((t[3], 0, env, events, dsrc, visits))
        elif k == 'yield':
            stack.append((t[2], 0, env, events | {('yield',)}, dsrc, visits))
        elif k in ('unreachable', 'resume', 'terminate', 'codrop', 'asm', 'tailcall'):
            if k in ('asm', 'tailcall'):
                results[Outcome(TOP, events | {('unsupported', k)}, ())] = 1
        else:
            raise Undecidable('terminator ' + k)

    def refine(self, env, sloc, src, val, rec):
        if sloc is not None:
            env[sloc] = I(val)
        if src is not None and src[0] in ('alias', 'notalias'):
            ty = rec['locals'][src[1]][0]
            if src[0] == 'alias' and (ty == 'bool' or ty.startswith(('u', 'i'))):
                env[src[1]] = I(val)
            elif src[0] == 'notalias' and ty == 'bool' and val in (0, 1):
                env[src[1]] = I(1 - val)
            return
        if src is not None:
            loc, projs, adt = src
            cur = strip(read_proj(env.get(loc, TOP), projs))
            if isinstance(cur, U):
                vi = vi_of_discr(self.facts, adt, val)
                vn = variant_names(self.facts, adt)
                if vi is not None and vn and vi < len(vn):
                    new = A(adt, vi, vn[vi], ())
                    # keep known children of that variant
                    ch = get_child(cur, ('d', vi))
                    if isinstance(ch, U) and ch.ch:
                        flds = tuple(sorted((k[1], c) for k, c in ch.ch if k[0] == 'f'))
                        new = A(adt, vi, vn[vi], flds)
                    if cur.tag:
                        nf = self.nfields(new)
                        have = dict(new.fields)
                        if nf:
                            ad = self.facts.adts.get(adt)
                            fl = []
                            for i in range(nf):
                                if i in have:
                                    fl.append((i, have[i]))
                                else:
                                    fname = ad['variants'][vi]['fields'][i][0] if ad else str(i)
                                    fl.append((i, sym('%s.%s' % (cur.tag, fname))))
                            new = A(adt, vi, vn[vi], tuple(fl))
                    root = env.get(loc, TOP)
                    # write through references: rebuild along projs
                    env[loc] = self._write_through(root, projs, new)
                    if cur.tag:
                        return ('variant', cur.tag, adt, vn[vi])

    def _write_through(self, root, projs, new):
        if not projs:
            return new
        p = projs[0]
        if p == '*' and isinstance(root, R):
            return R(self._write_through(root.v, projs[1:], new))
        if p == '*' and isinstance(root, U):
            return R(self._write_through(get_child(root, '*'), projs[1:], new)) if not root.ch or all(
                k == '*' for k, _ in root.ch) else write_proj(root, projs, new)
        return write_proj(root, projs, new)

    def call(self, rec, t, env, events, dsrc, visits, stack, results, depth):
        fd, argops, dest, target = t[1], t[2], t[3], t[4]
        args = [self.operand(env, a, depth) for a in argops]
        dloc, dprojs = dest
        if self.trace:
            for ml in moved_locals(argops):
                env[ml] = TOP

        margs = [(i, a) for i, a in enumerate(args) if isinstance(a, MR)]

        def cont(val, ev, final_args=None):
            if target < 0:
                return
            e2 = dict(env)
            for i, m in margs:
                if final_args is not None and i < len(final_args) and isinstance(final_args[i], MR):
                    nm = MR(m.frame, m.loc, m.projs, final_args[i].v)
                elif final_args is not None and i < len(final_args) and isinstance(final_args[i], R):
                    nm = MR(m.frame, m.loc, m.projs, final_args[i].v)
                else:
                    # callee not analysed: referent's contents unknown afterwards (its identity tag is kept)
                    tg = tag_of(m.v)
                    nm = MR(m.frame, m.loc, m.projs, sym(tg) if tg else TOP)
                self.sync_mut(e2, nm, depth)
                for l, v in list(e2.items()):
                    if isinstance(v, MR) and (v.frame, v.loc, v.projs) == (m.frame, m.loc, m.projs):
                        e2[l] = nm
            dnm = rec['locals'][dloc][1] if not dprojs else None
            if dnm and self.force_type and not ground(val) and rec['locals'][dloc][0] in self.force_type:
                for dv in self.force_type[rec['locals'][dloc][0]]:
                    e3 = dict(e2)
                    e3[dloc] = dv
                    d3 = dict(dsrc)
                    d3.pop(dloc, None)
                    stack.append((target, 0, e3, ev, d3, visits))
                return
            if dnm and dnm in self.force_domain and not ground(val):
                for dv in self.force_domain[dnm]:
                    e3 = dict(e2)
                    e3[dloc] = dv
                    d3 = dict(dsrc)
                    d3.pop(dloc, None)
                    stack.append((target, 0, e3, ev, d3, visits))
                return
            if self.tag_named and not dprojs and isinstance(val, U) and val.tag is None and not val.ch:
                nm = rec['locals'][dloc][1]
                if nm:
                    val = sym(nm)
            e2[dloc] = write_proj(e2.get(dloc, TOP), dprojs, val) if dprojs else val
            d2 = dict(dsrc)
            d2.pop(dloc, None)
            stack.append((target, 0, e2, ev, d2, visits))

        if 'ptr' in fd:
            f = strip(self.operand(env, fd['ptr'], depth))
            if isinstance(f, F):
                fd = {'def': f.deff, 'res': f.res, 'ga': f.ga, 'local': self.facts.fn(f.res or f.deff) is not None}
            else:
                cont(TOP, events | {('callptr', repr(fd['ptr']))})
                return
        name = fd_name(fd)
        deff = fd.get('def')
        # fn items passed as arguments are events (e.g. Option::map(JoinFilter::swap))
        ev = events
        for a in args:
            sa = strip(a)
            if isinstance(sa, F):
                ev = ev | {('fnarg', sa.res or sa.deff)}
        # closure / fn-item invocation through Fn* traits
        if deff in ('core::ops::function::Fn::call', 'core::ops::function::FnMut::call_mut', 'core::ops::function::FnOnce::call_once'):
            f = strip(args[0])
            tup = strip(args[1]) if len(args) > 1 else T(())
            targs = list(tup.items) if isinstance(tup, T) else None
            if isinstance(f, C) and targs is not None:
                crec = self.facts.fn(f.deff)
                if crec is not None and depth < self.inline_depth:
                    self._inline(crec, [args[0]] + targs, ev, cont, depth, f.deff)
                    return
            if isinstance(f, F) and targs is not None:
                fd = {'def': f.deff, 'res': f.res, 'ga': f.ga, 'local': self.facts.fn(f.res or f.deff) is not None}
                name, deff, args = fd_name(fd), f.deff, targs
            else:
                # calling an unknown callable: event names the local if it is a parameter
                who = argops[0]
                cont(TOP, ev | {('callparam', repr(who[1]) if who[0] in ('c', 'm') else '?')})
                return
        if self.watch and any(name.startswith(w) or deff.startswith(w) for w in self.watch):
            ev = ev | {('callargs', name, tuple(args), t[5], fd.get('ga', ''))}
        # std::mem::{take, replace, swap} on tracked mutable references
        if name in ('core::mem::take', 'core::mem::replace', 'core::mem::swap') and isinstance(args[0], (MR, R)):
            m = args[0]
            oldv = m.v
            if name == 'core::mem::take':
                newv = TOP
                ga = fd.get('ga', '') or ''
                ty = ga.strip('[]')
                base = ty.split('<', 1)[0]
                drec = self.facts.fn('<%s as core::default::Default>::default' % ty) or \
                    self.facts.fn('<%s<T> as core::default::Default>::default' % base)
                if drec is not None:
                    try:
                        outs = self.run(drec, [], depth + 1)
                        vals = set(o.ret for o in outs)
                        if len(vals) == 1:
                            newv = vals.pop()
                    except Undecidable:
                        pass
                fin = (MR(m.frame, m.loc, m.projs, newv) if isinstance(m, MR) else R(newv),)
                cont(oldv, ev | {('call', name)}, fin)
            elif name == 'core::mem::replace':
                fin = (MR(m.frame, m.loc, m.projs, args[1]) if isinstance(m, MR) else R(args[1]), args[1])
                cont(oldv, ev | {('call', name)}, fin)
            else:
                o = args[1]
                if isinstance(o, (MR, R)):
                    f0 = MR(m.frame, m.loc, m.projs, o.v) if isinstance(m, MR) else R(o.v)
                    f1 = MR(o.frame, o.loc, o.projs, oldv) if isinstance(o, MR) else R(oldv)
                    cont(T(()), ev | {('call', name)}, (f0, f1))
                else:
                    cont(T(()), ev | {('call', name)})
            return
        # Option::take through a tracked mutable reference leaves None behind
        if name == 'core::option::Option::<T>::take' and isinstance(args[0], MR):
            m = args[0]
            oldv = strip(m.v)
            if isinstance(oldv, A):
                res = oldv
            elif self.trace:
                tg = 'call:take@%s' % t[5]
                at = tag_of(m)
                if at and len(at) < 400:
                    tg += '(%s)' % at
                res = sym(tg)
            else:
                res = TOP
            none = A('core::option::Option', 0, 'None', ())
            cont(res, ev | {('call', name)}, (MR(m.frame, m.loc, m.projs, none),))
            return
        ct = self.is_ctor(name)
        if ct:
            cont(A(ct[0], ct[1], ct[2], tuple(enumerate(args))), ev | {('agg', ct[0], ct[2])}, tuple(args))
            return
        if self.hof(name, args, ev | {('call', name)}, cont, depth):
            return
        m = self.model_call(fd, args, depth)
        if m is not None:
            cont(m, ev | {('call', name)}, tuple(args))
            return
        crec = self.facts.fn(name) if fd.get('local') or self.facts.fn(name) is not None else None
        if crec is not None and fd.get('trait') and fd.get('res') in (None, fd.get('def')):
            a0 = (fd.get('a0') or '').lstrip('&').replace('mut ', '')
            if '::' not in a0 or a0.startswith(('dyn ', '(dyn ', 'impl ')) or fd.get('rk') == 'virtual':
                crec = None     # call through a type parameter / trait object: the trait's default body is not the callee
        inl = crec is not None and depth < self.inline_depth and not any(name.startswith(p) or name == p for p in self.no_inline)
        if inl and self.inline_only is not None:
            inl = any(name.startswith(p) or name.startswith('<' + p) for p in self.inline_only)
            if not inl and self.inline_pred is not None:
                inl = bool(self.inline_pred(name))
        elif crec is not None and self.inline_pred is not None and depth < self.inline_depth + 2 and not inl:
            inl = bool(self.inline_pred(name)) and not crec.get('coroutine')
        if inl and crec.get('coroutine'):
            inl = False
        if inl:
            self._inline(crec, args, ev, cont, depth, name)
            return
        # a closure handed to a callee that is not analysed may run any number of times: what it writes through its by-&mut captures
        # is unknown afterwards (e.g. `v.retain(|x| { result = Err(e); false })`)
        for a in args:
            ca = strip(a)
            if isinstance(ca, C) and ca.caps:
                wr = self.closure_written_caps(ca.deff)
                for k, cap in enumerate(ca.caps):
                    if k in wr and isinstance(cap, MR) and cap.frame == depth:
                        nm = rec['locals'][cap.loc][1] if not cap.projs else None
                        newv = sym(tag_of(cap.v) or nm or ('captured@%s' % t[5]))
                        env[cap.loc] = write_proj(env.get(cap.loc, TOP), list(cap.projs), newv) if cap.projs else newv
        if self.trace:
            ats = [tag_of(a) for a in args]
            ats = [x for x in ats if x]
            tg = 'call:%s@%s' % (name.rsplit('::', 1)[-1], t[5])
            if ats and sum(len(x) for x in ats) < 400:
                tg += '(%s)' % ','.join(ats)
            cont(sym(tg), ev | {('call', name)})
        else:
            cont(TOP, ev | {('call', name)})


    OPT = 'core::option::Option'
    RES = 'core::result::Result'

    def is_ctor(self, deff):
        """(adt, vi, name) if deff names an enum-variant / tuple-struct constructor"""
        if not deff or '::' not in deff:
            return None
        parent, last = deff.rsplit('::', 1)
        vn = variant_names(self.facts, parent)
        if vn and last in vn:
            return (parent, vn.index(last), last)
        return None

    def apply_callable(self, fv, argvals, ev, k, depth):
        """call abstract callable fv with argvals; k(val, ev) per outcome"""
        f = strip(fv)
        if isinstance(f, C):
            crec = self.facts.fn(f.deff)
            if crec is not None and depth < self.inline_depth + 2:
                try:
                    outs = self.run(crec, [fv] + list(argvals), depth + 1)
                except Undecidable:
                    k(TOP, ev | {('opaque', f.deff)})
                    return
                for o in outs:
                    k(o.ret, ev | o.events | {('call', f.deff)})
                return
        if isinstance(f, F):
            ct = self.is_ctor(f.res or f.deff) or self.is_ctor(f.deff)
            if ct:
                k(A(ct[0], ct[1], ct[2], tuple(enumerate(argvals))), ev | {('agg', ct[0], ct[2])})
                return
            name = f.res or f.deff
            m = self.model_call({'def': f.deff, 'res': f.res, 'ga': f.ga}, list(argvals), depth)
            if m is not None:
                k(m, ev | {('call', name)})
                return
            crec = self.facts.fn(name)
            if crec is not None and depth < self.inline_depth + 2 and not crec.get('coroutine'):
                try:
                    outs = self.run(crec, list(argvals), depth + 1)
                except Undecidable:
                    k(TOP, ev | {('opaque', name)})
                    return
                for o in outs:
                    k(o.ret, ev | o.events | {('call', name)})
                return
            k(TOP, ev | {('call', name)})
            return
        k(TOP, ev | {('callparam', 'hof')})

    def closure_written_caps(self, deff):
        """indices of the captured variables a closure body assigns to or borrows mutably (through its environment _1)"""
        memo = self.__dict__.setdefault('_cwc', {})
        if deff in memo:
            return memo[deff]
        out = set()
        crec = self.facts.fn(deff)
        if crec is not None and 'bb' in crec:
            def cap_of(pl):
                loc, projs = pl
                if loc != 1:
                    return None
                for p in projs:
                    if isinstance(p, list) and p[0] == 'f':
                        return p[1]
                return None
            for b in crec['bb']:
                for st in b['s']:
                    if st[0] != '=':
                        continue
                    if st[1][1]:
                        k = cap_of(st[1])
                        if k is not None:
                            out.add(k)
                    rv = st[2]
                    if rv[0] == 'ref' and len(rv) > 2 and rv[2]:
                        k = cap_of(rv[1])
                        if k is not None and any(p == '*' for p in rv[1][1]):
                            out.add(k)
        memo[deff] = out
        return out

    def hof(self, name, args, ev, cont, depth):
        """Option / Result combinators taking callables; forks over the receiver's variant"""
        if name.startswith('core::option::Option::<T>::'):
            kind, meth = 'opt', name[len('core::option::Option::<T>::'):]
        elif name.startswith('core::result::Result::<T, E>::'):
            kind, meth = 'res', name[len('core::result::Result::<T, E>::'):]
        else:
            return False
        METHS = ('map', 'and_then', 'or_else', 'or', 'unwrap_or', 'unwrap_or_else', 'map_or', 'map_or_else',
                 'ok_or', 'ok_or_else', 'ok', 'err', 'map_err', 'is_some_and', 'is_ok_and', 'unwrap', 'expect',
                 'unwrap_or_default', 'is_none_or') + (('filter',) if kind == 'opt' else ())
        if meth not in METHS:
            return False
        v = strip(args[0])
        posname, negname = ('Some', 'None') if kind == 'opt' else ('Ok', 'Err')
        adt = self.OPT if kind == 'opt' else self.RES
        cases = []
        if isinstance(v, A) and v.adt == adt:
            cases = [v]
        else:
            tg = v.tag if isinstance(v, U) else None
            pos = A(adt, 1 if kind == 'opt' else 0, posname, ((0, sym(tg) if tg else TOP),))
            neg = A(adt, 0, 'None', ()) if kind == 'opt' else A(adt, 1, 'Err', ((0, sym(tg + '.err') if tg else TOP),))
            cases = [pos, neg]
        none = A(self.OPT, 0, 'None', ())

        def some(x):
            return A(self.OPT, 1, 'Some', ((0, x),))

        def okv(x):
            return A(self.RES, 0, 'Ok', ((0, x),))

        def errv(x):
            return A(self.RES, 1, 'Err', ((0, x),))
        for c in cases:
            ispos = c.name == posname
            x = read_proj(c, [('f', 0)]) if (ispos or kind == 'res') else None
            negargs = [] if kind == 'opt' else [x]
            wrap = some if kind == 'opt' else okv
            if meth == 'map':
                if ispos:
                    self.apply_callable(args[1], [x], ev, lambda val, e: cont(wrap(val), e), depth)
                else:
                    cont(c, ev)
            elif meth == 'and_then':
                if ispos:
                    self.apply_callable(args[1], [x], ev, lambda val, e: cont(val, e), depth)
                else:
                    cont(c, ev)
            elif meth == 'or_else':
                if ispos:
                    cont(c, ev)
                else:
                    self.apply_callable(args[1], negargs, ev, lambda val, e: cont(val, e), depth)
            elif meth == 'or':
                cont(c if ispos else args[1], ev)
            elif meth == 'unwrap_or':
                cont(x if ispos else args[1], ev)
            elif meth == 'unwrap_or_default':
                cont(x if ispos else TOP, ev)
            elif meth == 'unwrap_or_else':
                if ispos:
                    cont(x, ev)
                else:
                    self.apply_callable(args[1], negargs, ev, lambda val, e: cont(val, e), depth)
            elif meth == 'map_or':
                if ispos:
                    self.apply_callable(args[2], [x], ev, lambda val, e: cont(val, e), depth)
                else:
                    cont(args[1], ev)
            elif meth == 'map_or_else':
                if ispos:
                    self.apply_callable(args[2], [x], ev, lambda val, e: cont(val, e), depth)
                else:
                    self.apply_callable(args[1], negargs, ev, lambda val, e: cont(val, e), depth)
            elif meth == 'ok_or':
                cont(okv(x) if ispos else errv(args[1]), ev)
            elif meth == 'ok_or_else':
                if ispos:
                    cont(okv(x), ev)
                else:
                    self.apply_callable(args[1], [], ev, lambda val, e: cont(errv(val), e), depth)
            elif meth == 'ok':
                cont(some(x) if ispos else none, ev)
            elif meth == 'err':
                cont(none if ispos else some(x), ev)
            elif meth == 'map_err':
                if ispos:
                    cont(c, ev)
                else:
                    self.apply_callable(args[1], [x], ev, lambda val, e: cont(errv(val), e), depth)
            elif meth in ('is_some_and', 'is_ok_and'):
                if ispos:
                    self.apply_callable(args[1], [x], ev, lambda val, e: cont(val, e), depth)
                else:
                    cont(I(0), ev)
            elif meth == 'is_none_or':
                if ispos:
                    self.apply_callable(args[1], [x], ev, lambda val, e: cont(val, e), depth)
                else:
                    cont(I(1), ev)
            elif meth == 'filter':
                if ispos:
                    def keep(val, e, c=c):
                        b = strip(val)
                        if isinstance(b, I):
                            cont(c if b.n else none, e)
                            return
                        tg = tag_of(val) if self.trace else None
                        cont(c, (e | {('branch', tg, 1, (0,))}) if tg else e)
                        cont(none, (e | {('branch', tg, 0)}) if tg else e)
                    self.apply_callable(args[1], [R(x)], ev, keep, depth)
                else:
                    cont(c, ev)
            elif meth in ('unwrap', 'expect'):
                if ispos:
                    cont(x, ev)
                # neg: panics, no continuation
        return True

    def _inline(self, crec, args, ev, cont, depth, name):
        try:
            outs = self.run(crec, args, depth + 1)
        except Undecidable:
            cont(TOP, ev | {('call', name), ('opaque', name)})
            return
        for o in outs:
            if o.args and any(isinstance(a, MR) for a in args):
                cont(o.ret, ev | o.events | {('call', name)}, o.args)
            else:
                cont(o.ret, ev | o.events | {('call', name)})


def table(facts, fnpath, domains, **kw):
    """Evaluate fn `fnpath` for every assignment in the product of `domains`
    (list of lists of abstract argument values).  Returns
    {tuple(args): [Outcome,...]}."""
    import itertools
    rec = facts.fn(fnpath)
    if rec is None:
        raise KeyError(fnpath)
    res = {}
    for combo in itertools.product(*domains):
        ex = Explorer(facts, **kw)
        res[combo] = ex.run(rec, list(combo))
    return res


def enum_domain(facts, adt, by_ref=False):
    a = facts.adts[adt]
    vals = []
    for i, v in enumerate(a['variants']):
        x = A(adt, i, v['name'], ())
        vals.append(R(x) if by_ref else x)
    return vals


BOOLS = [I(0), I(1)]
