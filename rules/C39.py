"""C39 — data-modifying statements on memory tables follow SQL semantics: statement atomicity on error and
"assignments see the pre-update row" (the two clauses whose truth is in the shape of the code)."""
import re
from traces import *

TECHNIQUE = ('static analysis: ordered-trace path exploration over MIR (A2) of every function that takes the write lock of a table partition: '
             'no fallible exit after the first store into locked table contents; origin of the batch handed to expression evaluation')
EXPLANATION = ('Instances are found by resolved callee: every function (async bodies: the coroutine before the state-machine transform) of the '
               'memory-table crates that acquires tokio RwLock::write on a partition (INSERT sink, DELETE, UPDATE). (a) commit-after-fallible: on '
               'every explored path (loops unrolled twice, so "second partition fails after the first was committed" is a path), once table '
               'contents were stored through a write guard (assignment through the guard or a Vec mutator on it) the function does not return '
               'an error: a failing statement leaves the table as it was, as the SQL reference does. (b) pre-update row: every batch handed '
               'to PhysicalExpr::evaluate* or to the filter-mask helper inside such a function is an element of the locked partition (origin: '
               'iterator over the guard), never a batch built in the same function — all assignments and the WHERE clause see the row as it was '
               'before the statement. Reported row counts, NULL handling of the mask and the values written are not decided.')
# path rules cut loops after a bounded number of iterations: complete over rule instances, not over all unrollings
EXHAUSTIVE = False
ASSUMPTIONS = ['table contents of a MemTable are reachable only through the tokio RwLock of each partition (type PartitionData)',
               'Vec mutators considered: push, append, extend, extend_from_slice, insert, remove, swap_remove, clear, truncate, retain, drain, pop, resize']

SCOPE = ('datafusion_catalog', 'datafusion_datasource')
WRITE = 'tokio::sync::rwlock::RwLock::<T>::write'
VEC_MUT = ('push', 'append', 'extend', 'extend_from_slice', 'insert', 'remove', 'swap_remove', 'clear', 'truncate', 'retain', 'drain', 'pop', 'resize', 'dedup')
WRAP = re.compile(r'^call:(\{closure#\d+\}|new_unchecked|into_future|poll|branch|deref_mut|deref)@\d+\(')


def head(t):
    while t:
        if t.startswith('try:'):
            t = t[4:]
            continue
        m = WRAP.match(t)
        if m:
            t = t[m.end():]
            continue
        break
    m = re.match(r'^call:([A-Za-z_0-9]+)@\d+', t or '')
    return m.group(1) if m else None


def is_guard(tag, write_name='write'):
    return bool(tag) and head(tag) == write_name


def instances(facts, scope, write):
    out = []
    for c in facts.callers_of(write):
        r = facts.fn(c)
        if r is not None and r['crate'] in scope and '::test' not in c:
            out.append(c)
    return sorted(set(out))


def explore(facts, rec):
    if rec.get('coroutine'):
        args = [MR(-1, 0, (), sym('st')), MR(-1, 1, (), sym('cx'))]
    else:
        args = [sym(rec['locals'][i + 1][1] or 'a%d' % i) for i in range(rec['argc'])]
    return run_traces(facts, rec, args, inline_depth=0, time_budget=90, budget=3000000, loop_visits=2, try_tags=True)


def check(ctx, facts, scope=SCOPE, write=WRITE, rule_a='commit-after-fallible', rule_b='pre-update-row', write_name='write', eval_pred=None, guard_ty='RwLockWriteGuard'):
    bad = 0
    n = 0
    eval_pred = eval_pred or (lambda nm: nm.startswith('datafusion_physical_expr_common::physical_expr::PhysicalExpr::evaluate') or nm.rsplit('::', 1)[-1] == 'evaluate_filters_to_mask')
    for d in instances(facts, scope, write):
        rec = facts.fn(d)
        try:
            outs = explore(facts, rec)
        except Undecidable as e:
            ctx.undecided(rule_a, d, str(e))
            bad += 1
            continue
        ctx.analysed_fns.add(d)
        n += 1
        stores_seen = 0
        viol = None
        evals = 0
        bad_eval = None
        for o in outs:
            first = None
            # a mutable dereference of a write guard, wherever the guard has travelled in between (a local, a tuple in a staging vector):
            # recognised by the resolved callee `<..WriteGuard<T> as DerefMut>::deref_mut`, keyed by its call site
            gsites = set()
            for e in o.events:
                if e[0] == 'callargs' and e[1].endswith('::deref_mut') and guard_ty in e[1] and e[2]:
                    gsites.add('call:deref_mut@%s' % e[3])
                    if tag_of(e[2][0]):
                        gsites.add(tag_of(e[2][0]))     # the explorer names the referent of deref_mut(guard) after the guard itself

            def through_guard(t):
                t = t or ''
                while t.startswith('try:'):
                    t = t[4:]
                m = re.match(r'^call:deref_mut@\d+', t)
                return (m is not None and m.group(0) in gsites) or t in gsites or is_guard(t, write_name)
            for e in o.events:
                if e[0] == 'assign' and through_guard(str(e[1])):
                    first = first or ('assignment through the write guard', e[3] if len(e) > 3 else 0)
                elif e[0] == 'callargs' and e[2]:
                    t0 = tag_of(e[2][0]) or ''
                    last = e[1].rsplit('::', 1)[-1]
                    if last in VEC_MUT and e[1].startswith(('alloc::vec::Vec', 'alloc::collections')) and through_guard(t0):
                        first = first or ('Vec::%s on the write guard' % last, e[3])
                    if eval_pred(e[1]) and len(e[2]) > 1:
                        evals += 1
                        tb = tag_of(e[2][1]) or ''
                        if not (head(tb) == 'next' and ('call:%s@' % write_name) in tb):
                            bad_eval = bad_eval or (e[1].rsplit('::', 1)[-1], tb[:120] or 'a value built in this function', e[3])
            if first:
                stores_seen += 1
                r = strip(o.ret)
                if isinstance(r, A) and r.name == 'Err' and viol is None:
                    viol = first
        inst = d.split('::{closure')[0]
        if stores_seen == 0:
            ctx.skip(rule_a, inst, 'takes a partition write lock but no explored path stores into it')
        elif viol:
            bad += 1
            ctx.fail(rule_a, inst, ctx.loc(rec, viol[1] or None), 'a path stores into locked table contents (%s) and afterwards returns an error: a failing statement '
                     'leaves some partitions modified (the SQL reference leaves the table untouched)' % viol[0], key='%s|%s' % (rule_a, inst))
        else:
            ctx.ok(rule_a, inst, sample={'fn': inst, 'paths': len(outs), 'paths_that_store': stores_seen})
        if evals:
            if bad_eval:
                bad += 1
                ctx.fail(rule_b, inst, ctx.loc(rec, bad_eval[2]), '%s is handed %s, not an element of the locked partition: an expression of the statement would '
                         'see rows already modified by the same statement' % (bad_eval[0], bad_eval[1]), key='%s|%s' % (rule_b, inst))
            else:
                ctx.ok(rule_b, inst, sample={'fn': inst, 'evaluate_call_events': evals})
    return bad, n


def run(ctx):
    f = ctx.facts
    bad, n = check(ctx, f)
    ctx.floor('commit-after-fallible', 'functions taking a partition write lock', n, 3)
    import common
    st = ctx.st
    probe = common.Ctx(ctx.pid, ctx.tier, st, st, {})
    probe.known = []
    b, n2 = check(probe, st, scope=('dfscan_selftest',), write='dfscan_selftest::dml::Lock::<T>::write', rule_a='st-a', rule_b='st-b',
                  eval_pred=lambda nm: nm.endswith('dml::Expr::evaluate'), guard_ty='dml::Guard')
    keys = sorted(v['key'] for v in probe.viol)
    ctx.selftest('commit-after-fallible fires on a per-partition commit inside a fallible loop and pre-update-row on evaluation over the rebuilt batch; '
                 'silent on the two-phase version', keys == ['st-a|dfscan_selftest::dml::Table::update_bad', 'st-b|dfscan_selftest::dml::Table::update_stale'])
