"""Loader for the dfscan fact files (one .jsonl per crate).  Lazy: function
bodies are indexed by (file, offset) and json-parsed only when asked for."""
import json, os, re, pickle

_PFX_UNUSED = re.compile(rb'^\{"rec":"fn","d":"((?:[^"\\]|\\.)*)","u":"((?:[^"\\]|\\.)*)","k":"([a-z_]+)","file":"((?:[^"\\]|\\.)*)","line":(\d+)')


class Facts:
    def __init__(self, d):
        self.dir = d
        self.crates = {}
        self.adts = {}      # path -> rec
        self.traits = {}    # path -> rec
        self.impls = []     # recs
        self.fn_index = {}  # d -> list of (file, off, len, u, k, srcfile, line)
        self.callers = {}   # callee name -> [caller d]
        self.constructors = {}  # adt path -> [fn d that builds it with an aggregate]
        self.callees = {}   # fn d -> [callee names]
        self._cache = {}
        idx = os.path.join(d, 'index.pkl')
        if os.path.exists(idx):
            with open(idx, 'rb') as f:
                (self.crates, self.adts, self.traits, self.impls, self.fn_index, self.callers, self.constructors, self.callees) = pickle.load(f)
        else:
            self._build()
            tmp = idx + '.%d' % os.getpid()
            with open(tmp, 'wb') as f:
                pickle.dump((self.crates, self.adts, self.traits, self.impls, self.fn_index, self.callers, self.constructors, self.callees), f)
            os.replace(tmp, idx)

    def _build(self):
        for fn in sorted(os.listdir(self.dir)):
            if not fn.endswith('.jsonl'):
                continue
            p = os.path.join(self.dir, fn)
            crate = None
            with open(p, 'rb') as f:
                off = 0
                for line in f:
                    n = len(line)
                    if line.startswith(b'{"rec":"fn"'):
                        k = line.index(b',"argc":')
                        h = json.loads(line[:k] + b'}')
                        d = h['d']
                        self.fn_index.setdefault(d, []).append(
                            (fn, off, n, h['u'], h['k'], h['file'], h['line'], crate, tuple(h['sig'])))
                        for c in h['callees']:
                            self.callers.setdefault(c, []).append(d)
                        self.callees.setdefault(d, []).extend(h['callees'])
                        for c in h.get('aggs', ()):
                            self.constructors.setdefault(c, []).append(d)
                    else:
                        r = json.loads(line)
                        k = r['rec']
                        if k == 'crate':
                            crate = r['name']
                            if r.get('is_test'):
                                crate = None
                                break
                            self.crates[crate] = {'file': fn}
                        elif k == 'adt':
                            r['crate'] = crate
                            old = self.adts.get(r['path'])
                            if old is None or (old.get('ext') and not r.get('ext')):
                                self.adts[r['path']] = r
                        elif k == 'trait':
                            r['crate'] = crate
                            self.traits[r['path']] = r
                        elif k == 'impl':
                            r['crate'] = crate
                            self.impls.append(r)
                        elif k == 'end':
                            self.crates[crate].update(r)
                    off += n

    # ---- accessors
    def fn(self, d, which=0):
        """Parsed function record for def-path string d (first match)."""
        ents = self.fn_index.get(d)
        if not ents:
            return None
        e = ents[which]
        key = (e[0], e[1])
        r = self._cache.get(key)
        if r is None:
            with open(os.path.join(self.dir, e[0]), 'rb') as f:
                f.seek(e[1])
                r = json.loads(f.read(e[2]))
            r['crate'] = e[7]
            self._cache[key] = r
        return r

    def fns_matching(self, pred):
        for d, ents in self.fn_index.items():
            if pred(d):
                for i in range(len(ents)):
                    yield self.fn(d, i)

    def fns_in_file(self, suffix):
        for d, ents in self.fn_index.items():
            for i, e in enumerate(ents):
                if e[5].endswith(suffix):
                    yield self.fn(d, i)

    def all_fn_entries(self):
        for d, ents in self.fn_index.items():
            for i, e in enumerate(ents):
                yield d, i, e

    def adt(self, path):
        return self.adts.get(path)

    def variant_names(self, path):
        a = self.adts.get(path)
        return [v['name'] for v in a['variants']] if a else None

    def impls_of(self, trait):
        return [i for i in self.impls if i.get('trait') == trait]

    def loc(self, fnrec, line=None):
        f = fnrec['file']
        return '%s:%d' % (f, line if line else fnrec['line'])

    def sig(self, d, which=0):
        e = self.fn_index.get(d)
        return e[which][8] if e else None

    def callers_of(self, callee):
        return sorted(set(self.callers.get(callee, [])))

    def call_tree(self, root, depth=3, same_crate_only=False):
        """root + closures nested in visited fns + workspace callees, breadth-first up to depth"""
        seen = {root: 0}
        frontier = [root]
        nested = {}
        for d in self.fn_index:
            k = d.find('::{closure')
            if k > 0:
                nested.setdefault(d[:k], []).append(d)
        while frontier:
            nxt = []
            for d in frontier:
                lvl = seen[d]
                kids = list(nested.get(d, []))
                if lvl < depth:
                    kids += [c for c in self.callees.get(d, []) if c in self.fn_index]
                for c in kids:
                    if c not in seen:
                        seen[c] = lvl + (0 if c in nested.get(d, []) else 1)
                        nxt.append(c)
            frontier = nxt
        return seen
