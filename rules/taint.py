"""Flow-insensitive intra-procedural def-use reachability over one MIR body.
A local is tainted if it is (a) a source, or (b) assigned from an expression / call that
mentions a tainted local (calls propagate from any argument to the result and to &mut args)."""


def place_root(op):
    if isinstance(op, list) and op and op[0] in ('c', 'm'):
        return op[1][0]
    return None


def rv_locals(rv):
    k = rv[0]
    out = []
    if k in ('use', 'repeat'):
        out.append(place_root(rv[1]))
    elif k in ('ref', 'rawptr', 'discr'):
        out.append(rv[1][0])
    elif k == 'cast':
        out.append(place_root(rv[2]))
    elif k == 'bin':
        out += [place_root(rv[2]), place_root(rv[3])]
    elif k == 'un':
        out.append(place_root(rv[2]))
    elif k == 'agg':
        out += [place_root(o) for o in rv[2]]
    return [x for x in out if x is not None]


def field_sources(rec, field_name, root=None):
    """locals assigned from a place that projects field `field_name` (optionally of local `root`)"""
    src = set()
    for b in rec['bb']:
        for st in b['s']:
            if st[0] != '=':
                continue
            rv = st[2]
            places = []
            if rv[0] in ('use',) and rv[1][0] in ('c', 'm'):
                places.append(rv[1][1])
            elif rv[0] in ('ref',):
                places.append(rv[1])
            for loc, projs in places:
                if (root is None or loc == root) and any(isinstance(p, list) and p[0] == 'f' and p[2] == field_name for p in projs):
                    src.add(st[1][0])
    return src


def propagate(rec, sources):
    taint = set(sources)
    changed = True
    while changed:
        changed = False
        for b in rec['bb']:
            for st in b['s']:
                if st[0] == '=':
                    d = st[1][0]
                    if d not in taint and any(l in taint for l in rv_locals(st[2])):
                        taint.add(d)
                        changed = True
            t = b['t']
            if t[0] == 'call':
                args = [place_root(a) for a in t[2]]
                if 'ptr' in t[1]:
                    args.append(place_root(t[1]['ptr']))
                d = t[3][0]
                if any(a in taint for a in args if a is not None):
                    if d not in taint:
                        taint.add(d)
                        changed = True
            elif t[0] == 'yield':
                pass
    return taint
