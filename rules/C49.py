"""C49 — catalog changes are applied exactly: the decision table of every DDL handler
(IF NOT EXISTS / OR REPLACE / IF EXISTS  x  object exists / is missing) against the SQL model."""
import re
from traces import *

TECHNIQUE = ('static analysis: finite-domain path exploration over MIR (A1) of every DDL handler, domain = statement flags x existence-probe outcome; '
             'each path\'s effect sequence (register / deregister calls) and outcome class compared with the SQL decision table')
EXPLANATION = ('Handlers are found by type: every method of SessionContext that takes a payload of a DdlStatement variant. Each handler body '
               '(async bodies: the coroutine before the state-machine transform) is explored path by path with the statement flags '
               '(if_not_exists, or_replace, if_exists) and the outcome of the catalog existence probe as the only unknowns. For every path that '
               'does not merely propagate a catalog error: CREATE of a missing object registers it and does not fail; CREATE of an existing '
               'object is a no-op success under IF NOT EXISTS, deregisters-then-registers under OR REPLACE, and otherwise (neither, or both) '
               'fails without touching the catalog; DROP of an existing object succeeds; DROP of a missing object succeeds silently under '
               'IF EXISTS and fails otherwise. A path that does not test a flag must be right for both values of it. (b) replace atomicity: on every path of a '
               'CREATE handler, once the existing object has been deregistered no fallible step (anything but std plumbing) runs before the new object is '
               'registered, so a failing CREATE OR REPLACE cannot drop the old object. Name resolution, the '
               'contents of views and the information schema are not decided.')
EXHAUSTIVE = True
ASSUMPTIONS = ['existence probes and their polarity are the frozen table PROBES (confirmed by reading): SessionContext::table Ok=exists, '
               'table_exist true=exists, catalog()/schema() Some=exists, deregister_schema Some=existed and removed; a private helper of SessionContext that deregisters and answers Result<bool> is classified structurally (true = existed and was removed)',
               'catalog mutators are the functions named register_* / deregister_* of the catalog API']

DDL = 'datafusion_expr::logical_plan::ddl::DdlStatement'
OWNER = 'datafusion::execution::context::SessionContext'
MODELLED = ('if_not_exists', 'or_replace', 'if_exists')
# probe method -> (owner that must appear in the resolved callee, kind, removes)
#   kind: 'result' Ok=exists Err=missing | 'bool' true=exists | 'option' Some=exists | 'result-bool' Ok(true)=exists Ok(false)=missing Err=unknown
PROBES = {
    'table': ('SessionContext', 'result', False),
    'table_exist': ('SessionContext', 'bool', False),
    'catalog': ('', 'option', False),          # SessionContext::catalog and CatalogProviderList::catalog
    'schema': ('CatalogProvider', 'option', False),
    'deregister_schema': ('CatalogProvider', 'option', True),
}
# statements of the property (catalogs, schemas, tables, views); functions and indexes are outside its text
OUT_OF_SCOPE = {'CreateFunction': 'functions are not catalog objects of the property; creation is delegated to a user-supplied FunctionFactory',
                'DropFunction': 'functions are not catalog objects of the property',
                'CreateIndex': 'no built-in handler (indexes are not catalog objects of the property)'}


def unbox(t):
    t = t.lstrip('&')
    m = re.match(r'alloc::boxed::Box<(.*)>$', t)
    return m.group(1) if m else t


WRAP = re.compile(r'^call:(\{closure#\d+\}|new_unchecked|into_future|poll|branch)@\d+\(')


def head(t):
    """the call that produced a value, looking through `?` and the await plumbing: 'try:call:{closure#0}@9(call:new_unchecked@9(call:into_future@9(call:f@9(..' -> 'call:f@9'"""
    while True:
        if t.startswith('try:'):
            t = t[4:]
            continue
        m = WRAP.match(t)
        if m:
            t = t[m.end():]
            continue
        break
    m = re.match(r'^call:[A-Za-z_0-9]+@\d+', t)
    return m.group(0) if m else None


def handlers(facts, ddl=DDL, owner=OWNER):
    a = facts.adts.get(ddl)
    if not a:
        return None, None
    payload = {}
    for v in a['variants']:
        if v['fields']:
            payload[unbox(v['fields'][0][1])] = v['name']
    hs = {}
    for d, i, e in facts.all_fn_entries():
        if e[4] not in ('assoc_fn', 'fn') or not e[8] or len(e[8]) < 3:
            continue
        sig = e[8]
        if unbox(sig[1]) != owner:
            continue
        hit = [unbox(t) for t in sig[2:] if unbox(t) in payload]
        if hit:
            hs.setdefault(payload[hit[0]], []).append((d, hit[0]))
    return payload, hs


def direct_mutator(name):
    last = name.rsplit('::', 1)[-1]
    if last.startswith('deregister_'):
        return 'REMOVE'
    if last.startswith('register_'):
        return 'ADD'
    return None


DERIVED = {}        # helper def path -> ('REMOVE'|'ADD', probe-kind or None); recomputed per run (see derive_helpers)


def derive_helpers(facts, owner):
    """private helpers of the owner are classified structurally, not by name: a non-handler method whose body (or async body) calls exactly one
    kind of catalog mutator has that effect; if it removes and answers Result<bool> it is also a removing existence probe (true = existed and was removed)"""
    DERIVED.clear()
    for d, i, e in facts.all_fn_entries():
        if e[4] != 'assoc_fn' or not d.startswith(owner + '::') or d in all_handlers or not e[8]:
            continue
        if direct_mutator(d):
            continue
        cs = list(facts.callees.get(d, ())) + list(facts.callees.get(d + '::{closure#0}', ()))
        kinds = set(direct_mutator(c) for c in cs) - {None}
        if len(kinds) != 1:
            continue
        k = kinds.pop()
        ret = e[8][0]
        pk = 'result-bool' if (k == 'REMOVE' and re.search(r'Result<bool,', ret)) else None
        DERIVED[d] = (k, pk)


def mutator(name):
    if name in DERIVED:
        return DERIVED[name][0]
    return direct_mutator(name)


def probe_kind(name):
    """-> (kind, removes) or None for a resolved callee"""
    if name in DERIVED and DERIVED[name][1]:
        return DERIVED[name][1], True
    meth = name.rsplit('::', 1)[-1]
    if meth in PROBES and PROBES[meth][0] in name:
        return PROBES[meth][1], PROBES[meth][2]
    return None


def plumbing(name):
    """calls that cannot make the statement fail on their own: `?` machinery, error conversion/formatting, clones, drops, accessors of std types"""
    return (name.startswith(('core::', 'alloc::', 'std::', '<core::', '<alloc::', '<std::', 'log::')) or ' as core::' in name or ' as alloc::' in name
            or name.endswith(('::get_back_trace', '::clone', '::drop')))


def classify_ret(v):
    r = strip(v)
    if isinstance(r, A) and r.name == 'Ok':
        return 'ok'
    if isinstance(r, A) and r.name == 'Err':
        p = strip(r.fields[0][1]) if r.fields else None
        if isinstance(p, A):
            return 'local-err'
        return 'prop-err'
    return '?'


def summarise(facts, d, pty, owner, kind):
    """-> list of path summaries dict(flags, other_flags, exist, effects, outcome, line) or raises Undecidable"""
    rec = facts.fn(d)
    body = facts.fn(d + '::{closure#0}') if rec.get('async') else rec
    if body is None:
        raise Undecidable('async body of %s not exported' % d)
    if body.get('coroutine'):
        args = [MR(-1, 0, (), sym('st')), MR(-1, 1, (), sym('cx'))]
    else:
        args = [sym(rec['locals'][i + 1][1] or 'a%d' % i) for i in range(rec['argc'])]
    st = facts.adts[pty]
    bools = [fl[0] for fl in st['variants'][0]['fields'] if fl[1] == 'bool']
    # the statement parameter's name, to recognise flag reads ("<param>.<flag>")
    pidx = [i for i, t in enumerate(rec['sig'][1:]) if unbox(t) == pty][0]
    pname = rec['locals'][pidx + 1][1] if rec['locals'][pidx + 1][1] else None
    # helpers of the owner that return the handler's own result type are inlined (so that an error-building helper is seen as a local error)
    rty = body['locals'][0][0]

    def inl(name):
        if not name.startswith(owner + '::') or name == d:
            return False
        r2 = facts.fn(name)
        return bool(r2) and not r2.get('async') and r2['locals'][0][0] == rty and r2['argc'] <= 2 and name not in all_handlers
    outs = run_traces(facts, body, args, inline_depth=1, inline_pred=inl, time_budget=30, loop_visits=1, try_tags=True)
    rows = []
    for o in outs:
        if any(e[0] == 'variant' and e[3] == 'Pending' for e in o.events):
            continue
        flags, other = {}, {}
        effects = []
        since_remove = None     # substantive calls made after the old object was deregistered and before the new one is registered
        obs = {}            # full tag -> observed value; a value tested twice (tuple matches re-test their fields) must answer the same: otherwise the path is infeasible
        feasible = True
        sites = {}          # 'meth@line' -> meth, for probe calls whose resolved callee has the expected owner
        seen = []           # (meth, value)
        for e in o.events:
            if e[0] == 'callargs':
                mu = mutator(e[1])
                if mu:
                    effects.append(mu)
                    if mu == 'REMOVE':
                        since_remove = []
                    else:
                        since_remove = None
                elif since_remove is not None and not plumbing(e[1]) and not (e[1].endswith('::{closure#0}') and mutator(e[1][:-len('::{closure#0}')])):
                    since_remove.append((e[1], e[3]))
                meth = e[1].rsplit('::', 1)[-1]
                pkr = probe_kind(e[1])
                if pkr:
                    sites['call:%s@%s' % (meth, e[3])] = (meth,) + pkr
                continue
            if e[0] not in ('branch', 'variant') or not e[1]:
                continue
            t = str(e[1])
            ob = e[3] if e[0] == 'variant' else (0 if e[2] == 0 else 1 if (e[2] == 1 or (len(e) > 3 and e[3] == (0,))) else None)
            if ob is not None:
                if obs.setdefault((e[0], t), ob) != ob:
                    feasible = False
                    break
            if e[0] == 'branch':
                m = re.match(r'^[A-Za-z_0-9]+\.([a-z_]+)$', t)
                if m and m.group(1) in bools and (pname is None or t.startswith(pname + '.')):
                    (flags if m.group(1) in MODELLED else other)[m.group(1)] = 0 if e[2] == 0 else 1
                    continue
            # `probe().is_ok()` / `.is_some()` / `.is_none()` / `.is_err()` tested as a boolean is the same observation as matching the variant
            wrapped = re.match(r'^(is_ok|is_some|is_err|is_none)\((.*)\)$', t) if e[0] == 'branch' else None
            hd = head(wrapped.group(2) if wrapped else t)
            hit = [mm for site, mm in sites.items() if hd == site]
            if not hit:
                continue
            pk = hit[-1][1]
            val = None
            if wrapped:
                truth = (e[2] != 0) == (wrapped.group(1) in ('is_ok', 'is_some'))
                if pk in ('result', 'option'):
                    val = 'exists' if truth else 'missing'
                elif pk == 'result-bool':
                    val = 'either' if truth else 'unknown'
            elif e[0] == 'variant':
                if pk == 'result':
                    val = {'Ok': 'exists', 'Err': 'missing'}.get(e[3])
                elif pk == 'option':
                    val = {'Some': 'exists', 'None': 'missing'}.get(e[3])
                elif e[3] == 'Err':
                    val = 'unknown'
                elif e[3] == 'Ok' and pk == 'result-bool':
                    val = 'either'      # unless the payload is tested afterwards
            elif pk in ('bool', 'result-bool') and (e[2] == 0 or (len(e) > 3 and e[3] == (0,))):
                val = 'missing' if e[2] == 0 else 'exists'
            # in a CREATE handler a removing call is an effect, not the existence probe: only its failure (a catalog error) is taken from it
            if val and (kind == 'drop' or not hit[-1][2] or val == 'unknown'):
                seen.append((hit[-1][0], val))
        if not feasible:
            continue
        definite = set(m_ for m_, v in seen if v in ('exists', 'missing'))
        vals = [v for m_, v in seen if not (v == 'either' and m_ in definite)]
        exist = None if not vals else 'unknown' if 'unknown' in vals else 'missing' if 'missing' in vals else 'either' if 'either' in vals else 'exists'
        rows.append({'flags': flags, 'other': other, 'exist': exist, 'effects': effects, 'outcome': classify_ret(o.ret), 'probes': seen,
                     'gap': since_remove if (since_remove and effects and effects[-1] == 'REMOVE') else None})
    return rows, bools


all_handlers = set()


def expected(kind, ine, orr, ife, exist):
    """-> (outcome, effects-class) with effects-class in {'none','add','replace','any'}"""
    if kind == 'create':
        if exist == 'missing':
            return 'ok', 'add'
        if ine and not orr:
            return 'ok', 'none'
        if orr and not ine:
            return 'ok', 'replace'
        return 'local-err', 'none'
    else:
        if exist == 'exists':
            return 'ok', 'any'
        return ('ok', 'any') if ife else ('local-err', 'any')


def eff_class(effects):
    if not effects:
        return 'none'
    if effects == ['ADD']:
        return 'add'
    if 'ADD' in effects and 'REMOVE' in effects and effects.index('REMOVE') < effects.index('ADD') and effects.count('ADD') == 1:
        return 'replace'
    if 'ADD' not in effects:
        return 'remove'
    return 'other:' + ','.join(effects)


def check_handlers(ctx, facts, ddl=DDL, owner=OWNER, rule='ddl-decision-table', scope_out=OUT_OF_SCOPE):
    payload, hs = handlers(facts, ddl, owner)
    if payload is None:
        ctx.lost(rule, ddl)
        return 0, 0
    all_handlers.clear()
    for v, lst in hs.items():
        for d, _ in lst:
            all_handlers.add(d)
    derive_helpers(facts, owner)
    bad = 0
    ncell = 0
    for vname in sorted(set(payload.values())):
        if vname in scope_out:
            ctx.skip(rule, vname, scope_out[vname])
            continue
        cands = hs.get(vname, [])
        decided = False
        for d, pty in cands:
            st = facts.adts[pty]
            bools = [fl[0] for fl in st['variants'][0]['fields'] if fl[1] == 'bool']
            model = [b for b in bools if b in MODELLED]
            if not model:
                continue
            kind = 'drop' if 'if_exists' in model else 'create'
            try:
                rows, _ = summarise(facts, d, pty, owner, kind)
            except Undecidable as ex:
                ctx.undecided(rule, d, str(ex))
                bad += 1
                continue
            rec = facts.fn(d)
            ctx.analysed_fns.add(d)
            # a method that merely receives the statement (e.g. builds the provider) tests no flag and probes nothing: not a handler
            if not any(r['flags'] for r in rows) and not any(r['exist'] for r in rows):
                ctx.skip(rule, d, 'takes the statement but neither tests its flags nor probes the catalog (not the decision site)')
                continue
            decided = True
            cells = {}
            for r in rows:
                if any(v == 1 for v in r['other'].values()):
                    continue        # unsupported variant of the statement (e.g. TEMPORARY): rejected before the decision
                if r['outcome'] == 'prop-err':
                    continue
                if r['exist'] is None:
                    if r['outcome'] == 'local-err' and not r['flags'] and not r['effects']:
                        continue    # malformed name etc.: rejected before the catalog is consulted
                    cells.setdefault(('?',), []).append(r)
                    continue
                if r['exist'] == 'unknown':
                    continue
                for ine in ((r['flags']['if_not_exists'],) if 'if_not_exists' in r['flags'] else ((0, 1) if 'if_not_exists' in model else (0,))):
                    for orr in ((r['flags']['or_replace'],) if 'or_replace' in r['flags'] else ((0, 1) if 'or_replace' in model else (0,))):
                        for ife in ((r['flags']['if_exists'],) if 'if_exists' in r['flags'] else ((0, 1) if 'if_exists' in model else (0,))):
                            for ex in (('exists', 'missing') if r['exist'] == 'either' else (r['exist'],)):
                                cells.setdefault((ine, orr, ife, ex), []).append(r)
            if ('?',) in cells:
                bad += 1
                r = cells[('?',)][0]
                ctx.fail(rule, d, ctx.loc(rec), 'a path decides the statement (outcome %s, effects %s) without a recognised existence probe' % (r['outcome'], r['effects']),
                         key='%s|%s|no-probe' % (rule, d))
                continue
            # (b) replace atomicity: once the old object has been deregistered the handler must not be able to fail before it registers the new one
            if kind == 'create':
                gaps = [r for r in rows if r['gap'] and r['outcome'] in ('prop-err', 'local-err') and not any(v == 1 for v in r['other'].values())]
                inst_b = d.rsplit('::', 1)[-1]
                if any('REMOVE' in r['effects'] for r in rows):
                    if gaps:
                        g = gaps[0]['gap']
                        bad += 1
                        ctx.fail(rule + '-replace-atomic', inst_b, ctx.loc(rec, g[-1][1]), 'after the existing object has been deregistered a fallible step (%s) can fail '
                                 'before the new object is registered: a failing CREATE OR REPLACE drops the old object' % ', '.join(sorted(set(n.rsplit('::', 1)[-1] for n, _ in g))),
                                 key='%s-replace-atomic|%s' % (rule, inst_b))
                    else:
                        ctx.ok(rule + '-replace-atomic', inst_b, sample={'handler': inst_b, 'replace_paths': sum(1 for r in rows if 'REMOVE' in r['effects'])})
            # every cell of the model's domain must be reached
            dom = [(i, o, x, ex) for i in ((0, 1) if 'if_not_exists' in model else (0,)) for o in ((0, 1) if 'or_replace' in model else (0,))
                   for x in ((0, 1) if 'if_exists' in model else (0,)) for ex in ('exists', 'missing')]
            for cell in dom:
                ncell += 1
                ine, orr, ife, ex = cell
                want_out, want_eff = expected(kind, ine, orr, ife, ex)
                inst = '%s(%s%s)' % (d.rsplit('::', 1)[-1], ','.join('%s=%d' % (n, v) for n, v in (('if_not_exists', ine), ('or_replace', orr), ('if_exists', ife)) if n in model),
                                     ',object ' + ex)
                got = cells.get(cell, [])
                if not got:
                    bad += 1
                    ctx.fail(rule, inst, ctx.loc(rec), 'no non-error path of the handler covers this case', key='%s|%s|uncovered' % (rule, inst))
                    continue
                wrong = None
                for r in got:
                    ec = eff_class(r['effects'])
                    if r['outcome'] != want_out:
                        wrong = 'the statement %s (model: %s)' % ({'ok': 'succeeds', 'local-err': 'fails'}.get(r['outcome'], r['outcome']),
                                                                  {'ok': 'succeeds', 'local-err': 'fails'}[want_out])
                    elif want_eff != 'any' and ec != want_eff:
                        wrong = 'catalog effect is %s (model: %s)' % (ec, want_eff)
                    if wrong:
                        break
                if wrong:
                    bad += 1
                    ctx.fail(rule, inst, ctx.loc(rec), wrong, key='%s|%s' % (rule, inst))
                else:
                    ctx.ok(rule, inst, sample={'case': inst, 'outcome': want_out, 'effects': sorted(set(eff_class(r['effects']) for r in got))})
        if not decided:
            bad += 1
            ctx.fail(rule, vname, ddl, 'no method of the session context decides this statement (handler not found by type)', key='%s|%s|no-handler' % (rule, vname))
    return bad, ncell


def run(ctx):
    f = ctx.facts
    bad, n = check_handlers(ctx, f)
    ctx.floor('ddl-decision-table', 'decision-table cells', n, 36)
    import common
    st = ctx.st
    probe = common.Ctx(ctx.pid, ctx.tier, st, st, {})
    probe.known = []
    b, n2 = check_handlers(probe, st, ddl='dfscan_selftest::ddl::DdlStatement', owner='dfscan_selftest::ddl::SessionContext', rule='st', scope_out={})
    keys = sorted(v['key'] for v in probe.viol)
    want = ['st-replace-atomic|create_slow', 'st|create_thing(if_not_exists=1,or_replace=0,object exists)', 'st|drop_other(if_exists=0,object missing)',
            'st|drop_thing(if_exists=1,object missing)']
    ctx.selftest('decision-table rule fires on a handler that replaces under IF NOT EXISTS, on a DROP IF EXISTS that fails on a missing object, on a DROP that '
                 'ignores whether anything was removed, and replace-atomic on a handler that can fail between deregister and register; silent on the '
                 'correct handlers (match-style, if-style with helper)', keys == want and n2 >= 24)
