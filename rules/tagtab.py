"""Round trips between a domain enum and its wire (protobuf / FFI / foreign) enum:
all standalone conversion functions A -> B between fieldless enums are paired with their
inverses B -> A and evaluated exhaustively (A1)."""
import collections
from enumtab import *
from resultflow import split_generic


def fieldless(facts, t):
    t = t.lstrip('&').replace('mut ', '')
    a = facts.adts.get(t)
    if a and a['kind'] == 'enum' and len(a['variants']) >= 2 and all(not v['fields'] for v in a['variants']):
        return t
    return None


def unwrap_ret(t):
    head, args = split_generic(t)
    if head in ('core::result::Result', 'core::option::Option') and args:
        return args[0]
    return t


def conversions(facts, exclude=('FFI_', '::ffi::')):
    convs = collections.defaultdict(list)
    for d, i, e in facts.all_fn_entries():
        if e[4] not in ('fn', 'assoc_fn'):
            continue
        sg = e[8]
        if len(sg) != 2 or any(x in d for x in exclude):
            continue
        a = fieldless(facts, sg[1])
        r = fieldless(facts, unwrap_ret(sg[0]))
        if a and r and a != r:
            convs[(a, r)].append(d)
    return convs


def eval_conv(facts, d, adt_in):
    """{variant: result variant name | None(err/none) | '?'}"""
    rec = facts.fn(d)
    byref = rec['locals'][1][0].startswith('&')
    tab = {}
    for v in enum_domain(facts, adt_in, byref):
        try:
            outs = Explorer(facts, inline_depth=2, time_budget=5).run(rec, [v])
        except Undecidable:
            tab[strip(v).name] = '?'
            continue
        vals = set()
        for o in outs:
            r = strip(o.ret)
            if isinstance(r, A) and r.name in ('Ok', 'Some'):
                r = strip(read_proj(r, [('f', 0)]))
            if isinstance(r, A) and r.name in ('Err', 'None') and r.adt.startswith('core::'):
                vals.add(None)
            elif isinstance(r, A):
                vals.add(r.name)
            else:
                vals.add('?')
        tab[strip(v).name] = vals.pop() if len(vals) == 1 else '?'
    return tab


def is_wire(adt):
    return '::generated::' in adt or adt.startswith(('substrait::', 'csv::', 'parquet::', 'arrow_cast::'))


def check_pairs(ctx, facts, rule, select=None):
    convs = conversions(facts)
    n = 0
    bad = 0
    seen = set()
    for (a, b_), ds in sorted(convs.items()):
        if (b_, a) not in convs:
            continue
        dom, wire = (a, b_) if is_wire(b_) and not is_wire(a) else (b_, a) if is_wire(a) and not is_wire(b_) else (None, None)
        if dom is None or (dom, wire) in seen:
            continue
        if select and not select(dom, wire):
            continue
        seen.add((dom, wire))
        for enc in convs[(dom, wire)]:
            for dec in convs[(wire, dom)]:
                t1 = eval_conv(facts, enc, dom)
                t2 = eval_conv(facts, dec, wire)
                n += 1
                inst = '%s <-> %s  [%s / %s]' % (dom.rsplit('::', 1)[-1], wire.rsplit('::', 2)[-2] + '::' + wire.rsplit('::', 1)[-1], enc.rsplit('::', 1)[-1], dec.rsplit('::', 1)[-1])
                problems = []
                for v, w in t1.items():
                    if w == '?':
                        problems.append('encoding of %s is not a constant' % v)
                    elif w is None:
                        continue      # encoder refuses the variant (explicit error) — not a silent change
                    else:
                        back = t2.get(w, '?')
                        if back != v:
                            problems.append('%s encodes to %s which decodes to %s' % (v, w, back))
                ctx.analysed_fns.add(enc)
                ctx.analysed_fns.add(dec)
                if problems:
                    bad += 1
                    rec = facts.fn(enc)
                    ctx.fail(rule, inst, ctx.loc(rec), '; '.join(problems), key='%s|%s' % (rule, inst))
                else:
                    ctx.ok(rule, inst, sample={'domain': dom, 'wire': wire, 'encoder': enc, 'decoder': dec, 'table': t1})
    return bad, n
