"""Control-flow graph helpers over an exported MIR body: successors (unwind/cleanup blocks ignored), dominators,
natural loops.  Path-insensitive; used for 'every cycle that does work passes the gate' style rules."""


def succs(rec):
    out = []
    for b in rec['bb']:
        t = b['t']
        k = t[0]
        s = []
        if b.get('cu'):
            out.append([])
            continue
        if k == 'goto':
            s = [t[1]]
        elif k == 'switch':
            s = [x[1] for x in t[2]] + [t[3]]
        elif k == 'call':
            if t[4] is not None and t[4] >= 0:
                s = [t[4]]
        elif k == 'drop':
            s = [t[2]]
        elif k == 'assert':
            s = [t[3]]
        elif k == 'yield':
            s = [t[2]]
        out.append([x for x in s if x is not None and 0 <= x < len(rec['bb']) and not rec['bb'][x].get('cu')])
    return out


def reachable(sc, start, removed=()):
    seen = set()
    st = [start]
    rem = set(removed)
    while st:
        x = st.pop()
        if x in seen or x in rem:
            continue
        seen.add(x)
        st.extend(sc[x])
    return seen


def dominators(sc, entry=0):
    n = len(sc)
    reach = reachable(sc, entry)
    preds = [[] for _ in range(n)]
    for u in reach:
        for v in sc[u]:
            preds[v].append(u)
    dom = {v: set(reach) for v in reach}
    dom[entry] = {entry}
    changed = True
    order = sorted(reach)
    while changed:
        changed = False
        for v in order:
            if v == entry:
                continue
            ps = [dom[p] for p in preds[v] if p in dom]
            new = set.intersection(*ps) if ps else set()
            new = new | {v}
            if new != dom[v]:
                dom[v] = new
                changed = True
    return dom, preds


def natural_loops(sc, dom, preds):
    """{header: body set} (bodies of back edges to the same header merged)"""
    loops = {}
    for u in dom:
        for h in sc[u]:
            if h in dom[u]:      # back edge u -> h
                body = {h, u}
                st = [u]
                while st:
                    x = st.pop()
                    if x == h:
                        continue
                    for p in preds[x]:
                        if p not in body and p in dom:
                            body.add(p)
                            st.append(p)
                loops.setdefault(h, set()).update(body)
    return loops


def callee(b):
    t = b['t']
    if t[0] == 'call':
        return t[1].get('res') or t[1].get('def') or ''
    return None
