"""C09 — window functions match their frames under every executor: the PartitionEvaluator
implementation table from the trait's own documentation."""
from enumtab import *
import C07

TECHNIQUE = 'static analysis: impl/override census from the type-checked program + constant evaluation of capability flags (A1) against the implementation table documented on the trait'
EXPLANATION = ('Every impl of PartitionEvaluator (functions-window, physical-expr, spark, ...) is checked against the table in the trait '
               'documentation: uses_window_frame=true => evaluate overridden; else include_rank=true => evaluate_all_with_rank overridden; '
               'else supports_bounded_execution=true => evaluate overridden (and evaluate_all for the non-bounded executor unless the '
               'flag is constantly true); otherwise evaluate_all overridden. Flags are evaluated from MIR (constant or dynamic; a dynamic '
               'flag requires every method it can select). The accumulators used by sliding aggregate windows are covered by the '
               'supports_retract_batch <=> retract_batch rule (shared with C07). Frame arithmetic is not decided.')
ASSUMPTIONS = ['the default bodies of evaluate / evaluate_all / evaluate_all_with_rank return not-implemented errors (trait defaults)']

PE = 'datafusion_expr::partition_evaluator::PartitionEvaluator'


def check_evaluators(ctx, facts, trait=PE, rule='evaluator-table'):
    bad = 0
    n = 0
    for imp in facts.impls_of(trait):
        it = C07.items_of(imp)
        n += 1
        inst = imp['self']

        def flag(name):
            d = it.get(name)
            return C07.const_bool(facts, d) if d else {'0'}
        uwf, sbe, ir = flag('uses_window_frame'), flag('supports_bounded_execution'), flag('include_rank')
        need = set()
        # enumerate flag combinations the impl can exhibit
        for a in uwf:
            for b_ in sbe:
                for c in ir:
                    aa = {'1'} if a == '1' else {'0'} if a == '0' else {'0', '1'}
                    bb = {'1'} if b_ == '1' else {'0'} if b_ == '0' else {'0', '1'}
                    cc = {'1'} if c == '1' else {'0'} if c == '0' else {'0', '1'}
                    for x in aa:
                        for y in bb:
                            for z in cc:
                                if x == '1':
                                    need.add('evaluate')
                                elif z == '1':
                                    need.add('evaluate_all_with_rank')
                                elif y == '1':
                                    need.add('evaluate')
                                else:
                                    need.add('evaluate_all')
        missing = sorted(m for m in need if m not in it)
        where = '%s:%s' % (imp['file'], imp['line'])
        if missing:
            bad += 1
            ctx.fail(rule, inst, where, 'flags (uses_window_frame=%s, supports_bounded_execution=%s, include_rank=%s) select %s, which this impl does not override '
                     '(the executor would hit the default not-implemented error)' % (sorted(uwf), sorted(sbe), sorted(ir), missing), key='%s|%s' % (rule, inst))
        else:
            ctx.ok(rule, inst, sample={'impl': inst, 'uses_window_frame': sorted(uwf), 'supports_bounded_execution': sorted(sbe), 'include_rank': sorted(ir),
                                       'requires': sorted(need), 'overrides': sorted(k for k in it if k.startswith('evaluate'))})
    return bad, n


def run(ctx):
    f = ctx.facts
    bad, n = check_evaluators(ctx, f)
    ctx.floor('evaluator-table', 'impl PartitionEvaluator', n, 7)
    b2, n2, nret = C07.check_accumulators(ctx, f, rule='retract-flag-override')
    ctx.floor('retract-flag-override', 'accumulators overriding retract_batch', nret, 13)
    import common
    st = ctx.st
    probe = common.Ctx(ctx.pid, ctx.tier, st, st, {})
    probe.known = []
    b, _ = check_evaluators(probe, st, trait='dfscan_selftest::aggs::PartitionEvaluator', rule='st')
    ctx.selftest('table rule fires on an evaluator that declares include_rank without evaluate_all_with_rank', b >= 1)
