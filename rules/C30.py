"""C30 — batches conform to the declared schema: join output nullability."""
from jt import *
from traces import *
import re

TECHNIQUE = 'finite-domain constant propagation over MIR (A1) + reference join model; logical/physical sibling tables; CFG extraction of unguarded match arms + per-variant evaluation for the strict-null agreement'
EXPLANATION = ('Physical output_join_field(jt,is_left): exhaustive (10 x 2) table of the named local force_nullable; '
               'whenever the model can NULL-extend a side, that side is forced nullable. Logical build_join_schema: per join '
               'type, which side iterators reach nullify_fields; must cover the model and agree with the physical table '
               '(executed types equivalent to the logical plan\'s). Strict-null agreement: every expression kind that the CASE reachability analysis '
               '(predicate_bounds) treats as NULL exactly when a child is NULL has a nullable() that is not constantly true. '
               'Mark columns are decided under C05. Nothing else of C30 is decided.')
ASSUMPTIONS = ['reference model in oracles/joins.py']

OJF = 'datafusion_physical_plan::joins::utils::output_join_field'
LBJS = 'datafusion_expr::logical_plan::builder::build_join_schema'
NULLIFY = LBJS + '::nullify_fields'
ITER = 'datafusion_common::dfschema::DFSchema::iter'
SIDE = ['left', 'right']


def force_table(ctx, facts, fnpath, jt_adt, rule):
    rec = facts.fn(fnpath)
    if rec is None:
        ctx.lost(rule, fnpath)
        return None
    ctx.analysed_fns.add(fnpath)
    tab = {}
    # parameters are found by type (the join type and the single bool), not by name
    jargs = [i for i, (t, n) in enumerate(rec['locals']) if 0 < i <= rec['argc'] and t.lstrip('&') == jt_adt]
    largs = [i for i, (t, n) in enumerate(rec['locals']) if 0 < i <= rec['argc'] and t == 'bool']
    if len(jargs) != 1 or len(largs) != 1:
        ctx.undecided(rule, fnpath, 'expected exactly one JoinType and one bool parameter')
        return None
    jarg, larg = jargs[0], largs[0]
    byref = rec['locals'][jarg][0].startswith('&')
    for jtv in enum_domain(facts, jt_adt, byref):
        for il in (0, 1):
            args = [TOP] * rec['argc']
            args[jarg - 1] = jtv
            args[larg - 1] = I(il)
            if rec['locals'][0][0] == 'bool':
                outs = Explorer(facts).run(rec, args)
                vals = set(strip(o.ret) for o in outs)
            else:
                # forced nullable <=> every path calls Field::with_nullable(.., true); not forced <=> no path does
                outs = Explorer(facts, inline_depth=0, watch=('arrow_schema::field::Field::with_nullable',)).run(rec, args)
                per = set()
                for o in outs:
                    w = [e for e in o.events if e[0] == 'callargs' and e[1].endswith('Field::with_nullable')]
                    on = [e for e in w if isinstance(strip(e[2][1]), I) and strip(e[2][1]).n == 1]
                    if w and len(on) != len(w):
                        per.add(TOP)
                    else:
                        per.add(I(1 if on else 0))
                vals = per
            if len(vals) != 1 or not isinstance(next(iter(vals)), I):
                ctx.undecided(rule, '%s(%s,%d)' % (fnpath, strip(jtv).name, il), 'whether the field is forced nullable is not a constant of (join type, side)')
                return None
            tab[(strip(jtv).name, 1 - il)] = bool(next(iter(vals)).n)   # key: (jt, side) side 0 = left
    return tab


def check_force(ctx, rule, tab, where):
    bad = 0
    for (jt, side), forced in sorted(tab.items()):
        need = oracle('can_null_extend', jt, side)
        inst = 'force_nullable(%s,%s)' % (jt, SIDE[side])
        if need and not forced:
            bad += 1
            ctx.fail(rule, inst, where, 'the model can NULL-extend the %s side of a %s join but its fields keep their non-nullable declaration' % (SIDE[side], jt),
                     key=rule + '|' + inst)
        else:
            ctx.ok(rule, inst, nontrivial=need, sample={'jt': jt, 'side': SIDE[side], 'forced_nullable': forced, 'model_null_extends': need})
    return bad


EXPR = 'datafusion_expr::expr::Expr'
NULLABLE = '<datafusion_expr::expr::Expr as datafusion_expr::expr_schema::ExprSchemable>::nullable'
PB = 'datafusion_expr::predicate_bounds::'


def strict_variants(facts, decider, handlers, adt, pb_prefix):
    """variants of `adt` for which the decider ALWAYS answers with the any-child-null handler (beyond the exits it takes for every kind of
    expression): explored per variant with the module's private helpers followed, so the table may live in a match, in guards or in a predicate helper"""
    rec = facts.fn(decider)
    names = variant_names(facts, adt)
    hshort = set(h.rsplit('::', 1)[-1] for h in handlers)

    def inl(nm):
        return nm.startswith(pb_prefix) and nm not in handlers and nm != decider and '{closure' not in nm
    per = {}
    for vi, v in enumerate(names):
        selfargs = []
        for k in range(rec['argc']):
            ty = rec['locals'][k + 1][0]
            if ty.lstrip('&') == adt:
                selfargs.append(R(A(adt, vi, v, ())) if ty.startswith('&') else A(adt, vi, v, ()))
            else:
                selfargs.append(R(sym(rec['locals'][k + 1][1] or 'a%d' % k)) if ty.startswith('&') else sym(rec['locals'][k + 1][1] or 'a%d' % k))
        try:
            outs = run_traces(facts, rec, selfargs, inline_depth=0, inline_only=None, inline_pred=inl, time_budget=20, budget=400000, loop_visits=1)
        except Undecidable:
            per[v] = None
            continue
        kinds = set()
        for o in outs:
            t = tag_of(o.ret) or ''
            m = re.match(r'^call:([A-Za-z_0-9]+)@', t)
            if m and m.group(1) in hshort:
                kinds.add('handler')
            else:
                kinds.add('const:' + show(o.ret)[:60])
        per[v] = kinds
    decided = [k for k in per.values() if k is not None]
    common = set.intersection(*decided) if decided else set()
    common.discard('handler')
    return {v: 1 for v, k in per.items() if k is not None and 'handler' in k and (k - common) == {'handler'}}, [v for v, k in per.items() if k is None]


def strict_null_agreement(ctx, facts, adt=EXPR, nullable=NULLABLE, pb_prefix=PB, rule='strict-null-agreement'):
    """The analysis that proves a CASE branch unreachable treats some expression kinds as STRICT (NULL exactly when a child is NULL: the unguarded
    arms that go straight to the any-child-null handler).  For each such kind the schema side must agree: nullable(kind) has to be computed from
    the children; a kind that nullable() declares nullable on every path regardless of its children (TRY_CAST: a failed cast yields NULL) cannot be
    strict -- a CASE over it would be declared NOT NULL and still produce NULL."""
    handlers = [d for d in facts.fn_index if d.startswith(pb_prefix) and '{closure' not in d and any(c.endswith('::apply_children') for c in
                list(facts.callees.get(d, ())) + [c2 for k in facts.fn_index if k.startswith(d + '::{closure') for c2 in facts.callees.get(k, ())])]
    if not handlers:
        ctx.lost(rule, pb_prefix + '<function visiting the children of an expression>')
        return 0, 0
    deciders = [d for d in facts.fn_index if d.startswith(pb_prefix) and '{closure' not in d and d not in handlers and any(h in facts.callees.get(d, ()) for h in handlers)]
    strict = {}
    for d in deciders:
        ctx.analysed_fns.add(d)
        sv, und = strict_variants(facts, d, handlers, adt, pb_prefix)
        strict.update(sv)
        for v in und:
            ctx.undecided(rule, '%s(%s)' % (d.rsplit('::', 1)[-1], v), 'exploration budget exceeded')
    nrec = facts.fn(nullable)
    if nrec is None:
        ctx.lost(rule, nullable)
        return 0, 0
    ctx.analysed_fns.add(nullable)
    bad = 0
    for v in sorted(strict):
        vi = variant_index(facts, adt, v)
        self_v = R(A(adt, vi, v, ()))
        try:
            outs = Explorer(facts, inline_depth=0).run(nrec, [self_v, R(sym('schema'))][:nrec['argc']])
        except Undecidable as ex:
            ctx.undecided(rule, v, str(ex))
            bad += 1
            continue
        oks = [strip(read_proj(strip(o.ret), [('f', 0)])) for o in outs if isinstance(strip(o.ret), A) and strip(o.ret).name == 'Ok']
        always = bool(oks) and all(isinstance(x, I) and x.n == 1 for x in oks)
        if always:
            bad += 1
            ctx.fail(rule, v, ctx.loc(nrec), 'the predicate-bounds analysis treats %s as NULL exactly when a child is NULL, but nullable() declares %s nullable on every path whatever '
                     'its children are: a CASE branch guarded by it can be declared unreachable-when-NULL (column NOT NULL) and still yield NULL' % (v, v), key='%s|%s' % (rule, v))
        else:
            ctx.ok(rule, v, sample={'strict_variant': v, 'nullable_paths': len(oks), 'constant_true': False})
    return bad, len(strict)


def run(ctx):
    f = ctx.facts
    phys = force_table(ctx, f, OJF, JT, 'physical-nullability')
    if phys:
        check_force(ctx, 'physical-nullability', phys, ctx.loc(f.fn(OJF)))
    # logical
    rec = ctx.fn(LBJS, 'logical-nullability')
    logical = {}
    if rec and ctx.fn(NULLIFY, 'logical-nullability'):
        models = {ITER: lambda ex, a: sym(strip(a[0]).tag + '.iter()') if isinstance(strip(a[0]), U) and strip(a[0]).tag else None}
        for jtv in enum_domain(f, JT, True):
            ex = Explorer(f, inline_depth=0, models=models, watch=(NULLIFY,))
            outs = ex.run(rec, [R(sym('left')), R(sym('right')), jtv])
            jt = strip(jtv).name
            sides = set()
            for o in outs:
                for e in o.events:
                    if e[0] == 'callargs':
                        t = strip(e[2][0])
                        if isinstance(t, U) and t.tag:
                            sides.add(t.tag.split('.')[0])
            for s in (0, 1):
                logical[(jt, s)] = SIDE[s] in sides
        check_force(ctx, 'logical-nullability', logical, ctx.loc(rec))
        if phys:
            for k in sorted(phys):
                inst = 'logical==physical(%s,%s)' % (k[0], SIDE[k[1]])
                # only sides that are in the output matter
                if not M.sides_in_output(k[0])[k[1]]:
                    continue
                if phys[k] != logical[k]:
                    ctx.fail('nullability-siblings', inst, ctx.loc(rec), 'logical plan forces nullable=%s, physical plan forces nullable=%s' % (logical[k], phys[k]),
                             key='nullability-siblings|' + inst)
                else:
                    ctx.ok('nullability-siblings', inst, nontrivial=phys[k])
    # strict-null agreement between the CASE reachability analysis and the declared nullability
    sb, sn = strict_null_agreement(ctx, f)
    ctx.floor('strict-null-agreement', 'expression kinds the predicate-bounds analysis treats as strict', sn, 6)
    # selftest
    import common
    st = ctx.st
    probe = common.Ctx(ctx.pid, ctx.tier, st, st, {})
    probe.known = []
    t = force_table(probe, st, 'dfscan_selftest::tables::bad_force_nullable', 'dfscan_selftest::tables::JoinType', 'st')
    ctx.selftest('nullability bound detects Left join right side not forced nullable', bool(t) and check_force(probe, 'st', t, 'selftest') > 0)
    sb2, sn2 = strict_null_agreement(probe, st, adt='dfscan_selftest::tables::Ex', nullable='dfscan_selftest::tables::Ex::nullable', pb_prefix='dfscan_selftest::tables::pb::', rule='st-strict')
    ctx.selftest('strict-null agreement reports a kind that is strict for the bounds analysis but always nullable for the schema (TryCast), silent on Cast/Not',
                 sorted(v['key'] for v in probe.viol if v['rule'] == 'st-strict') == ['st-strict|TryCast'] and sn2 == 3)
