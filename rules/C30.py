"""C30 — batches conform to the declared schema: join output nullability."""
from jt import *

TECHNIQUE = 'finite-domain constant propagation over MIR (A1) + reference join model; logical/physical sibling tables'
EXPLANATION = ('Physical output_join_field(jt,is_left): exhaustive (10 x 2) table of the named local force_nullable; '
               'whenever the model can NULL-extend a side, that side is forced nullable. Logical build_join_schema: per join '
               'type, which side iterators reach nullify_fields; must cover the model and agree with the physical table '
               '(executed types equivalent to the logical plan\'s). Mark columns are decided under C05. Nothing else of C30 is decided.')
ASSUMPTIONS = ['reference model in oracles/joins.py']

OJF = 'datafusion_physical_plan::joins::utils::output_join_field'
LBJS = 'datafusion_expr::logical_plan::builder::build_join_schema'
NULLIFY = LBJS + '::nullify_fields'
ITER = 'datafusion_common::dfschema::DFSchema::iter'
SIDE = ['left', 'right']


def force_table(ctx, facts, fnpath, jt_adt, rule):
    rec = facts.fn(fnpath)
    if rec is None:
        ctx.lost(rule, fnpath)
        return None
    ctx.analysed_fns.add(fnpath)
    tab = {}
    # parameters are found by type (the join type and the single bool), not by name
    jargs = [i for i, (t, n) in enumerate(rec['locals']) if 0 < i <= rec['argc'] and t.lstrip('&') == jt_adt]
    largs = [i for i, (t, n) in enumerate(rec['locals']) if 0 < i <= rec['argc'] and t == 'bool']
    if len(jargs) != 1 or len(largs) != 1:
        ctx.undecided(rule, fnpath, 'expected exactly one JoinType and one bool parameter')
        return None
    jarg, larg = jargs[0], largs[0]
    byref = rec['locals'][jarg][0].startswith('&')
    for jtv in enum_domain(facts, jt_adt, byref):
        for il in (0, 1):
            args = [TOP] * rec['argc']
            args[jarg - 1] = jtv
            args[larg - 1] = I(il)
            if rec['locals'][0][0] == 'bool':
                outs = Explorer(facts).run(rec, args)
                vals = set(strip(o.ret) for o in outs)
            else:
                # forced nullable <=> every path calls Field::with_nullable(.., true); not forced <=> no path does
                outs = Explorer(facts, inline_depth=0, watch=('arrow_schema::field::Field::with_nullable',)).run(rec, args)
                per = set()
                for o in outs:
                    w = [e for e in o.events if e[0] == 'callargs' and e[1].endswith('Field::with_nullable')]
                    on = [e for e in w if isinstance(strip(e[2][1]), I) and strip(e[2][1]).n == 1]
                    if w and len(on) != len(w):
                        per.add(TOP)
                    else:
                        per.add(I(1 if on else 0))
                vals = per
            if len(vals) != 1 or not isinstance(next(iter(vals)), I):
                ctx.undecided(rule, '%s(%s,%d)' % (fnpath, strip(jtv).name, il), 'whether the field is forced nullable is not a constant of (join type, side)')
                return None
            tab[(strip(jtv).name, 1 - il)] = bool(next(iter(vals)).n)   # key: (jt, side) side 0 = left
    return tab


def check_force(ctx, rule, tab, where):
    bad = 0
    for (jt, side), forced in sorted(tab.items()):
        need = oracle('can_null_extend', jt, side)
        inst = 'force_nullable(%s,%s)' % (jt, SIDE[side])
        if need and not forced:
            bad += 1
            ctx.fail(rule, inst, where, 'the model can NULL-extend the %s side of a %s join but its fields keep their non-nullable declaration' % (SIDE[side], jt),
                     key=rule + '|' + inst)
        else:
            ctx.ok(rule, inst, nontrivial=need, sample={'jt': jt, 'side': SIDE[side], 'forced_nullable': forced, 'model_null_extends': need})
    return bad


def run(ctx):
    f = ctx.facts
    phys = force_table(ctx, f, OJF, JT, 'physical-nullability')
    if phys:
        check_force(ctx, 'physical-nullability', phys, ctx.loc(f.fn(OJF)))
    # logical
    rec = ctx.fn(LBJS, 'logical-nullability')
    logical = {}
    if rec and ctx.fn(NULLIFY, 'logical-nullability'):
        models = {ITER: lambda ex, a: sym(strip(a[0]).tag + '.iter()') if isinstance(strip(a[0]), U) and strip(a[0]).tag else None}
        for jtv in enum_domain(f, JT, True):
            ex = Explorer(f, inline_depth=0, models=models, watch=(NULLIFY,))
            outs = ex.run(rec, [R(sym('left')), R(sym('right')), jtv])
            jt = strip(jtv).name
            sides = set()
            for o in outs:
                for e in o.events:
                    if e[0] == 'callargs':
                        t = strip(e[2][0])
                        if isinstance(t, U) and t.tag:
                            sides.add(t.tag.split('.')[0])
            for s in (0, 1):
                logical[(jt, s)] = SIDE[s] in sides
        check_force(ctx, 'logical-nullability', logical, ctx.loc(rec))
        if phys:
            for k in sorted(phys):
                inst = 'logical==physical(%s,%s)' % (k[0], SIDE[k[1]])
                # only sides that are in the output matter
                if not M.sides_in_output(k[0])[k[1]]:
                    continue
                if phys[k] != logical[k]:
                    ctx.fail('nullability-siblings', inst, ctx.loc(rec), 'logical plan forces nullable=%s, physical plan forces nullable=%s' % (logical[k], phys[k]),
                             key='nullability-siblings|' + inst)
                else:
                    ctx.ok('nullability-siblings', inst, nontrivial=phys[k])
    # selftest
    import common
    st = ctx.st
    probe = common.Ctx(ctx.pid, ctx.tier, st, st, {})
    probe.known = []
    t = force_table(probe, st, 'dfscan_selftest::tables::bad_force_nullable', 'dfscan_selftest::tables::JoinType', 'st')
    ctx.selftest('nullability bound detects Left join right side not forced nullable', bool(t) and check_force(probe, 'st', t, 'selftest') > 0)
