"""Hash-buffer initialisation contract of datafusion_common::hash_utils::create_hashes.

create_hashes leaves the slots of NULL rows of the first key column untouched (and combines the following columns
into whatever is there), so the value it produces for a row is a function of the row only if the caller hands it a
buffer whose slots are all zero.  Every caller in the workspace does this in one of two ways: a fresh `vec![0; n]`,
or `buf.clear(); buf.resize(n, 0)` on a reused buffer.  The rule: on every path to every call, the buffer argument was
last initialised by one of those two idioms (or is a parameter, in which case every caller of that function is held
to the same rule)."""
from traces import *
import C53

# hashing entry point -> index of its buffer argument
CH = {'datafusion_common::hash_utils::create_hashes': 2, 'datafusion_common::hash_utils::ChildHashing::create_hashes': 2}
MUTATORS = ('clear', 'resize', 'push', 'extend', 'extend_from_slice', 'fill', 'truncate', 'insert', 'append', 'set_len',
            'resize_with', 'swap_remove', 'remove', 'drain', 'retain', 'iter_mut', 'copy_from_slice', 'fill_with')


WRAPPERS = ('index_mut', 'deref_mut', 'as_mut_slice', 'as_mut', 'borrow_mut')


def short(n):
    return n.rsplit('::', 1)[-1]


def root_tag(o, v):
    """tag of the buffer a create_hashes argument denotes; follows one index_mut/deref_mut/as_mut_slice wrapper"""
    t = tag_of(v)
    if t is None:
        return None
    nt = norm_tag(t)
    for wrap in WRAPPERS:
        if nt.startswith('call:%s@' % wrap):
            line = nt.split('@', 1)[1].split('.', 1)[0]
            for e in o.events:
                if e[0] == 'callargs' and short(e[1]) == wrap and str(e[3] if len(e) > 3 else '') == line and e[2]:
                    inner = tag_of(e[2][0])
                    if inner:
                        return norm_tag(inner)
    return nt


def check_fn(ctx, facts, d, rule, ch=CH, depth=0, seen=None):
    """returns (n_sites_checked, problems[list of str], param_buffers[set of arg index])"""
    rec = facts.fn(d)
    if rec is None or 'bb' not in rec:
        return 0, ['no MIR body'], set()
    try:
        names = set(ch)

        def keep(e):
            if e[0] != 'callargs':
                return False
            sn = short(e[1])
            return e[1] in names or sn in MUTATORS or sn in WRAPPERS or 'from_elem' in e[1]
        outs = run_traces(facts, rec, C53.fn_args(rec), inline_depth=0, loop_visits=1, time_budget=90, budget=6000000, try_tags=True,
                          keep=keep, kill_dead=True)
    except Undecidable as e:
        return 0, ['not statically decidable: %s' % e], set()
    argnames = {}
    for i in range(rec['argc']):
        nm = rec['locals'][i + 1][1] or ('a%d' % i)
        argnames[nm] = i
    problems = set()
    params = set()
    sites = set()
    for o in outs:
        evs = [e for e in o.events if e[0] == 'callargs']
        for k, e in enumerate(evs):
            if e[1] not in ch:
                continue
            line = e[3] if len(e) > 3 else 0
            sites.add(line)
            bi = ch[e[1]]
            buf = root_tag(o, e[2][bi]) if bi < len(e[2]) else None
            if buf is None:
                problems.add('line %s: the buffer handed to create_hashes has no traceable origin' % line)
                continue
            # fresh zero vector?
            if buf.startswith('call:from_elem@'):
                fl = buf.split('@', 1)[1].split('.', 1)[0]
                fe = [x for x in evs[:k] if 'from_elem' in x[1] and str(x[3] if len(x) > 3 else '') == fl]
                if not fe or not (isinstance(strip(fe[-1][2][0]), I) and strip(fe[-1][2][0]).n == 0):
                    problems.add('line %s: the fresh buffer is not filled with zeros' % line)
                later = [x for x in evs[evs.index(fe[-1]) + 1:k] if x[2] and norm_tag(tag_of(x[2][0]) or '') == buf and short(x[1]) in MUTATORS] if fe else []
                if later:
                    problems.add('line %s: the zero buffer is modified (%s) before it is hashed into' % (line, short(later[0][1])))
                continue
            # history of mutating calls on this buffer before the site
            hist = [x for x in evs[:k] if x[2] and norm_tag(tag_of(x[2][0]) or '') == buf and short(x[1]) in MUTATORS]
            def zero_arg(x, k):
                return len(x[2]) > k and isinstance(strip(x[2][k]), I) and strip(x[2][k]).n == 0
            if len(hist) >= 2 and short(hist[-2][1]) == 'clear' and short(hist[-1][1]) == 'resize' and zero_arg(hist[-1], 2):
                continue
            # a fresh empty vector (Vec::new / with_capacity) grown once with zeros
            if buf.startswith(('call:new@', 'call:with_capacity@')) and len(hist) == 1 and short(hist[0][1]) == 'resize' and zero_arg(hist[0], 2):
                continue
            # explicitly zero-filled right before the call
            if hist and short(hist[-1][1]) == 'fill' and zero_arg(hist[-1], 1):
                continue
            if not hist and buf in argnames:
                params.add(argnames[buf])
                continue
            what = ' ; '.join('%s(..)' % short(x[1]) for x in hist[-3:]) or 'nothing'
            problems.add('line %s: on a path to create_hashes the reused buffer `%s` is prepared by [%s], not by clear() followed by '
                         'resize(n, 0): slots of NULL keys keep the hashes of an earlier batch, so equal keys get different hashes' % (line, buf, what))
    return len(sites), sorted(problems), params


def check_callers(ctx, rule, select=None, ch=CH, floor=None, in_scope=None):
    f = ctx.facts
    callers = set()
    for k in ch:
        callers |= set(f.callers.get(k, []))
    callers = {c for c in callers if c not in ch and (in_scope is None or in_scope(c))}
    if select:
        callers = {c for c in callers if select(c)}
    n = 0
    work = [(c, 0) for c in sorted(callers)]
    done = set()
    while work:
        d, depth = work.pop(0)
        if d in done:
            continue
        done.add(d)
        # a pass-through implementation of the hashing trait itself (buffer is its own parameter): callers are the sites above
        ns, problems, params = check_fn(ctx, f, d, rule, ch if depth == 0 else ch)
        ctx.analysed_fns.add(d)
        n += 1
        if problems:
            rec = f.fn(d)
            ctx.fail(rule, d, ctx.loc(rec) if rec else d, '; '.join(problems), key='%s|%s' % (rule, d))
        elif params:
            ups = [c for c in f.callers.get(d, []) if in_scope is None or in_scope(c)]
            if depth >= 2:
                ctx.undecided(rule, d, 'buffer is passed down through more than two levels of parameters')
            elif d.endswith('ChildHashing>::create_hashes'):
                ctx.ok(rule, d, 'pass-through impl of the hashing trait; its callers are checked as sites', nontrivial=False)
            else:
                ctx.ok(rule, d, 'buffer is a parameter: callers %s are held to the rule' % [short(u) for u in ups])
                for u in ups:
                    # the callers must zero what they pass: treat d as a hashing entry point for them
                    ns2, p2, par2 = check_fn(ctx, f, u, rule, ch={d: sorted(params)[0]})
                    ctx.analysed_fns.add(u)
                    n += 1
                    if p2 or par2:
                        rec = f.fn(u)
                        msg = '; '.join(p2) or 'buffer passed on from a parameter again'
                        ctx.fail(rule, '%s -> %s' % (short(u), short(d)), ctx.loc(rec) if rec else u, msg, key='%s|%s->%s' % (rule, u, d))
                    else:
                        ctx.ok(rule, '%s -> %s' % (u, short(d)), sample={'caller': u, 'passes_zeroed_buffer_to': d})
        else:
            ctx.ok(rule, d, sample={'fn': d, 'create_hashes_sites': ns} if n <= 8 else None)
    if floor is not None:
        ctx.floor(rule, 'functions handing a buffer to create_hashes', n, floor)
    return n
