"""C23 — interval arithmetic is sound: the directed-rounding discipline."""
import re
from traces import *
import C16

TECHNIQUE = 'static analysis: path enumeration over MIR per const-generic instantiation (set/restore pairing of the FP rounding mode, direction table) + origin tracking of interval bounds'
EXPLANATION = ('(a) alter_fp_rounding_mode::<UPPER>: on every path fegetround() is followed by fesetround(mode), the operation, and '
               'fesetround(saved) in this order with no exit in between; mode is FE_UPWARD for UPPER=true and FE_DOWNWARD for UPPER=false '
               '(both constants evaluated from the program). (b) In every function of interval_arithmetic.rs that builds an interval from '
               'add/sub/mul/div_bounds results, the value that flows into the LOWER argument of Interval::new derives only from '
               '*_bounds::<false> calls and the UPPER argument only from *_bounds::<true> calls (origin tags through min_of_bounds / '
               'max_of_bounds). (c) get_inverse_op maps each arithmetic operator to its arithmetic inverse and is an involution. '
               'Everything else about interval soundness (constraint propagation, cardinality, casts) is not decided.')
ASSUMPTIONS = ['the x86_64/aarch64 non-windows cfg variant is the one analysed (the build configuration of this sandbox)']

ROUND = 'datafusion_common::rounding::'
IA = 'datafusion_expr_common::interval_arithmetic::'


def run(ctx):
    f = ctx.facts
    # (a)
    rec = ctx.fn(ROUND + 'alter_fp_rounding_mode', 'rounding-restore')
    consts = {}
    for nm in ('FE_UPWARD', 'FE_DOWNWARD'):
        c = f.fn(ROUND + nm)
        if c is None:
            ctx.lost('rounding-restore', ROUND + nm)
        else:
            outs = Explorer(f).run(c, [])
            v = strip(outs[0].ret)
            consts[nm] = v.n if isinstance(v, I) else None
    if rec and len(consts) == 2:
        for upper in (0, 1):
            outs = run_traces(f, rec, [R(sym('lhs')), R(sym('rhs')), sym('operation')], inline_depth=0, const_params={'UPPER': upper})
            problems = set()
            for o in outs:
                seq = []
                for e in o.events:
                    if e[0] == 'callargs':
                        short = e[1].rsplit('::', 1)[-1]
                        if short in ('fegetround', 'fesetround'):
                            seq.append((short, show(e[2][0]) if e[2] else ''))
                        elif e[1].endswith('FnOnce::call_once'):
                            seq.append(('op', ''))
                    elif e[0] == 'callparam':
                        seq.append(('op', ''))
                names = [x[0] for x in seq]
                if names != ['fegetround', 'fesetround', 'op', 'fesetround']:
                    problems.add('rounding mode is not set / restored around the operation on every path (sequence %s)' % names)
                    continue
                mode = seq[1][1]
                want = consts['FE_UPWARD'] if upper else consts['FE_DOWNWARD']
                if mode != str(want):
                    problems.add('UPPER=%s selects rounding mode %s, expected %s (%s)' % (bool(upper), mode, want, 'FE_UPWARD' if upper else 'FE_DOWNWARD'))
                if 'fegetround' not in seq[3][1]:
                    problems.add('the mode restored (%s) is not the one saved by fegetround()' % seq[3][1])
            inst = 'alter_fp_rounding_mode::<%s>' % ('true' if upper else 'false')
            if problems or not outs:
                ctx.fail('rounding-restore', inst, ctx.loc(rec), '; '.join(sorted(problems)) or 'no path', key='rounding-restore|' + inst)
            else:
                ctx.ok('rounding-restore', inst, sample={'instantiation': inst, 'paths': len(outs), 'mode': seq[1][1]})
    # (b)
    NEW = IA + 'Interval::new'
    n = 0
    for d in sorted(set(f.callers_of(NEW))):
        if not d.startswith(IA):
            continue
        cs = f.callees.get(d, [])
        if not any(c.rsplit('::', 1)[-1] in ('add_bounds', 'sub_bounds', 'mul_bounds', 'div_bounds') for c in cs):
            continue
        rec = f.fn(d)
        try:
            outs = run_traces(f, rec, C16.args_for(rec), inline_depth=0, time_budget=30, budget=600000)
        except Undecidable as e:
            ctx.undecided('bound-direction', d, str(e))
            continue
        n += 1
        problems = set()
        checked = 0
        for o in outs:
            ga = {}
            for e in o.events:
                if e[0] == 'callargs' and e[1].rsplit('::', 1)[-1] in ('add_bounds', 'sub_bounds', 'mul_bounds', 'div_bounds'):
                    ga['%s@%s' % (e[1].rsplit('::', 1)[-1], e[3])] = 'true' if 'true' in e[4] else 'false' if 'false' in e[4] else '?'
            for e in o.events:
                if e[0] == 'callargs' and e[1] == NEW and len(e[2]) == 2:
                    for pos, want in ((0, 'false'), (1, 'true')):
                        t = tag_of(e[2][pos]) or ''
                        sites = re.findall(r'(?:add|sub|mul|div)_bounds@\d+', t)
                        if not sites:
                            continue
                        checked += 1
                        wrong = [s_ for s_ in sites if ga.get(s_) != want]
                        if wrong:
                            problems.add('the %s bound of the result is computed by %s, i.e. rounded %s' % (
                                'lower' if pos == 0 else 'upper', ['%s::<%s>' % (w, ga.get(w)) for w in wrong], 'up' if pos == 0 else 'down'))
        inst = d.replace(IA, '')
        if problems:
            ctx.fail('bound-direction', inst, ctx.loc(rec), '; '.join(sorted(problems)), key='bound-direction|' + inst)
        elif checked == 0:
            ctx.skip('bound-direction', inst, 'no bound of Interval::new traced back to a *_bounds call')
            n -= 1
        else:
            ctx.ok('bound-direction', inst, sample={'fn': d, 'bounds_checked_over_paths': checked})
    ctx.floor('bound-direction', 'functions building intervals from directed bounds', n, 5)
    # (c)
    import C04, ops3
    G = 'datafusion_physical_expr::intervals::utils::get_inverse_op'
    tab = C04.opt_table(ctx, f, 'inverse-op', G, by_ref=False)
    if tab:
        for op, op2 in tab.items():
            if op2 is None:
                continue
            if not ops3.arith_inverse(op, op2) or tab.get(op2) != op:
                ctx.fail('inverse-op', op, ctx.loc(f.fn(G)), 'get_inverse_op(%s)=%s is not its arithmetic inverse / not an involution' % (op, op2), key='inverse-op|' + op)
            else:
                ctx.ok('inverse-op', op, sample={'op': op, 'inverse': op2})
    # selftest
    st = ctx.st
    rec = st.fn('dfscan_selftest::round::bad_alter')
    outs = run_traces(st, rec, [sym('x')], inline_depth=0)
    badseq = False
    for o in outs:
        names = [e[1].rsplit('::', 1)[-1] for e in o.events if e[0] == 'callargs' and e[1].rsplit('::', 1)[-1] in ('fegetround', 'fesetround', 'risky')]
        if names != ['fegetround', 'fesetround', 'risky', 'fesetround']:
            badseq = True
    ctx.selftest('set/restore pairing detects an early `?` exit that skips the restore', badseq)
