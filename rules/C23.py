"""C23 — interval arithmetic is sound: the directed-rounding discipline."""
import re
from traces import *
import C16

TECHNIQUE = 'static analysis: path enumeration over MIR per const-generic instantiation (set/restore pairing of the FP rounding mode, direction table) + origin tracking of interval bounds and of returned pair components (contradiction rule)'
EXPLANATION = ('(a) alter_fp_rounding_mode::<UPPER>: on every path fegetround() is followed by fesetround(mode), the operation, and '
               'fesetround(saved) in this order with no exit in between; mode is FE_UPWARD for UPPER=true and FE_DOWNWARD for UPPER=false '
               '(both constants evaluated from the program). (b) In every function of interval_arithmetic.rs that builds an interval from '
               'add/sub/mul/div_bounds results, the value that flows into the LOWER argument of Interval::new derives only from '
               '*_bounds::<false> calls and the UPPER argument only from *_bounds::<true> calls (origin tags through min_of_bounds / '
               'max_of_bounds). (c) get_inverse_op maps each arithmetic operator to its arithmetic inverse and is an involution. '
               '(d) pair orientation: in every function that takes two interval operands and answers a pair of intervals (satisfy_greater, propagate_comparison, '
               'propagate_arithmetic, ...) no operand determines component 0 alone on one path and component 1 alone on another (the pair is never built in both orders). '
               'Everything else about interval soundness (the bound computations of constraint propagation, cardinality, casts) is not decided.')
ASSUMPTIONS = ['the x86_64/aarch64 non-windows cfg variant is the one analysed (the build configuration of this sandbox)']

ROUND = 'datafusion_common::rounding::'
IA = 'datafusion_expr_common::interval_arithmetic::'


IV = 'datafusion_expr_common::interval_arithmetic::Interval'


def _tags_in(v, out):
    v0 = strip(v)
    if isinstance(v0, U):
        if v0.tag:
            out.add(v0.tag)
        for _, c in v0.ch:
            _tags_in(c, out)
    elif isinstance(v0, T):
        for x in v0.items:
            _tags_in(x, out)
    elif isinstance(v0, A):
        for _, x in v0.fields:
            _tags_in(x, out)
    elif isinstance(v0, (R, MR)):
        _tags_in(v0.v, out)
    return out


def pair_orientation(ctx, facts, ty=IV, scope=('datafusion_expr_common', 'datafusion_physical_expr'), rule='pair-orientation'):
    """(d) Functions that take two or more operands of the interval type and answer a pair of intervals (satisfy_greater, propagate_comparison,
    propagate_arithmetic, ...): the caller assigns component 0 to the first child and component 1 to the second.  Contradiction rule, no naming
    convention needed: if an operand's own value flows ALONE into component 0 on one path and ALONE into component 1 on another path of the same
    function (private helpers of the same modules followed), the pair is built in both orders and one of the two hands the children each other's
    interval.  Paths whose two components derive from the same single operand (the 'both collapse to one point' case) are not counted."""
    n = 0
    bad = 0
    cands = []
    for d, i, e in facts.all_fn_entries():
        sig = e[8]
        if not sig or e[4] not in ('fn', 'assoc_fn') or e[7] not in scope or '::test' in d:
            continue
        if sum(1 for t in sig[1:] if t.lstrip('&') == ty) >= 2 and ('(%s, %s)' % (ty, ty)) in sig[0]:
            cands.append((d, i))
    names_of = set(d for d, _ in cands)
    mods = set(d.rsplit('::', 1)[0] for d in names_of)
    for d, i in sorted(cands):
        rec = facts.fn(d, i)
        pnames = [rec['locals'][k + 1][1] or 'a%d' % k for k in range(rec['argc'])]
        operands = [pnames[k] for k in range(rec['argc']) if rec['locals'][k + 1][0].lstrip('&') == ty]
        args = [R(sym(nm)) if rec['locals'][k + 1][0].startswith('&') else sym(nm) for k, nm in enumerate(pnames)]

        def inl(nm):
            # the pair-returning functions themselves and the tuple-shuffling helpers next to them (reverse_tuple) are followed
            if nm in names_of:
                return True
            r2 = facts.fn(nm)
            # tuple-shuffling helpers: one argument, a tuple in, a tuple out
            return (r2 is not None and nm.rsplit('::', 1)[0] in mods and r2['argc'] == 1 and r2['locals'][0][0].startswith('(')
                    and r2['locals'][1][0].startswith('('))
        try:
            outs = run_traces(facts, rec, args, inline_depth=0, inline_only=None, inline_pred=inl, time_budget=60, budget=2000000, try_tags=True)
        except Undecidable as ex:
            ctx.undecided(rule, d, str(ex))
            bad += 1
            continue
        ctx.analysed_fns.add(d)
        seen = {}       # (operand, component) -> example
        npairs = 0
        for o in outs:
            v = strip(o.ret)
            while isinstance(v, A) and v.name in ('Ok', 'Some') and v.fields:
                v = strip(v.fields[0][1])
            if not (isinstance(v, T) and len(v.items) == 2):
                continue
            npairs += 1
            who = []
            for c in v.items:
                ts = _tags_in(c, set())
                s_ = set()
                for t in ts:
                    for nm in operands:
                        if re.search(r'(^|[(,:])%s([.,)]|$)' % re.escape(nm), t):
                            s_.add(nm)
                who.append(s_)
            if len(who[0]) == 1 and who[0] == who[1]:
                continue
            for k in (0, 1):
                if len(who[k]) == 1:
                    seen.setdefault((next(iter(who[k])), k), (show(v.items[0])[:70], show(v.items[1])[:70]))
        if npairs == 0:
            ctx.skip(rule, d, 'no explored path returns a concrete pair')
            continue
        n += 1
        contra = [nm for nm in operands if (nm, 0) in seen and (nm, 1) in seen]
        if contra:
            bad += 1
            nm = contra[0]
            ctx.fail(rule, d, ctx.loc(rec), 'operand `%s` alone determines component 0 on one path %s and component 1 on another %s: the pair is returned in both orders, '
                     'so on one of them each child receives the interval computed for the other (values satisfying the constraint are removed)' % (nm, seen[(nm, 0)], seen[(nm, 1)]),
                     key='%s|%s' % (rule, d))
        else:
            ctx.ok(rule, d, sample={'fn': d, 'paths_returning_a_pair': npairs, 'pure_components': sorted('%s->%d' % k for k in seen)})
    return bad, n


def run(ctx):
    f = ctx.facts
    # (a)
    rec = ctx.fn(ROUND + 'alter_fp_rounding_mode', 'rounding-restore')
    consts = {}
    for nm in ('FE_UPWARD', 'FE_DOWNWARD'):
        c = f.fn(ROUND + nm)
        if c is None:
            ctx.lost('rounding-restore', ROUND + nm)
        else:
            outs = Explorer(f).run(c, [])
            v = strip(outs[0].ret)
            consts[nm] = v.n if isinstance(v, I) else None
    if rec and len(consts) == 2:
        for upper in (0, 1):
            # the set/run/restore sequence may sit in a private (cfg-gated) helper of the rounding module: followed
            outs = run_traces(f, rec, [R(sym('lhs')), R(sym('rhs')), sym('operation')], inline_depth=2, inline_only=(ROUND,), const_params={'UPPER': upper})
            problems = set()
            for o in outs:
                seq = []
                for e in o.events:
                    if e[0] == 'callargs':
                        short = e[1].rsplit('::', 1)[-1]
                        if short in ('fegetround', 'fesetround'):
                            seq.append((short, show(e[2][0]) if e[2] else ''))
                        elif e[1].endswith('FnOnce::call_once'):
                            seq.append(('op', ''))
                    elif e[0] == 'callparam':
                        seq.append(('op', ''))
                names = [x[0] for x in seq]
                if names != ['fegetround', 'fesetround', 'op', 'fesetround']:
                    problems.add('rounding mode is not set / restored around the operation on every path (sequence %s)' % names)
                    continue
                mode = seq[1][1]
                want = consts['FE_UPWARD'] if upper else consts['FE_DOWNWARD']
                if mode != str(want):
                    problems.add('UPPER=%s selects rounding mode %s, expected %s (%s)' % (bool(upper), mode, want, 'FE_UPWARD' if upper else 'FE_DOWNWARD'))
                if 'fegetround' not in seq[3][1]:
                    problems.add('the mode restored (%s) is not the one saved by fegetround()' % seq[3][1])
            inst = 'alter_fp_rounding_mode::<%s>' % ('true' if upper else 'false')
            if problems or not outs:
                ctx.fail('rounding-restore', inst, ctx.loc(rec), '; '.join(sorted(problems)) or 'no path', key='rounding-restore|' + inst)
            else:
                ctx.ok('rounding-restore', inst, sample={'instantiation': inst, 'paths': len(outs), 'mode': seq[1][1]})
    # (b)
    NEW = IA + 'Interval::new'
    n = 0
    for d in sorted(set(f.callers_of(NEW))):
        if not d.startswith(IA):
            continue
        cs = f.callees.get(d, [])
        if not any(c.rsplit('::', 1)[-1] in ('add_bounds', 'sub_bounds', 'mul_bounds', 'div_bounds') for c in cs):
            continue
        rec = f.fn(d)
        try:
            outs = run_traces(f, rec, C16.args_for(rec), inline_depth=0, time_budget=30, budget=600000)
        except Undecidable as e:
            ctx.undecided('bound-direction', d, str(e))
            continue
        n += 1
        problems = set()
        checked = 0
        for o in outs:
            ga = {}
            for e in o.events:
                if e[0] == 'callargs' and e[1].rsplit('::', 1)[-1] in ('add_bounds', 'sub_bounds', 'mul_bounds', 'div_bounds'):
                    ga['%s@%s' % (e[1].rsplit('::', 1)[-1], e[3])] = 'true' if 'true' in e[4] else 'false' if 'false' in e[4] else '?'
            for e in o.events:
                if e[0] == 'callargs' and e[1] == NEW and len(e[2]) == 2:
                    for pos, want in ((0, 'false'), (1, 'true')):
                        t = tag_of(e[2][pos]) or ''
                        sites = re.findall(r'(?:add|sub|mul|div)_bounds@\d+', t)
                        if not sites:
                            continue
                        checked += 1
                        wrong = [s_ for s_ in sites if ga.get(s_) != want]
                        if wrong:
                            problems.add('the %s bound of the result is computed by %s, i.e. rounded %s' % (
                                'lower' if pos == 0 else 'upper', ['%s::<%s>' % (w, ga.get(w)) for w in wrong], 'up' if pos == 0 else 'down'))
        inst = d.replace(IA, '')
        if problems:
            ctx.fail('bound-direction', inst, ctx.loc(rec), '; '.join(sorted(problems)), key='bound-direction|' + inst)
        elif checked == 0:
            ctx.skip('bound-direction', inst, 'no bound of Interval::new traced back to a *_bounds call')
            n -= 1
        else:
            ctx.ok('bound-direction', inst, sample={'fn': d, 'bounds_checked_over_paths': checked})
    ctx.floor('bound-direction', 'functions building intervals from directed bounds', n, 5)
    # (c)
    import C04, ops3
    G = 'datafusion_physical_expr::intervals::utils::get_inverse_op'
    tab = C04.opt_table(ctx, f, 'inverse-op', G, by_ref=False)
    if tab:
        for op, op2 in tab.items():
            if op2 is None:
                continue
            if not ops3.arith_inverse(op, op2) or tab.get(op2) != op:
                ctx.fail('inverse-op', op, ctx.loc(f.fn(G)), 'get_inverse_op(%s)=%s is not its arithmetic inverse / not an involution' % (op, op2), key='inverse-op|' + op)
            else:
                ctx.ok('inverse-op', op, sample={'op': op, 'inverse': op2})
    # (d)
    pb, pn = pair_orientation(ctx, f)
    ctx.floor('pair-orientation', 'pair-returning interval functions', pn, 3)
    # selftest
    st = ctx.st
    import common
    probe = common.Ctx(ctx.pid, ctx.tier, st, st, {})
    probe.known = []
    pair_orientation(probe, st, ty='dfscan_selftest::round::Iv', scope=('dfscan_selftest',), rule='st-pair')
    ctx.selftest('pair-orientation reports a propagation that returns (left, right) on one branch and (right, left) on the other; silent on the consistent one',
                 sorted(v['key'] for v in probe.viol) == ['st-pair|dfscan_selftest::round::propagate_bad'])
    rec = st.fn('dfscan_selftest::round::bad_alter')
    outs = run_traces(st, rec, [sym('x')], inline_depth=0)
    badseq = False
    for o in outs:
        names = [e[1].rsplit('::', 1)[-1] for e in o.events if e[0] == 'callargs' and e[1].rsplit('::', 1)[-1] in ('fegetround', 'fesetround', 'risky')]
        if names != ['fegetround', 'fesetround', 'risky', 'fesetround']:
            badseq = True
    ctx.selftest('set/restore pairing detects an early `?` exit that skips the restore', badseq)
