"""C37 — Substrait round trip preserves query results: producer/consumer tag round trips (thin clause)."""
from enumtab import *

TECHNIQUE = ('static analysis: exhaustive evaluation (A1) of the Substrait producer\'s finite mappings composed with the consumer\'s inverse '
             'mappings (prost TryFrom<i32> modelled from the wire enum\'s discriminants); inline tables extracted by forcing the domain of '
             'the wire-typed local')
EXPLANATION = ('For every finite tag the Substrait producer writes and the consumer reads back, consumer(producer(v)) = v for every value '
               'of the domain: join type (10 variants, through the i32 of join_rel::JoinType; the wire variant must also be the one the '
               'Substrait specification names for that join), sort direction (asc x nulls_first, both producers of SortField vs '
               'from_substrait_sorts), time precision (TimeUnit <-> 0/3/6/9), window bounds type (Rows/Range; Groups must be refused, not '
               'mapped), type nullability (nullable bool <-> Nullability, Unspecified read as nullable). A wrong entry changes results '
               'silently after a round trip (a LEFT join coming back as RIGHT, NULLS FIRST as NULLS LAST). Field-level agreement: for the 90 substrait messages the producer builds, every field it fills with a computed value is read somewhere in the consumer (field projection attributed by owner type, or the generated accessor); five exceptions are frozen with reasons. The other direction (producer-reads-every-field): every field of the logical plan node / expression structs the producer accepts is read somewhere in the producer (handlers, helpers, own accessors of the struct); a part never looked at — and not refused either — cannot be in the Substrait plan. Everything else about the round '
               'trip — expressions, literals, schemas, function resolution — is value-level and not decided.')
ASSUMPTIONS = ['a prost enum travels as the i32 discriminant of the same variant; <E as TryFrom<i32>>::try_from is modelled from the '
               'discriminants of E exported by the driver',
               'the names of the Substrait join types are taken from the Substrait specification (spec table in the rule file)']

SP = 'datafusion_substrait::logical_plan::'
J = 'datafusion_common::join_type::JoinType'
WJ = 'substrait::proto::join_rel::JoinType'
SD = 'substrait::proto::sort_field::SortDirection'
BT = 'substrait::proto::expression::window_function::BoundsType'
NU = 'substrait::proto::r#type::Nullability'
TU = 'arrow_schema::datatype::TimeUnit'
WFU = 'datafusion_expr::window_frame::WindowFrameUnits'

# Substrait specification (relations/logical_relations: join types) -> DataFusion join type with the same meaning
SPEC_JOIN = {'Inner': 'Inner', 'Left': 'Left', 'Right': 'Right', 'Full': 'Outer', 'LeftSemi': 'LeftSemi', 'RightSemi': 'RightSemi',
             'LeftAnti': 'LeftAnti', 'RightAnti': 'RightAnti', 'LeftMark': 'LeftMark', 'RightMark': 'RightMark'}
SPEC_SORT = {(1, 1): 'AscNullsFirst', (1, 0): 'AscNullsLast', (0, 1): 'DescNullsFirst', (0, 0): 'DescNullsLast'}


def prost_hook(facts):
    def hook(ex, name, deff, args):
        if name.startswith('<') and ' as core::convert::TryFrom<i32>>::try_from' in name:
            adt = name[1:].split(' as ')[0]
            a = facts.adts.get(adt)
            v = strip(args[0])
            if a and isinstance(v, I):
                for i, var in enumerate(a['variants']):
                    if var['discr'] == v.n:
                        return A('core::result::Result', 0, 'Ok', ((0, A(adt, i, var['name'], ())),))
                return A('core::result::Result', 1, 'Err', ((0, TOP),))
        return None
    return hook


def ok_payload(o):
    r = strip(o.ret)
    if isinstance(r, A) and r.name == 'Ok':
        return strip(read_proj(r, [('f', 0)]))
    if isinstance(r, A) and r.name == 'Err':
        return 'Err'
    return r


def discr(facts, adt, name):
    for v in facts.adts[adt]['variants']:
        if v['name'] == name:
            return v['discr']
    return None


def join_types(ctx, enc, dec, rule='join-type-roundtrip'):
    f = ctx.facts
    erec, drec = ctx.fn(enc, rule), ctx.fn(dec, rule)
    if not erec or not drec or WJ not in f.adts:
        if erec and drec:
            ctx.lost(rule, WJ)
        return
    hook = prost_hook(f)
    for v in enum_domain(f, J):
        inst = 'JoinType::' + v.name
        outs = Explorer(f, inline_depth=1).run(erec, [v])
        ws = {ok_payload(o).name if isinstance(ok_payload(o), A) else '?' for o in outs}
        if len(ws) != 1 or '?' in ws:
            ctx.undecided(rule, inst, 'producer result for %s is not a single wire variant: %s' % (v.name, sorted(ws)))
            continue
        w = ws.pop()
        problems = []
        if SPEC_JOIN.get(v.name) != w:
            problems.append('producer writes %s as Substrait %s; the specification\'s name for this join is %s' % (v.name, w, SPEC_JOIN.get(v.name)))
        n = discr(f, WJ, w)
        back = set()
        for o in Explorer(f, inline_depth=1, model_hook=hook).run(drec, [I(n)]):
            p = ok_payload(o)
            back.add(p.name if isinstance(p, A) else str(p))
        if back != {v.name}:
            problems.append('%s is written as %s (=%s) which the consumer reads back as %s' % (v.name, w, n, sorted(back)))
        if problems:
            ctx.fail(rule, inst, ctx.loc(erec), '; '.join(problems), key='%s|%s' % (rule, inst))
        else:
            ctx.ok(rule, inst, sample={'join': v.name, 'wire': w, 'i32': n, 'decoded': v.name})


def sort_encoders(ctx, encs, sort_arg=1, rule='sort-direction-roundtrip'):
    """{(asc, nulls_first): wire variant} per encoder"""
    f = ctx.facts
    tabs = {}
    for enc in encs:
        rec = ctx.fn(enc, rule)
        if not rec:
            continue
        tab = {}
        for a in (0, 1):
            for n in (0, 1):
                sort = R(U(((('f', 1), I(a)), (('f', 2), I(n))), 'sort'))
                args = [TOP] * rec['argc']
                args[sort_arg] = sort
                try:
                    outs = Explorer(f, inline_depth=0, observe_types=(SD,), time_budget=20, loop_visits=1).run(rec, args)
                except Undecidable as e:
                    tab[(a, n)] = '?'
                    continue
                ws = set()
                for o in outs:
                    for nm, x in o.obs:
                        x = strip(x)
                        if isinstance(x, A):
                            ws.add(x.name)
                    for e in o.events:
                        if e[0] == 'agg' and e[1] == SD:
                            ws.add(e[2])
                tab[(a, n)] = ws.pop() if len(ws) == 1 else '?'
        tabs[enc] = tab
    return tabs


def sort_decoder(ctx, dec, rule='sort-direction-roundtrip', names=('asc', 'nulls_first')):
    f = ctx.facts
    rec = ctx.fn(dec, rule)
    if not rec:
        return None
    try:
        outs = Explorer(f, inline_depth=0, force_type={SD: enum_domain(f, SD)}, observe_types=(SD,), observe=names, time_budget=60,
                        loop_visits=2, budget=3000000).run(rec, [TOP] * rec['argc'])
    except Undecidable as e:
        ctx.undecided(rule, dec, str(e))
        return None
    tab = {}
    for o in outs:
        d = None
        vals = {}
        for nm, x in o.obs:
            x = strip(x)
            if nm.startswith(SD + '#') and isinstance(x, A):
                d = x.name
            elif nm in names and isinstance(x, I):
                vals[nm] = x.n
        if d and len(vals) == 2:
            tab.setdefault(d, set()).add((vals[names[0]], vals[names[1]]))
    return tab


def sort_directions(ctx, encs, dec, rule='sort-direction-roundtrip'):
    f = ctx.facts
    if SD not in f.adts:
        ctx.lost(rule, SD)
        return
    etabs = sort_encoders(ctx, encs, rule=rule)
    dtab = sort_decoder(ctx, dec, rule)
    if dtab is None:
        return
    for enc, tab in etabs.items():
        for (a, n), w in sorted(tab.items()):
            inst = '%s(asc=%d,nulls_first=%d)' % (enc.rsplit('::', 1)[-1], a, n)
            if w == '?':
                ctx.undecided(rule, inst, 'the producer does not write a single SortDirection for this sort')
                continue
            problems = []
            if SPEC_SORT[(a, n)] != w:
                problems.append('written as %s; the specification\'s direction for this sort is %s' % (w, SPEC_SORT[(a, n)]))
            back = dtab.get(w, set())
            if back != {(a, n)}:
                problems.append('written as %s which the consumer reads back as %s' % (w, sorted(back) or 'an error'))
            if problems:
                ctx.fail(rule, inst, ctx.loc(f.fn(enc)), '; '.join(problems), key='%s|%s' % (rule, inst))
            else:
                ctx.ok(rule, inst, sample={'encoder': enc, 'sort': [a, n], 'wire': w})


def precision(ctx, enc, dec, rule='time-precision-roundtrip'):
    f = ctx.facts
    erec, drec = ctx.fn(enc, rule), ctx.fn(dec, rule)
    if not erec or not drec:
        return
    byref = erec['locals'][1][0].startswith('&')
    for v in enum_domain(f, TU, byref):
        name = strip(v).name
        inst = 'TimeUnit::' + name
        outs = Explorer(f, inline_depth=1).run(erec, [v])
        ns = {strip(o.ret).n if isinstance(strip(o.ret), I) else None for o in outs}
        if len(ns) != 1 or None in ns:
            ctx.undecided(rule, inst, 'producer precision is not a constant')
            continue
        n = ns.pop()
        back = set()
        for o in Explorer(f, inline_depth=1).run(drec, [I(n)] + [TOP] * (drec['argc'] - 1)):
            p = ok_payload(o)
            back.add(p.name if isinstance(p, A) else str(p))
        if back != {name}:
            ctx.fail(rule, inst, ctx.loc(erec), '%s is written as precision %s which the consumer reads back as %s' % (name, n, sorted(back)), key='%s|%s' % (rule, inst))
        else:
            ctx.ok(rule, inst, sample={'unit': name, 'precision': n})


def bounds_type(ctx, enc, dec, rule='window-bounds-type-roundtrip'):
    f = ctx.facts
    erec, drec = ctx.fn(enc, rule), ctx.fn(dec, rule)
    if not erec or not drec or BT not in f.adts:
        return
    # consumer: force the wire-typed local, observe the domain-typed local
    try:
        outs = Explorer(f, inline_depth=0, force_type={BT: enum_domain(f, BT)}, observe_types=(BT, WFU), time_budget=60, loop_visits=2,
                        budget=3000000).run(drec, [TOP] * drec['argc'])
    except Undecidable as e:
        ctx.undecided(rule, dec, str(e))
        return
    dtab = {}
    for o in outs:
        w = u = None
        for nm, x in o.obs:
            x = strip(x)
            if isinstance(x, A) and nm.startswith(BT + '#'):
                w = x.name
            elif isinstance(x, A) and nm.startswith(WFU + '#'):
                u = x.name
        if w and u:
            dtab.setdefault(w, set()).add(u)
    fidx = [i for i, fl in enumerate(f.adts['datafusion_expr::window_frame::WindowFrame']['variants'][0]['fields']) if fl[0] == 'units'][0]
    for v in enum_domain(f, WFU):
        inst = 'WindowFrameUnits::' + v.name
        outs = Explorer(f, inline_depth=1).run(erec, [R(U(((('f', fidx), v),), 'frame'))])
        ws = set()
        for o in outs:
            p = ok_payload(o)
            ws.add(p.name if isinstance(p, A) else str(p))
        if ws == {'Err'}:
            ctx.skip(rule, inst, 'the producer refuses this unit with an explicit error (loud, not a silent change)')
            continue
        if len(ws) != 1:
            ctx.undecided(rule, inst, 'producer result is not a single wire variant: %s' % sorted(ws))
            continue
        w = ws.pop()
        back = dtab.get(w, set())
        if back != {v.name} or w != v.name:
            ctx.fail(rule, inst, ctx.loc(erec), '%s is written as %s which the consumer reads back as %s' % (v.name, w, sorted(back) or 'an error'), key='%s|%s' % (rule, inst))
        else:
            ctx.ok(rule, inst, sample={'units': v.name, 'wire': w})


def nullability(ctx, enc, dec, rule='nullability-roundtrip'):
    f = ctx.facts
    erec, drec = ctx.fn(enc, rule), ctx.fn(dec, rule)
    if not erec or not drec or NU not in f.adts:
        return
    hook = prost_hook(f)
    # consumer table over the wire enum
    dtab = {}
    for var in f.adts[NU]['variants']:
        back = set()
        for o in Explorer(f, inline_depth=1, model_hook=hook).run(drec, [I(var['discr'])]):
            p = ok_payload(o)
            back.add(p.n if isinstance(p, I) else str(p))
        dtab[var['name']] = back
    # producer: which Nullability constants does it write, under which value of the named local / is_nullable() result
    def fld_hook(ex, name, deff, args):
        if name.endswith('Field::is_nullable'):
            return ex.force_nullable
        return None
    for b in (0, 1):
        inst = 'nullable=%d' % b
        ex = Explorer(f, inline_depth=0, observe=('nullability',), time_budget=30, loop_visits=1, model_hook=fld_hook, budget=2000000)
        ex.force_nullable = I(b)
        try:
            outs = ex.run(erec, [TOP] * erec['argc'])
        except Undecidable as e:
            ctx.undecided(rule, inst, str(e))
            continue
        ns = set()
        for o in outs:
            for nm, x in o.obs:
                x = strip(x)
                if nm == 'nullability' and isinstance(x, I):
                    ns.add(x.n)
        names = {v['name'] for v in f.adts[NU]['variants'] if v['discr'] in ns}
        if len(names) != 1:
            ctx.undecided(rule, inst, 'producer does not write a single Nullability for this field (%s)' % sorted(names))
            continue
        w = names.pop()
        want = {'Nullable'} if b else {'Required'}
        back = dtab.get(w, set())
        problems = []
        if {w} != want:
            problems.append('a %s field is written as %s' % ('nullable' if b else 'non-nullable', w))
        if back != {b}:
            problems.append('written as %s which the consumer reads back as nullable=%s' % (w, sorted(back)))
        if problems:
            ctx.fail(rule, inst, ctx.loc(erec), '; '.join(problems), key='%s|%s' % (rule, inst))
        else:
            ctx.ok(rule, inst, sample={'nullable': b, 'wire': w})
    if dtab.get('Unspecified') != {1}:
        ctx.fail(rule, 'Unspecified', ctx.loc(drec), 'Nullability::Unspecified is read as %s, not as nullable (a required column could receive NULLs)' % sorted(dtab.get('Unspecified', [])),
                 key=rule + '|Unspecified')
    else:
        ctx.ok(rule, 'Unspecified read as nullable')



SUBP = 'substrait::proto::'
# (message, field) the producer fills but the consumer has no use for — each read in the source
SUBSTRAIT_UNREAD_OK = {
    ('AggregateFunction', 'phase'): 'the producer always writes AggregationPhase::Unspecified; DataFusion plans carry the phase in the operator, not per function',
    ('Plan', 'version'): 'producer version stamp; the consumer accepts any version',
    ('ExtendedExpression', 'version'): 'producer version stamp',
    ('expression::ScalarFunction', 'args'): 'deprecated field kept empty by the producer; `arguments` carries the operands',
    ('expression::ScalarFunction', 'output_type'): 'the consumer re-derives the return type from the resolved function',
}


def consumer_reads_producer_fields(ctx, rule='consumer-reads-what-producer-writes', genp=SUBP,
                                   prod_prefix='datafusion_substrait::logical_plan::producer', cons_prefixes=('datafusion_substrait::logical_plan::consumer', 'datafusion_substrait::extensions'),
                                   unread_ok=SUBSTRAIT_UNREAD_OK, floor=80):
    """Field-level agreement of the Substrait producer and consumer: every field of a substrait message that some producer function
    fills with a computed value is read somewhere in the consumer (a projection of that field, attributed by the owner type, or a
    call of the generated accessor of the same name).  A field the consumer ignores is silently dropped by the round trip."""
    import protocov
    f = ctx.facts

    def under(d, pref):
        s = d[1:] if d.startswith('<') else d
        return s.startswith(pref)
    prod = [x for x in f.fn_index if under(x, prod_prefix)]
    cons = [x for x in f.fn_index if any(under(x, p) for p in cons_prefixes)]
    written = {}
    where = {}
    for t in prod:
        for i in range(len(f.fn_index[t])):
            rec = f.fn(t, i)
            if 'bb' not in rec:
                continue
            dm, mr = protocov._defs(rec)
            for b in rec['bb']:
                for st in b['s']:
                    if st[0] == '=' and st[2][0] == 'agg' and st[2][1][0] == 'adt' and st[2][1][1].startswith(genp):
                        a = f.adts.get(st[2][1][1])
                        if not a or a['kind'] != 'struct':
                            continue
                        flds = a['variants'][0]['fields']
                        ops = st[2][2]
                        for k in range(min(len(flds), len(ops))):
                            if protocov._klass(dm, mr, ops[k]) == 'value':
                                written.setdefault(st[2][1][1], set()).add(flds[k][0])
                                where.setdefault((st[2][1][1], flds[k][0]), rec)
    read = {}
    for t in cons:
        for c in f.callees.get(t, ()):
            # generated accessor: <genp>..::Msg::field
            if c.startswith(genp):
                msg, _, fld = c.rpartition('::')
                read.setdefault(msg, set()).add(fld)
        for i in range(len(f.fn_index[t])):
            rec = f.fn(t, i)
            if 'bb' not in rec:
                continue
            for m in written:
                r = protocov._reads(rec, m)
                if r:
                    read.setdefault(m, set()).update(r)
    n = 0
    for m in sorted(written):
        sm = m[len(genp):]
        n += 1
        miss = [x for x in sorted(written[m]) if x not in read.get(m, set()) and x.lstrip('r#') not in read.get(m, set()) and (sm, x) not in unread_ok]
        if miss:
            rec = where[(m, miss[0])]
            ctx.fail(rule, sm, ctx.loc(rec), 'the producer fills %s of substrait %s with a computed value but nothing in the consumer reads it: the value is dropped by the '
                     'round trip' % (miss, sm), key='%s|%s|%s' % (rule, sm, ','.join(miss)))
        else:
            ctx.ok(rule, sm, sample={'message': sm, 'fields_written': sorted(written[m])} if n <= 5 else None)
    if floor:
        ctx.floor(rule, 'substrait messages built by the producer', n, floor)
    return n

# parts of a logical plan node the producer may leave unread without losing rows, each with the reason read in the source
PRODUCER_EXEMPT = {
    ('Subquery', 'outer_ref_columns'): 'derived: the consumer recomputes it from the decoded subquery plan (all_out_ref_exprs)',
    ('SubqueryAlias', 'alias'): 'Substrait relations carry no relation names; the consumer resolves columns by position and the root names restore the output names',
    ('Unnest', 'outer'): 'Expr::Unnest is refused by the producer (not_impl_err); the only read of the node is the error message',
    ('ScalarVariable', '1'): 'Expr::ScalarVariable is refused by the producer (not_impl_err)',
    ('Explain', 'stringified_plans'): 'EXPLAIN is refused by the producer',
    ('Explain', 'logical_optimization_succeeded'): 'EXPLAIN is refused by the producer',
    ('TableScan', 'statistics_requests'): 'optimizer hint for statistics collection, does not change rows',
    ('TableScan', 'fetch'): 'advisory: a provider may return more rows than the hint (TableScan: t1, fetch=1 over a MemTable returns all 3 rows, '
                            'triage/F19_substrait_null_aware_join_test.rs::scan_fetch_is_advisory) and push_down_limit keeps the Limit node above the scan',
}
PRODUCER_FOLLOW = ('datafusion_substrait::logical_plan::producer', '<datafusion_substrait::logical_plan::producer', '<dyn datafusion_substrait', '<T as datafusion_substrait')


def producer_reads_plan_fields(ctx):
    """the other direction of the field agreement (round 4): every field of a logical plan node / expression struct the producer accepts is read
    somewhere in the producer (its handlers, helpers, the struct's own accessors) — a part of the plan the producer never looks at cannot be in
    the Substrait plan, and since the producer does not refuse the node either, the round-tripped plan silently differs."""
    import protocov
    rule = 'producer-reads-every-field'
    n = protocov.check_encoder_reads(ctx, 'LogicalPlan', SP + 'producer::rel::to_substrait_rel', 'datafusion_expr::logical_plan::plan::LogicalPlan', rule=rule,
                                     exempt=PRODUCER_EXEMPT, follow=PRODUCER_FOLLOW, per_variant=False)
    n += protocov.check_encoder_reads(ctx, 'Expr', SP + 'producer::expr::to_substrait_rex', 'datafusion_expr::expr::Expr', rule=rule,
                                      exempt=PRODUCER_EXEMPT, follow=PRODUCER_FOLLOW, per_variant=False)
    ctx.floor(rule, 'plan / expression structs the producer reads', n, 20)
    import common
    st = ctx.st
    probe = common.Ctx(ctx.pid, ctx.tier, st, st, {})
    probe.known = []
    SPL = 'dfscan_selftest::protos::lp::'
    protocov.check_encoder_reads(probe, 'Plan', SPL + 'encode', SPL + 'Plan', rule='st-src', exempt={}, follow=('dfscan_selftest::protos::lp',), per_variant=False, facts=st)
    ctx.selftest('producer-reads-every-field (per-struct mode, custom follow set) reports Scan.fetch never read by the selftest encoder, accepts Sort',
                 sorted(v['key'] for v in probe.viol) == ['st-src|Scan.fetch'])


def run(ctx):
    join_types(ctx, SP + 'producer::rel::join::to_substrait_jointype', SP + 'consumer::rel::join_rel::from_substrait_jointype')
    sort_directions(ctx, [SP + 'producer::utils::substrait_sort_field', SP + 'producer::expr::aggregate_function::to_substrait_sort_field'],
                    SP + 'consumer::utils::from_substrait_sorts::{closure#0}')
    precision(ctx, SP + 'producer::utils::to_substrait_precision', SP + 'consumer::utils::from_substrait_precision')
    bounds_type(ctx, SP + 'producer::expr::window_function::to_substrait_bound_type', SP + 'consumer::expr::window_function::from_window_function::{closure#0}')
    nullability(ctx, SP + 'producer::types::to_substrait_type_from_field', SP + 'consumer::types::is_nullable')
    n = sum(1 for o in ctx.obls if o[2])
    ctx.floor('roundtrip', 'tag round-trip instances decided', n, 26)
    consumer_reads_producer_fields(ctx)
    producer_reads_plan_fields(ctx)
    # selftest: the seeded decoder in the selftest crate maps RightMark to LeftMark
    import common, tagtab
    st = ctx.st
    probe = common.Ctx(ctx.pid, ctx.tier, st, st, {})
    probe.known = []
    b, _ = tagtab.check_pairs(probe, st, 'st')
    ctx.selftest('round-trip evaluation detects a decoder that maps RightMark to LeftMark', b >= 1)
