"""Encoder/decoder agreement on the protobuf messages of physical operators and expressions (A6-lite).

(enc) In every try_to_proto (closures included) every field of every generated message it builds is filled from a
      value — not from a constant / None / an empty container — unless (message, field) is frozen below with its reason.
(dec) Every field of every message the encoder builds is read somewhere in the call tree (depth 2) of the matching
      try_from_proto, unless frozen.
Both are stated on resolved types and field projections of the MIR; no text is matched."""
import re

GENP = 'datafusion_proto_models::generated::datafusion::'

# (message, field) -> reason.  Each entry was read in the source.
CONST_OK = {
    ('PhysicalExprNode', 'expr_id'): 'assigned afterwards by the serializer context (expression de-duplication), not by the node encoder',
    ('PhysicalBinaryExprNode', 'l'): 'superseded by `operands` (linearised chains of one operator); the decoder accepts either form',
    ('PhysicalBinaryExprNode', 'r'): 'superseded by `operands`',
    ('WindowAggExecNode', 'input_order_mode'): 'absence of the mode IS the encoding of WindowAggExec (vs BoundedWindowAggExec)',
    ('FileScanExecConf', 'projection'): 'superseded by projection_exprs',
    ('SortExprNode', 'expr'): 'SortMergeJoinExec sends only the sort options of its keys; the key expressions travel in `on`',
}
CONST_OK.update({
    ('ProjectionNode', 'optional_alias'): 'legacy field: an aliased projection is encoded as a SubqueryAlias node above it; the decoder still accepts the old form',
})
UNREAD_OK = {
    ('UnnestNode', 'list_type_columns'): 'derived: the decoder rebuilds the node with LogicalPlanBuilder::unnest_columns_with_options(exec_columns, options), which recomputes it',
    ('UnnestNode', 'struct_type_columns'): 'derived (see list_type_columns)',
    ('UnnestNode', 'dependency_indices'): 'derived (see list_type_columns)',
    ('UnnestNode', 'schema'): 'derived (see list_type_columns)',
    ('ColumnUnnestListItem', 'input_index'): 'part of the derived list_type_columns',
    ('ColumnUnnestListItem', 'recursion'): 'part of the derived list_type_columns',
    ('ColumnUnnestListRecursion', 'output_column'): 'part of the derived list_type_columns',
    ('ColumnUnnestListRecursion', 'depth'): 'part of the derived list_type_columns',
    ('PhysicalExprNode', 'expr_id'): 'consumed by the deserializer context (de-duplication cache) before the node decoder runs',
    ('CsvSinkExecNode', 'sink_schema'): 'the sink is rebuilt over the decoded input plan; its schema is derived from it',
    ('JsonSinkExecNode', 'sink_schema'): 'as CsvSinkExecNode',
    ('ParquetSinkExecNode', 'sink_schema'): 'as CsvSinkExecNode',
    ('SortExprNode', 'expr'): 'SortMergeJoinExec sort options only (see CONST_OK)',
    ('FileScanExecConf', 'projection'): 'superseded by projection_exprs',
    ('FileScanExecConf', 'table_partition_cols'): 'read by FileScanConfig::parse_table_schema_from_proto, which the caller runs to rebuild the file source first',
}


def _defs(rec):
    m, mutref = {}, set()
    for b in rec['bb']:
        for st in b['s']:
            if st[0] == '=':
                if not st[1][1]:
                    m.setdefault(st[1][0], []).append(('rv', st[2]))
                rv = st[2]
                if rv[0] == 'ref' and len(rv) > 2 and rv[2]:
                    mutref.add(rv[1][0])
        t = b['t']
        if t[0] == 'call' and not t[3][1]:
            m.setdefault(t[3][0], []).append(('call', t[1].get('res') or t[1].get('def') or '', t[2]))
    return m, mutref


def _klass(dm, mutref, op, depth=0):
    if op[0] == 'k':
        return 'const'
    loc, projs = op[1]
    if projs:
        return 'value'
    ds = dm.get(loc, [])
    if len(ds) != 1:
        return 'value'
    d0 = ds[0]
    if d0[0] == 'call':
        n = d0[1]
        if (n.endswith(('Vec::<T>::new', 'String::new')) or 'default::Default>::default' in n) and loc not in mutref:
            return 'empty'
        return 'value'
    rv = d0[1]
    if rv[0] == 'agg':
        if rv[1][0] == 'adt' and rv[1][3] == 'None':
            return 'None'
        return 'value'
    if rv[0] == 'use' and depth < 4:
        return _klass(dm, mutref, rv[1], depth + 1)
    if rv[0] == 'cast' and depth < 4:
        return _klass(dm, mutref, rv[2], depth + 1)
    return 'value'


def _reads(rec, adt):
    out = set()
    lt = [l[0] for l in rec['locals']]

    def sp(pl):
        loc, projs = pl
        for p in projs:
            # the exporter names the ADT that owns each projected field: reads through enum payloads, boxes and
            # references are attributed to the right message type
            if isinstance(p, list) and p[0] == 'f' and len(p) > 3 and p[3] == adt:
                out.add(p[2] or str(p[1]))

    def so(op):
        if isinstance(op, list) and op and op[0] in ('c', 'm'):
            sp(op[1])
    for b in rec['bb']:
        for st in b['s']:
            if st[0] != '=':
                continue
            rv = st[2]
            k = rv[0]
            if k in ('use', 'repeat'):
                so(rv[1])
            elif k in ('ref', 'rawptr', 'discr', 'len'):
                sp(rv[1])
            elif k == 'cast':
                so(rv[2])
            elif k == 'bin':
                so(rv[2]); so(rv[3])
            elif k == 'un':
                so(rv[2])
            elif k == 'agg':
                for o in rv[2]:
                    so(o)
        t = b['t']
        if t[0] == 'call':
            for a in t[2]:
                so(a)
        elif t[0] == 'switch':
            so(t[1])
    return out


def pairs(facts, enc_suffix='::try_to_proto', dec_suffix='::try_from_proto'):
    out = []
    for e in sorted(x for x in facts.fn_index if x.endswith(enc_suffix) and '{closure' not in x):
        m = re.match(r'<(.+) as (.+)>' + re.escape(enc_suffix) + '$', e)
        owner = m.group(1) if m else e.rsplit('::', 1)[0]
        dec = owner + dec_suffix
        out.append((owner, e, dec if dec in facts.fn_index else None))
    return out


def check(ctx, rule_enc='encoder-fills-every-field', rule_dec='decoder-reads-every-field', genp=GENP, const_ok=CONST_OK, unread_ok=UNREAD_OK,
          enc_suffix='::try_to_proto', dec_suffix='::try_from_proto', floors=(55, 45)):
    f = ctx.facts
    n_enc = n_dec = 0
    for owner, enc, dec in pairs(f, enc_suffix, dec_suffix):
        short = owner.rsplit('::', 1)[-1]
        etree = [enc] + sorted(x for x in f.fn_index if x.startswith(enc + '::{closure'))
        built = {}
        consts = []
        for t in etree:
            for i in range(len(f.fn_index[t])):
                rec = f.fn(t, i)
                if 'bb' not in rec:
                    continue
                dm, mutref = _defs(rec)
                for b in rec['bb']:
                    for st in b['s']:
                        if st[0] == '=' and st[2][0] == 'agg' and st[2][1][0] == 'adt' and st[2][1][1].startswith(genp):
                            a = f.adts.get(st[2][1][1])
                            if not a or a['kind'] != 'struct':
                                continue
                            msg = st[2][1][1]
                            built[msg] = rec
                            flds = a['variants'][0]['fields']
                            ops = st[2][2]
                            for k in range(min(len(flds), len(ops))):
                                c = _klass(dm, mutref, ops[k])
                                if c != 'value':
                                    consts.append((msg.rsplit('::', 1)[-1], flds[k][0], c, rec, st[3] if len(st) > 3 else None))
        if not built:
            continue
        n_enc += 1
        ctx.analysed_fns.add(enc)
        bad = [(m_, fl, c) for (m_, fl, c, r_, l_) in consts if (m_, fl) not in const_ok]
        if bad:
            ctx.fail(rule_enc, short, ctx.loc(f.fn(enc)), 'the encoder fills %s with a constant (%s): the value of the operator is dropped on the wire' % (
                ', '.join('%s.%s' % (m_, fl) for m_, fl, c in bad), ', '.join(sorted({c for _, _, c in bad}))),
                key='%s|%s|%s' % (rule_enc, owner, ','.join(sorted('%s.%s' % (m_, fl) for m_, fl, c in bad))))
        else:
            ctx.ok(rule_enc, short, sample={'operator': owner, 'messages_built': sorted(x.rsplit('::', 1)[-1] for x in built)} if n_enc <= 6 else None)
        if dec is None:
            continue
        n_dec += 1
        ctx.analysed_fns.add(dec)
        tree = f.call_tree(dec, depth=2)
        miss = []
        for msg in sorted(built):
            flds = [fl[0] for fl in f.adts[msg]['variants'][0]['fields']]
            rd = set()
            for t in tree:
                if t in f.fn_index:
                    for i in range(len(f.fn_index[t])):
                        r = f.fn(t, i)
                        if 'bb' in r:
                            rd |= _reads(r, msg)
            for x in flds:
                if x not in rd and (msg.rsplit('::', 1)[-1], x) not in unread_ok:
                    miss.append('%s.%s' % (msg.rsplit('::', 1)[-1], x))
        if miss:
            ctx.fail(rule_dec, short, ctx.loc(f.fn(dec)), 'the decoder never reads %s: what the encoder wrote there is ignored and the rebuilt operator gets a default' % ', '.join(miss),
                     key='%s|%s|%s' % (rule_dec, owner, ','.join(sorted(miss))))
        else:
            ctx.ok(rule_dec, short, sample={'operator': owner, 'decoder': dec} if n_dec <= 6 else None)
    if floors:
        ctx.floor(rule_enc, 'encoders building a generated message', n_enc, floors[0])
        ctx.floor(rule_dec, 'encoder/decoder pairs', n_dec, floors[1])
    return n_enc, n_dec


def _built_and_consts(f, etree, genp):
    built, consts = {}, []
    for t in etree:
        if t not in f.fn_index:
            continue
        for i in range(len(f.fn_index[t])):
            rec = f.fn(t, i)
            if 'bb' not in rec:
                continue
            dm, mutref = _defs(rec)
            for b in rec['bb']:
                for st in b['s']:
                    if st[0] == '=' and st[2][0] == 'agg' and st[2][1][0] == 'adt' and st[2][1][1].startswith(genp):
                        a = f.adts.get(st[2][1][1])
                        if not a or a['kind'] != 'struct':
                            continue
                        msg = st[2][1][1]
                        built[msg] = rec
                        flds = a['variants'][0]['fields']
                        ops = st[2][2]
                        for k in range(min(len(flds), len(ops))):
                            c = _klass(dm, mutref, ops[k])
                            if c != 'value':
                                consts.append((msg.rsplit('::', 1)[-1], flds[k][0], c))
    return built, consts


def check_roots(ctx, label, enc, dec, rule_enc='encoder-fills-every-field', rule_dec='decoder-reads-every-field', genp=GENP,
                const_ok=CONST_OK, unread_ok=UNREAD_OK, depth=3, min_messages=1):
    """one big encoder function (+closures) against one big decoder function (call tree to `depth`): per message"""
    f = ctx.facts
    if enc not in f.fn_index:
        ctx.lost(rule_enc, enc)
        return 0
    if dec not in f.fn_index:
        ctx.lost(rule_dec, dec)
        return 0
    etree = [enc] + sorted(x for x in f.fn_index if x.startswith(enc + '::{closure'))
    built, consts = _built_and_consts(f, etree, genp)
    ctx.analysed_fns.add(enc)
    ctx.analysed_fns.add(dec)
    tree = f.call_tree(dec, depth=depth)
    n = 0
    for msg in sorted(built):
        sm = msg.rsplit('::', 1)[-1]
        n += 1
        bad = sorted({(fl, c) for (m_, fl, c) in consts if m_ == sm and (m_, fl) not in const_ok})
        inst = '%s: %s' % (label, sm)
        if bad:
            ctx.fail(rule_enc, inst, ctx.loc(built[msg]), 'the encoder fills %s with a constant: the value is dropped on the wire' % ', '.join('%s.%s (%s)' % (sm, fl, c) for fl, c in bad),
                     key='%s|%s|%s' % (rule_enc, sm, ','.join(fl for fl, c in bad)))
        else:
            ctx.ok(rule_enc, inst, sample={'message': msg} if n <= 3 else None)
        flds = [fl[0] for fl in f.adts[msg]['variants'][0]['fields']]
        rd = set()
        for t in tree:
            if t in f.fn_index:
                for i in range(len(f.fn_index[t])):
                    r = f.fn(t, i)
                    if 'bb' in r:
                        rd |= _reads(r, msg)
        miss = [x for x in flds if x not in rd and (sm, x) not in unread_ok]
        for x in miss:
            # one obligation per field, so that a known finding on one field does not hide another
            ctx.fail(rule_dec, '%s.%s' % (sm, x), ctx.loc(f.fn(dec)), 'the encoder writes %s.%s but nothing in the call tree of %s reads it: the value is lost on decode and the '
                     'round-tripped plan differs from the original' % (sm, x, dec.rsplit('::', 1)[-1]), key='%s|%s.%s' % (rule_dec, sm, x))
        if not miss:
            ctx.ok(rule_dec, inst)
    if n < min_messages:
        ctx.fail(rule_enc, label, enc, 'only %d generated messages are built by the encoder (floor %d): rule went blind' % (n, min_messages), key='%s|floor|%s' % (rule_enc, label))
    return n


UNWRAPS = ('core::option::Option::<T>::unwrap_or_default', 'core::option::Option::<T>::unwrap_or', 'core::option::Option::<T>::unwrap_or_else')


def _field_of_operand(rec, op, genp, depth=0):
    if not (isinstance(op, list) and op and op[0] in ('c', 'm')):
        return None
    loc, projs = op[1]
    for p in projs:
        if isinstance(p, list) and p[0] == 'f' and len(p) > 3 and p[3].startswith(genp):
            return (p[3], p[2], p[1])
    if projs or depth > 4:
        return None
    ds = [st[2] for b in rec['bb'] for st in b['s'] if st[0] == '=' and st[1][0] == loc and not st[1][1]]
    if len(ds) != 1:
        return None
    rv = ds[0]
    if rv[0] == 'use':
        return _field_of_operand(rec, rv[1], genp, depth + 1)
    if rv[0] == 'ref':
        for p in rv[1][1]:
            if isinstance(p, list) and p[0] == 'f' and len(p) > 3 and p[3].startswith(genp):
                return (p[3], p[2], p[1])
        return _field_of_operand(rec, ['c', [rv[1][0], []]], genp, depth + 1) if not rv[1][1] else None
    if rv[0] == 'cast':
        return _field_of_operand(rec, rv[2], genp, depth + 1)
    return None


def _operand_is_some(rec, op, depth=0):
    """is the operand always a freshly built Option::Some(..)?"""
    if not (isinstance(op, list) and op and op[0] in ('c', 'm')):
        return False
    loc, projs = op[1]
    if projs:
        return False
    ds = [('rv', st[2]) for b in rec['bb'] for st in b['s'] if st[0] == '=' and st[1][0] == loc and not st[1][1]]
    ds += [('call', b['t']) for b in rec['bb'] if b['t'][0] == 'call' and not b['t'][3][1] and b['t'][3][0] == loc]
    if not ds:
        return False
    for kind, d in ds:
        if kind == 'call':
            return False
        if d[0] == 'agg' and d[1][0] == 'adt' and d[1][1] == 'core::option::Option' and d[1][3] == 'Some':
            continue
        if d[0] == 'use' and depth < 4 and _operand_is_some(rec, d[1], depth + 1):
            continue
        return False
    return True


def check_default_collapse(ctx, rule='optional-field-not-collapsed', genp=GENP, in_scope=None, floor=None):
    """A decoder that reads an optional wire field with unwrap_or*/unwrap_or_default maps `absent` and `present with the default`
    to the same value.  That is sound only if every encoder always writes Some(..) there (absence then only comes from older
    writers); if an encoder passes a domain Option through, two different operators become indistinguishable after decoding."""
    f = ctx.facts
    hits = {}
    for dname, ents in f.fn_index.items():
        if in_scope is not None and not in_scope(dname):
            continue
        if not any(c in UNWRAPS for c in f.callees.get(dname, [])):
            continue
        for i in range(len(ents)):
            rec = f.fn(dname, i)
            if 'bb' not in rec:
                continue
            for b in rec['bb']:
                t = b['t']
                if t[0] == 'call' and not b.get('cu') and (t[1].get('res') or t[1].get('def')) in UNWRAPS:
                    fo = _field_of_operand(rec, t[2][0], genp)
                    if fo:
                        hits.setdefault((fo[0], fo[1], fo[2]), []).append((dname, rec))
    n = 0
    for (msg, fld, fidx), where in sorted(hits.items()):
        n += 1
        sm = msg.rsplit('::', 1)[-1]
        passthrough = []
        builders = 0
        for d in f.constructors.get(msg, []):
            if ' as core::clone::Clone>' in d or ' as core::default::Default>' in d or d.startswith(('<' + genp, genp)) or ' as prost::' in d:
                continue      # derived / generated impls of the message type itself are not encoders
            for i in range(len(f.fn_index.get(d, []))):
                rec = f.fn(d, i)
                if 'bb' not in rec:
                    continue
                for b in rec['bb']:
                    for st in b['s']:
                        if st[0] == '=' and st[2][0] == 'agg' and st[2][1][0] == 'adt' and st[2][1][1] == msg and fidx < len(st[2][2]):
                            builders += 1
                            if not _operand_is_some(rec, st[2][2][fidx]):
                                passthrough.append(d)
        inst = '%s.%s' % (sm, fld)
        dec = where[0][0]
        if passthrough:
            ctx.fail(rule, inst, ctx.loc(where[0][1]), '%s reads the optional field %s with unwrap_or*, so `absent` and `present with the default value` decode to the '
                     'same thing, but %s writes a domain Option through unchanged: an operator with None and one with Some(default) become '
                     'indistinguishable after a round trip' % (dec.rsplit('::', 2)[-2] + '::' + dec.rsplit('::', 1)[-1], inst, passthrough[0].rsplit('::', 2)[-2]),
                     key='%s|%s' % (rule, inst))
        else:
            ctx.ok(rule, inst, sample={'field': inst, 'decoder': dec, 'encoders_always_write_some': builders})
    if floor is not None:
        ctx.floor(rule, 'optional wire fields read with a default', n, floor)
    return n
