"""Encoder/decoder agreement on the protobuf messages of physical operators and expressions (A6-lite).

(enc) In every try_to_proto (closures included) every field of every generated message it builds is filled from a
      value — not from a constant / None / an empty container — unless (message, field) is frozen below with its reason.
(dec) Every field of every message the encoder builds is read somewhere in the call tree (depth 2) of the matching
      try_from_proto, unless frozen.
Both are stated on resolved types and field projections of the MIR; no text is matched."""
import re

GENP = 'datafusion_proto_models::generated::datafusion::'

# (message, field) -> reason.  Each entry was read in the source.
CONST_OK = {
    ('PhysicalExprNode', 'expr_id'): 'assigned afterwards by the serializer context (expression de-duplication), not by the node encoder',
    ('PhysicalBinaryExprNode', 'l'): 'superseded by `operands` (linearised chains of one operator); the decoder accepts either form',
    ('PhysicalBinaryExprNode', 'r'): 'superseded by `operands`',
    ('WindowAggExecNode', 'input_order_mode'): 'absence of the mode IS the encoding of WindowAggExec (vs BoundedWindowAggExec)',
    ('FileScanExecConf', 'projection'): 'superseded by projection_exprs',
    ('SortExprNode', 'expr'): 'SortMergeJoinExec sends only the sort options of its keys; the key expressions travel in `on`',
}
CONST_OK.update({
    ('ProjectionNode', 'optional_alias'): 'legacy field: an aliased projection is encoded as a SubqueryAlias node above it; the decoder still accepts the old form',
})
UNREAD_OK = {
    ('UnnestNode', 'list_type_columns'): 'derived: the decoder rebuilds the node with LogicalPlanBuilder::unnest_columns_with_options(exec_columns, options), which recomputes it',
    ('UnnestNode', 'struct_type_columns'): 'derived (see list_type_columns)',
    ('UnnestNode', 'dependency_indices'): 'derived (see list_type_columns)',
    ('UnnestNode', 'schema'): 'derived (see list_type_columns)',
    ('ColumnUnnestListItem', 'input_index'): 'part of the derived list_type_columns',
    ('ColumnUnnestListItem', 'recursion'): 'part of the derived list_type_columns',
    ('ColumnUnnestListRecursion', 'output_column'): 'part of the derived list_type_columns',
    ('ColumnUnnestListRecursion', 'depth'): 'part of the derived list_type_columns',
    ('PhysicalExprNode', 'expr_id'): 'consumed by the deserializer context (de-duplication cache) before the node decoder runs',
    ('CsvSinkExecNode', 'sink_schema'): 'the sink is rebuilt over the decoded input plan; its schema is derived from it',
    ('JsonSinkExecNode', 'sink_schema'): 'as CsvSinkExecNode',
    ('ParquetSinkExecNode', 'sink_schema'): 'as CsvSinkExecNode',
    ('SortExprNode', 'expr'): 'SortMergeJoinExec sort options only (see CONST_OK)',
    ('FileScanExecConf', 'projection'): 'superseded by projection_exprs',
    ('FileScanExecConf', 'table_partition_cols'): 'read by FileScanConfig::parse_table_schema_from_proto, which the caller runs to rebuild the file source first',
}


def _defs(rec):
    m, mutref = {}, set()
    for b in rec['bb']:
        for st in b['s']:
            if st[0] == '=':
                if not st[1][1]:
                    m.setdefault(st[1][0], []).append(('rv', st[2]))
                rv = st[2]
                if rv[0] == 'ref' and len(rv) > 2 and rv[2]:
                    mutref.add(rv[1][0])
        t = b['t']
        if t[0] == 'call' and not t[3][1]:
            m.setdefault(t[3][0], []).append(('call', t[1].get('res') or t[1].get('def') or '', t[2]))
    return m, mutref


def _klass(dm, mutref, op, depth=0):
    if op[0] == 'k':
        return 'const'
    loc, projs = op[1]
    if projs:
        return 'value'
    ds = dm.get(loc, [])
    if len(ds) != 1:
        return 'value'
    d0 = ds[0]
    if d0[0] == 'call':
        n = d0[1]
        if (n.endswith(('Vec::<T>::new', 'String::new')) or 'default::Default>::default' in n) and loc not in mutref:
            return 'empty'
        return 'value'
    rv = d0[1]
    if rv[0] == 'agg':
        if rv[1][0] == 'adt' and rv[1][3] == 'None':
            return 'None'
        return 'value'
    if rv[0] == 'use' and depth < 4:
        return _klass(dm, mutref, rv[1], depth + 1)
    if rv[0] == 'cast' and depth < 4:
        return _klass(dm, mutref, rv[2], depth + 1)
    return 'value'


def _reads(rec, adt):
    out = set()
    lt = [l[0] for l in rec['locals']]

    def sp(pl):
        loc, projs = pl
        for p in projs:
            # the exporter names the ADT that owns each projected field: reads through enum payloads, boxes and
            # references are attributed to the right message type
            if isinstance(p, list) and p[0] == 'f' and len(p) > 3 and p[3] == adt:
                out.add(p[2] or str(p[1]))

    def so(op):
        if isinstance(op, list) and op and op[0] in ('c', 'm'):
            sp(op[1])
    for b in rec['bb']:
        for st in b['s']:
            if st[0] != '=':
                continue
            rv = st[2]
            k = rv[0]
            if k in ('use', 'repeat'):
                so(rv[1])
            elif k in ('ref', 'rawptr', 'discr', 'len'):
                sp(rv[1])
            elif k == 'cast':
                so(rv[2])
            elif k == 'bin':
                so(rv[2]); so(rv[3])
            elif k == 'un':
                so(rv[2])
            elif k == 'agg':
                for o in rv[2]:
                    so(o)
        t = b['t']
        if t[0] == 'call':
            for a in t[2]:
                so(a)
        elif t[0] == 'switch':
            so(t[1])
    return out


def pairs(facts, enc_suffix='::try_to_proto', dec_suffix='::try_from_proto'):
    out = []
    for e in sorted(x for x in facts.fn_index if x.endswith(enc_suffix) and '{closure' not in x):
        m = re.match(r'<(.+) as (.+)>' + re.escape(enc_suffix) + '$', e)
        owner = m.group(1) if m else e.rsplit('::', 1)[0]
        dec = owner + dec_suffix
        out.append((owner, e, dec if dec in facts.fn_index else None))
    return out


def check(ctx, rule_enc='encoder-fills-every-field', rule_dec='decoder-reads-every-field', genp=GENP, const_ok=CONST_OK, unread_ok=UNREAD_OK,
          enc_suffix='::try_to_proto', dec_suffix='::try_from_proto', floors=(55, 45)):
    f = ctx.facts
    n_enc = n_dec = 0
    for owner, enc, dec in pairs(f, enc_suffix, dec_suffix):
        short = owner.rsplit('::', 1)[-1]
        etree = [enc] + sorted(x for x in f.fn_index if x.startswith(enc + '::{closure'))
        built = {}
        consts = []
        for t in etree:
            for i in range(len(f.fn_index[t])):
                rec = f.fn(t, i)
                if 'bb' not in rec:
                    continue
                dm, mutref = _defs(rec)
                for b in rec['bb']:
                    for st in b['s']:
                        if st[0] == '=' and st[2][0] == 'agg' and st[2][1][0] == 'adt' and st[2][1][1].startswith(genp):
                            a = f.adts.get(st[2][1][1])
                            if not a or a['kind'] != 'struct':
                                continue
                            msg = st[2][1][1]
                            built[msg] = rec
                            flds = a['variants'][0]['fields']
                            ops = st[2][2]
                            for k in range(min(len(flds), len(ops))):
                                c = _klass(dm, mutref, ops[k])
                                if c != 'value':
                                    consts.append((msg.rsplit('::', 1)[-1], flds[k][0], c, rec, st[3] if len(st) > 3 else None))
        if not built:
            continue
        n_enc += 1
        ctx.analysed_fns.add(enc)
        bad = [(m_, fl, c) for (m_, fl, c, r_, l_) in consts if (m_, fl) not in const_ok]
        if bad:
            ctx.fail(rule_enc, short, ctx.loc(f.fn(enc)), 'the encoder fills %s with a constant (%s): the value of the operator is dropped on the wire' % (
                ', '.join('%s.%s' % (m_, fl) for m_, fl, c in bad), ', '.join(sorted({c for _, _, c in bad}))),
                key='%s|%s|%s' % (rule_enc, owner, ','.join(sorted('%s.%s' % (m_, fl) for m_, fl, c in bad))))
        else:
            ctx.ok(rule_enc, short, sample={'operator': owner, 'messages_built': sorted(x.rsplit('::', 1)[-1] for x in built)} if n_enc <= 6 else None)
        if dec is None:
            continue
        n_dec += 1
        ctx.analysed_fns.add(dec)
        tree = f.call_tree(dec, depth=2)
        miss = []
        for msg in sorted(built):
            flds = [fl[0] for fl in f.adts[msg]['variants'][0]['fields']]
            rd = set()
            for t in tree:
                if t in f.fn_index:
                    for i in range(len(f.fn_index[t])):
                        r = f.fn(t, i)
                        if 'bb' in r:
                            rd |= _reads(r, msg)
            for x in flds:
                if x not in rd and (msg.rsplit('::', 1)[-1], x) not in unread_ok:
                    miss.append('%s.%s' % (msg.rsplit('::', 1)[-1], x))
        if miss:
            ctx.fail(rule_dec, short, ctx.loc(f.fn(dec)), 'the decoder never reads %s: what the encoder wrote there is ignored and the rebuilt operator gets a default' % ', '.join(miss),
                     key='%s|%s|%s' % (rule_dec, owner, ','.join(sorted(miss))))
        else:
            ctx.ok(rule_dec, short, sample={'operator': owner, 'decoder': dec} if n_dec <= 6 else None)
    if floors:
        ctx.floor(rule_enc, 'encoders building a generated message', n_enc, floors[0])
        ctx.floor(rule_dec, 'encoder/decoder pairs', n_dec, floors[1])
    return n_enc, n_dec


def _built_and_consts(f, etree, genp):
    built, consts = {}, []
    for t in etree:
        if t not in f.fn_index:
            continue
        for i in range(len(f.fn_index[t])):
            rec = f.fn(t, i)
            if 'bb' not in rec:
                continue
            dm, mutref = _defs(rec)
            for b in rec['bb']:
                for st in b['s']:
                    if st[0] == '=' and st[2][0] == 'agg' and st[2][1][0] == 'adt' and st[2][1][1].startswith(genp):
                        a = f.adts.get(st[2][1][1])
                        if not a or a['kind'] != 'struct':
                            continue
                        msg = st[2][1][1]
                        built[msg] = rec
                        flds = a['variants'][0]['fields']
                        ops = st[2][2]
                        for k in range(min(len(flds), len(ops))):
                            c = _klass(dm, mutref, ops[k])
                            if c != 'value':
                                consts.append((msg.rsplit('::', 1)[-1], flds[k][0], c))
    return built, consts


def check_roots(ctx, label, enc, dec, rule_enc='encoder-fills-every-field', rule_dec='decoder-reads-every-field', genp=GENP,
                const_ok=CONST_OK, unread_ok=UNREAD_OK, depth=3, min_messages=1):
    """one big encoder function (+closures) against one big decoder function (call tree to `depth`): per message"""
    f = ctx.facts
    if enc not in f.fn_index:
        ctx.lost(rule_enc, enc)
        return 0
    if dec not in f.fn_index:
        ctx.lost(rule_dec, dec)
        return 0
    etree = [enc] + sorted(x for x in f.fn_index if x.startswith(enc + '::{closure'))
    built, consts = _built_and_consts(f, etree, genp)
    ctx.analysed_fns.add(enc)
    ctx.analysed_fns.add(dec)
    tree = f.call_tree(dec, depth=depth)
    n = 0
    for msg in sorted(built):
        sm = msg.rsplit('::', 1)[-1]
        n += 1
        bad = sorted({(fl, c) for (m_, fl, c) in consts if m_ == sm and (m_, fl) not in const_ok})
        inst = '%s: %s' % (label, sm)
        if bad:
            ctx.fail(rule_enc, inst, ctx.loc(built[msg]), 'the encoder fills %s with a constant: the value is dropped on the wire' % ', '.join('%s.%s (%s)' % (sm, fl, c) for fl, c in bad),
                     key='%s|%s|%s' % (rule_enc, sm, ','.join(fl for fl, c in bad)))
        else:
            ctx.ok(rule_enc, inst, sample={'message': msg} if n <= 3 else None)
        flds = [fl[0] for fl in f.adts[msg]['variants'][0]['fields']]
        rd = set()
        for t in tree:
            if t in f.fn_index:
                for i in range(len(f.fn_index[t])):
                    r = f.fn(t, i)
                    if 'bb' in r:
                        rd |= _reads(r, msg)
        miss = [x for x in flds if x not in rd and (sm, x) not in unread_ok]
        for x in miss:
            # one obligation per field, so that a known finding on one field does not hide another
            ctx.fail(rule_dec, '%s.%s' % (sm, x), ctx.loc(f.fn(dec)), 'the encoder writes %s.%s but nothing in the call tree of %s reads it: the value is lost on decode and the '
                     'round-tripped plan differs from the original' % (sm, x, dec.rsplit('::', 1)[-1]), key='%s|%s.%s' % (rule_dec, sm, x))
        if not miss:
            ctx.ok(rule_dec, inst)
    if n < min_messages:
        ctx.fail(rule_enc, label, enc, 'only %d generated messages are built by the encoder (floor %d): rule went blind' % (n, min_messages), key='%s|floor|%s' % (rule_enc, label))
    return n


UNWRAPS = ('core::option::Option::<T>::unwrap_or_default', 'core::option::Option::<T>::unwrap_or', 'core::option::Option::<T>::unwrap_or_else')


def _field_of_operand(rec, op, genp, depth=0):
    if not (isinstance(op, list) and op and op[0] in ('c', 'm')):
        return None
    loc, projs = op[1]
    for p in projs:
        if isinstance(p, list) and p[0] == 'f' and len(p) > 3 and p[3].startswith(genp):
            return (p[3], p[2], p[1])
    if projs or depth > 4:
        return None
    ds = [st[2] for b in rec['bb'] for st in b['s'] if st[0] == '=' and st[1][0] == loc and not st[1][1]]
    if len(ds) != 1:
        return None
    rv = ds[0]
    if rv[0] == 'use':
        return _field_of_operand(rec, rv[1], genp, depth + 1)
    if rv[0] == 'ref':
        for p in rv[1][1]:
            if isinstance(p, list) and p[0] == 'f' and len(p) > 3 and p[3].startswith(genp):
                return (p[3], p[2], p[1])
        return _field_of_operand(rec, ['c', [rv[1][0], []]], genp, depth + 1) if not rv[1][1] else None
    if rv[0] == 'cast':
        return _field_of_operand(rec, rv[2], genp, depth + 1)
    return None


def _param_of_operand(rec, op, depth=0):
    """index (1-based) of the parameter the operand is a plain copy / reference of, else None"""
    if not (isinstance(op, list) and op and op[0] in ('c', 'm')) or depth > 4:
        return None
    loc, projs = op[1]
    if any(isinstance(p, list) for p in projs):
        return None
    if 1 <= loc <= rec['argc']:
        return loc
    ds = [st[2] for b in rec['bb'] for st in b['s'] if st[0] == '=' and st[1][0] == loc and not st[1][1]]
    if len(ds) != 1:
        return None
    rv = ds[0]
    if rv[0] == 'use':
        return _param_of_operand(rec, rv[1], depth + 1)
    if rv[0] == 'ref' and not any(isinstance(p, list) for p in rv[1][1]):
        return _param_of_operand(rec, ['c', [rv[1][0], []]], depth + 1)
    if rv[0] == 'cast':
        return _param_of_operand(rec, rv[2], depth + 1)
    return None


def _operand_is_some(rec, op, depth=0):
    """is the operand always a freshly built Option::Some(..)?"""
    if not (isinstance(op, list) and op and op[0] in ('c', 'm')):
        return False
    loc, projs = op[1]
    if projs:
        return False
    ds = [('rv', st[2]) for b in rec['bb'] for st in b['s'] if st[0] == '=' and st[1][0] == loc and not st[1][1]]
    ds += [('call', b['t']) for b in rec['bb'] if b['t'][0] == 'call' and not b['t'][3][1] and b['t'][3][0] == loc]
    if not ds:
        return False
    for kind, d in ds:
        if kind == 'call':
            return False
        if d[0] == 'agg' and d[1][0] == 'adt' and d[1][1] == 'core::option::Option' and d[1][3] == 'Some':
            continue
        if d[0] == 'use' and depth < 4 and _operand_is_some(rec, d[1], depth + 1):
            continue
        return False
    return True


def check_default_collapse(ctx, rule='optional-field-not-collapsed', genp=GENP, in_scope=None, floor=None):
    """A decoder that reads an optional wire field with unwrap_or*/unwrap_or_default maps `absent` and `present with the default`
    to the same value.  That is sound only if every encoder always writes Some(..) there (absence then only comes from older
    writers); if an encoder passes a domain Option through, two different operators become indistinguishable after decoding."""
    f = ctx.facts
    hits = {}
    for dname, ents in f.fn_index.items():
        if in_scope is not None and not in_scope(dname):
            continue
        if not any(c in UNWRAPS for c in f.callees.get(dname, [])):
            continue
        for i in range(len(ents)):
            rec = f.fn(dname, i)
            if 'bb' not in rec:
                continue
            for b in rec['bb']:
                t = b['t']
                if t[0] == 'call' and not b.get('cu') and (t[1].get('res') or t[1].get('def')) in UNWRAPS:
                    fo = _field_of_operand(rec, t[2][0], genp)
                    if fo:
                        hits.setdefault((fo[0], fo[1], fo[2]), []).append((dname, rec))
                        continue
                    # the optional value was handed to a helper as a parameter: the wire field is the argument at the helper's call sites
                    pi = _param_of_operand(rec, t[2][0])
                    if pi and '{closure' not in dname:
                        for c in f.callers_of(dname):
                            for j in range(len(f.fn_index.get(c, []))):
                                crec = f.fn(c, j)
                                if not crec or 'bb' not in crec:
                                    continue
                                for cb in crec['bb']:
                                    ct = cb['t']
                                    if ct[0] == 'call' and isinstance(ct[1], dict) and (ct[1].get('res') or ct[1].get('def')) == dname and len(ct[2]) >= pi:
                                        fo = _field_of_operand(crec, ct[2][pi - 1], genp)
                                        if fo:
                                            hits.setdefault((fo[0], fo[1], fo[2]), []).append((dname, rec))
    n = 0
    for (msg, fld, fidx), where in sorted(hits.items()):
        n += 1
        sm = msg.rsplit('::', 1)[-1]
        passthrough = []
        builders = 0
        for d in f.constructors.get(msg, []):
            if ' as core::clone::Clone>' in d or ' as core::default::Default>' in d or d.startswith(('<' + genp, genp)) or ' as prost::' in d:
                continue      # derived / generated impls of the message type itself are not encoders
            for i in range(len(f.fn_index.get(d, []))):
                rec = f.fn(d, i)
                if 'bb' not in rec:
                    continue
                for b in rec['bb']:
                    for st in b['s']:
                        if st[0] == '=' and st[2][0] == 'agg' and st[2][1][0] == 'adt' and st[2][1][1] == msg and fidx < len(st[2][2]):
                            builders += 1
                            if not _operand_is_some(rec, st[2][2][fidx]):
                                passthrough.append(d)
        inst = '%s.%s' % (sm, fld)
        dec = where[0][0]
        if passthrough:
            ctx.fail(rule, inst, ctx.loc(where[0][1]), '%s reads the optional field %s with unwrap_or*, so `absent` and `present with the default value` decode to the '
                     'same thing, but %s writes a domain Option through unchanged: an operator with None and one with Some(default) become '
                     'indistinguishable after a round trip' % (dec.rsplit('::', 2)[-2] + '::' + dec.rsplit('::', 1)[-1], inst, passthrough[0].rsplit('::', 2)[-2]),
                     key='%s|%s' % (rule, inst))
        else:
            ctx.ok(rule, inst, sample={'field': inst, 'decoder': dec, 'encoders_always_write_some': builders})
    if floor is not None:
        ctx.floor(rule, 'optional wire fields read with a default', n, floor)
    return n


# ---------------------------------------------------------------------------------------------------------------------------------------
# encoder-side coverage of the SOURCE structs (round 3): the rules above look at the wire messages (every message field is written and
# read); this one looks the other way: every field of the plan node / expression the encoder is given must be read by the encoder
# (directly, through a method of that struct, or through a From conversion), otherwise the information cannot be on the wire at all.

# fields whose loss is not a loss: derived or diagnostic.  (struct short name, field) -> reason; types handled generically below.
SRC_EXEMPT = {
    ('Explain', 'stringified_plans'): 'filled while EXPLAIN is planned/executed; an encoded Explain node is re-planned after decoding',
    ('Explain', 'logical_optimization_succeeded'): 'set by the optimizer of the decoding session',
    ('TableScan', 'statistics_requests'): 'optimizer hint for statistics collection, does not change rows or the textual form',
}
SRC_EXEMPT_TYPES = (('DFSchema', 'schemas are recomputed by the plan builders on decode (derived from inputs / expressions / the source)'),
                    ('Spans', 'source-location spans for diagnostics'))


def _strip_ptr(t):
    for w in ('alloc::boxed::Box<', 'alloc::sync::Arc<'):
        if t.startswith(w):
            return t[len(w):-1]
    return t


def encoder_reads(facts, root, enum_adt, follow=('datafusion_proto::', 'datafusion_proto_common::', '<datafusion_proto', '<datafusion_proto_common'), follow_derived=False):
    """-> (struct-level reads {struct: {field}}, per-variant reads {variant: {(owner, field-or-index)}}, functions visited)"""
    import collections
    names = set(v['name'] for v in facts.adts[enum_adt]['variants'])
    payloads = set()
    for v in facts.adts[enum_adt]['variants']:
        for fl in v['fields']:
            payloads.add(_strip_ptr(fl[1]))
    todo, seen, depth = [root], set(), {root: 0}
    anyread, vread = collections.defaultdict(set), collections.defaultdict(set)
    while todo:
        d = todo.pop()
        if d in seen:
            continue
        seen.add(d)
        rec = facts.fn(d)
        if rec is None:
            continue
        for k in [x for x in facts.fn_index if x.startswith(d + '::{closure')]:
            if k not in seen:
                todo.append(k)
                depth[k] = depth[d]
        if depth[d] < 3:
            for c in facts.callees.get(d, ()):
                # methods of the payload structs the encoder calls (accessors).  Derived / std trait impls (`<S as Clone>::clone`, PartialEq, Hash,
                # Debug ..) touch every field by construction and say nothing about what is encoded: not followed (a clone's fields are
                # still attributed to S wherever the copy is read afterwards)
                own_method = any(c.startswith(p + '::') or (c.startswith('<' + p + ' as ') and (follow_derived or not c.startswith(('<' + p + ' as core::', '<' + p + ' as std::', '<' + p + ' as alloc::'))))
                                 for p in payloads if '::' in p)
                if (c.startswith(follow) or own_method or (' as core::convert::From<' in c and 'datafusion' in c)) and c in facts.fn_index and c not in seen:
                    todo.append(c)
                    # helper layers inside the proto crates cost nothing (extracting an arm into a helper must not hide what it reads);
                    # only hops into the payload structs' own methods / conversions are bounded
                    depth[c] = depth[d] + (0 if c.startswith(follow) else 1)

        def place(pl):
            cur = None
            for p in pl[1]:
                if isinstance(p, list) and p[0] == 'd' and len(p) > 2 and p[2] in names:
                    cur = p[2]
                elif isinstance(p, list) and p[0] == 'f':
                    owner = p[3] if len(p) > 3 else None
                    if owner:
                        anyread[owner].add(p[2])
                    if cur is not None:
                        vread[cur].add((owner, p[2] if len(p) > 2 and p[2] is not None else p[1]))
                        vread[cur].add((owner, p[1]))

        def walk(x):
            if isinstance(x, list):
                if len(x) == 2 and isinstance(x[0], int) and isinstance(x[1], list):
                    place(x)
                for y in x:
                    walk(y)
        for b in rec['bb']:
            for st in b['s']:
                walk(st)
            walk(b['t'])
    return anyread, vread, seen


def check_encoder_reads(ctx, label, root, enum_adt, rule='encoder-reads-every-field', exempt=None, min_structs=0, follow=None, per_variant=True, facts=None, what='wire', follow_derived=False):
    facts = facts or ctx.facts
    exempt = SRC_EXEMPT if exempt is None else exempt
    if facts.fn(root) is None or enum_adt not in facts.adts:
        ctx.lost(rule, root)
        return 0
    anyread, vread, seen = encoder_reads(facts, root, enum_adt, follow, follow_derived=follow_derived) if follow else encoder_reads(facts, root, enum_adt, follow_derived=follow_derived)
    ctx.analysed_fns.update(d for d in seen if '{closure' not in d)
    # payload structs and how many variants share each
    uses = {}
    for v in facts.adts[enum_adt]['variants']:
        for fl in v['fields']:
            t = _strip_ptr(fl[1])
            a = facts.adts.get(t)
            if a and a['kind'] == 'struct' and not a.get('ext'):
                uses.setdefault(t, []).append(v['name'])
            elif a and a['kind'] == 'enum' and not a.get('ext') and t != enum_adt:
                for v2 in a['variants']:
                    for fl2 in v2['fields']:
                        t2 = _strip_ptr(fl2[1])
                        a2 = facts.adts.get(t2)
                        if a2 and a2['kind'] == 'struct' and not a2.get('ext'):
                            uses.setdefault(t2, []).append('%s::%s' % (v['name'], v2['name']))
    n = 0

    def exempted(short, fname, fty):
        if (short, fname) in exempt:
            return exempt[(short, fname)]
        for pat, why in SRC_EXEMPT_TYPES:
            if pat in fty:
                return why
        return None
    for t, vs in sorted(uses.items()):
        a = facts.adts[t]
        fields = a['variants'][0]['fields']
        short = t.rsplit('::', 1)[-1]
        rd = anyread.get(t, set())
        if not rd:
            ctx.skip(rule, '%s(%s)' % (label, short), 'no field of this struct is read by the encoder (variant not supported by the encoder, or converted by an opaque Into)')
            continue
        n += 1
        for fl in fields:
            fname, fty = fl[0], fl[1]
            inst = '%s.%s' % (short, fname)
            why = exempted(short, fname, fty)
            if fname in rd:
                # a struct shared by several variants: each variant that reads the struct at all must read this field too
                # (only meaningful when the encoder reads the payload under the variant's own match arm; an encoder that hands the payload
                #  to per-struct helper functions is judged per struct)
                if len(vs) > 1 and per_variant:
                    for v in vs:
                        got = set(x for o, x in vread.get(v, ()) if o == t)
                        if got and fname not in got and not why:
                            ctx.fail(rule, '%s@%s' % (inst, v), ctx.loc(facts.fn(root)), 'the encoder reads %s for the %s variants %s but not for %s: that part of a %s expression is not on the wire'
                                     % (inst, label, sorted(x for x in vs if fname in set(y for o, y in vread.get(x, ()) if o == t)), v, v), key='%s|%s@%s' % (rule, inst, v))
                continue
            if why:
                ctx.ok(rule, inst, nontrivial=False, sample=None)
                continue
            ctx.fail(rule, inst, ctx.loc(facts.fn(root)), 'no function of the %s encoder (nor a method of %s it calls) reads the field `%s` (%s): it cannot be on the wire, the decoded %s differs from the original'
                     % (label, short, fname, fty[-60:], label), key='%s|%s' % (rule, inst))
        if not any(f_[0] not in rd and not exempted(short, f_[0], f_[1]) for f_ in fields):
            ctx.ok(rule, '%s(%s)' % (label, short), sample={'struct': short, 'fields': len(fields), 'read': len([f_ for f_ in fields if f_[0] in rd])} if n < 8 else None)
    # tuple variants with several direct fields: an index never read while another one is
    for v in facts.adts[enum_adt]['variants']:
        if len(v['fields']) < 2 or any(fl[0] and not str(fl[0]).isdigit() for fl in v['fields']):
            continue
        got = set(x for o, x in vread.get(v['name'], ()) if o == enum_adt and isinstance(x, int))
        if not got:
            continue
        for k, fl in enumerate(v['fields']):
            inst = '%s::%s.%d' % (enum_adt.rsplit('::', 1)[-1], v['name'], k)
            if k in got or any(p in fl[1] for p, _ in SRC_EXEMPT_TYPES) or (inst.split('::', 1)[-1].rsplit('.', 1)[0], str(k)) in exempt:
                continue
            ctx.fail(rule, inst, ctx.loc(facts.fn(root)), 'the encoder reads field(s) %s of %s::%s but never field %d (%s): it cannot be on the wire' % (
                sorted(got), enum_adt.rsplit('::', 1)[-1], v['name'], k, fl[1][-60:]), key='%s|%s' % (rule, inst))
    if min_structs:
        ctx.floor(rule, '%s payload structs the encoder reads' % label, n, min_structs)
    return n


# ---------------------------------------------------------------------------------------------------------------------------------------
# tag round trip of a payload-carrying enum through a oneof (Expr <-> logical_expr_node::ExprType): the encoder's table V -> W is read off
# per-variant exploration, the decoder's table W -> constructors from the CFG region of each match arm (constructors built in the arm, passed
# as function items to a helper, or built by a proto-crate helper the arm calls).  dec(enc(V)) must be able to give V back and nothing foreign.

def oneof_roundtrip(ctx, enum_adt, enc_fn, dec_fn, oneof_adt, rule='oneof-tag-roundtrip', floor=0):
    import cfg
    from traces import run_traces
    from enumtab import vi_of_discr, variant_names, Undecidable, R, A, sym, strip
    f = ctx.facts
    erec, drec = f.fn(enc_fn), f.fn(dec_fn)
    if erec is None or drec is None or enum_adt not in f.adts or oneof_adt not in f.adts:
        ctx.lost(rule, '%s / %s' % (enc_fn, dec_fn))
        return 0
    ctx.analysed_fns.update((enc_fn, dec_fn))
    enames = set(variant_names(f, enum_adt))
    enc = {}
    for vi, v in enumerate(f.adts[enum_adt]['variants']):
        args = [R(A(enum_adt, vi, v['name'], ()))] + [R(sym('a%d' % k)) for k in range(1, erec['argc'])]
        try:
            outs = run_traces(f, erec, args, inline_depth=0, time_budget=10, budget=300000, loop_visits=1)
        except Undecidable:
            enc[v['name']] = None
            continue
        built = set()
        for o in outs:
            r = strip(o.ret)
            if isinstance(r, A) and r.name == 'Ok':
                built |= set(e[2] for e in o.events if e[0] == 'agg' and e[1] == oneof_adt)
        enc[v['name']] = built

    def ctors(rec, blocks):
        out, callees = set(), set()

        def walk(x):
            if isinstance(x, dict):
                fd = x.get('fn')
                if isinstance(fd, dict):
                    nm = fd.get('res') or fd.get('def') or ''
                    if nm.startswith(enum_adt + '::') and nm.rsplit('::', 1)[-1] in enames:
                        out.add(nm.rsplit('::', 1)[-1])
                for y in x.values():
                    walk(y)
            elif isinstance(x, list):
                if len(x) >= 2 and x[0] == 'agg' and isinstance(x[1], list) and x[1] and x[1][0] == 'adt' and x[1][1] == enum_adt:
                    out.add(x[1][3])
                for y in x:
                    walk(y)
        for bi in blocks:
            b = rec['bb'][bi]
            for st in b['s']:
                walk(st)
            t = b['t']
            walk(t)
            if t[0] == 'call' and isinstance(t[1], dict):
                nm = t[1].get('res') or t[1].get('def') or ''
                if nm.startswith(enum_adt + '::') and nm.rsplit('::', 1)[-1] in enames:
                    out.add(nm.rsplit('::', 1)[-1])
                callees.add(nm)
        return out, callees
    sc = cfg.succs(drec)
    dom, _ = cfg.dominators(sc)
    discr_locals = set(st[1][0] for b in drec['bb'] for st in b['s'] if st[0] == '=' and st[2][0] == 'discr' and not st[1][1])
    sw = None
    for b in drec['bb']:
        t = b['t']
        if t[0] == 'switch' and t[1][0] in ('c', 'm') and not t[1][1][1] and t[1][1][0] in discr_locals and (sw is None or len(t[2]) > len(sw[2])):
            sw = t
    if sw is None or len(sw[2]) < 3:
        ctx.lost(rule, dec_fn + ' (match on the oneof)')
        return 0
    wnames = variant_names(f, oneof_adt)
    crate = dec_fn.split('::')[0] + '::'
    dec = {}
    for val, tg in sw[2]:
        vi = vi_of_discr(f, oneof_adt, val)
        if vi is None:
            continue
        region = [k for k in range(len(drec['bb'])) if tg in dom.get(k, ())]
        cs, callees = ctors(drec, region)
        for c in callees:
            r2 = f.fn(c)
            if c.startswith(crate) and r2 is not None and c != dec_fn:
                for body in [c] + [x for x in f.fn_index if x.startswith(c + '::{closure')]:
                    rb = f.fn(body)
                    if rb is not None:
                        cs |= ctors(rb, range(len(rb['bb'])))[0]
        dec[wnames[vi]] = cs
    n = 0
    for v, ws in sorted(enc.items()):
        if not ws:
            if ws is None:
                ctx.undecided(rule, v, 'encoder exploration budget')
            else:
                ctx.skip(rule, v, 'the encoder has no successful path for this variant (not supported on the wire)')
            continue
        for w in sorted(ws):
            back = dec.get(w)
            inst = '%s -> %s' % (v, w)
            if not back:
                ctx.skip(rule, inst, 'the decoder arm builds the value outside the crate (builder API): not decided')
                continue
            n += 1
            foreign = sorted(x for x in back if w not in (enc.get(x) or ()))
            if v not in back:
                ctx.fail(rule, inst, ctx.loc(drec), 'the encoder writes %s::%s as %s, but the decoder arm for %s builds %s: the variant does not come back' % (
                    enum_adt.rsplit('::', 1)[-1], v, w, w, sorted(back)), key='%s|%s' % (rule, inst))
            elif foreign:
                ctx.fail(rule, inst, ctx.loc(drec), 'the decoder arm for %s can also build %s, which the encoder never writes as %s' % (w, foreign, w), key='%s|%s|foreign' % (rule, inst))
            else:
                ctx.ok(rule, inst, sample={'variant': v, 'wire': w, 'decoded': sorted(back)} if n < 8 else None)
    if floor:
        ctx.floor(rule, 'variant/wire pairs decided', n, floor)
    return n
