"""C12 — row hashes depend only on the logical row value: the zero-buffer contract of create_hashes."""
import hashbuf

TECHNIQUE = ('static analysis: exhaustive path enumeration over MIR of every function that hands a buffer to create_hashes '
             '(typestate of the buffer: zeroed / stale), one level of parameter passing followed to the callers')
EXPLANATION = ('create_hashes writes only the slots of non-NULL rows of the first key column and combines the following columns into '
               'whatever the slot holds, so the hash of a row is a function of the row alone only if every slot starts at zero. The rule '
               'enumerates every path to every call of create_hashes / ChildHashing::create_hashes in the workspace (non-test): inside '
               'hash_utils (child hashing of struct, list, list view, fixed-size list, map, union, run-end and dictionary arrays; the '
               'buffered entry point with_hashes; scalar hashing in scalar/mod.rs) and in all users (hash join build/probe, symmetric hash '
               'join, repartitioning, group-by interning, the bytes maps, bounded windows, approx_distinct, distinct array_agg, dynamic '
               'filter routing). On each path the buffer must have been created as vec![0; n] and not written since, or reset by clear() '
               'followed by resize(n, 0); a buffer received as a parameter moves the obligation to every caller. With a stale buffer a NULL '
               'key hashes to whatever an earlier batch left in its slot: equal keys get different hashes (this rule found the symmetric '
               'hash join defect repaired by fix commit ba1344a). Nested kernels: each hash kernel over a nested array type with its own validity (struct, list, list view, fixed-size list, map) queries the per-row validity of the parent (a null_count() fast-path test alone does not count), so child values under a NULL parent cannot reach the hash. The rest of the hash kernels (layout independence per array encoding, '
               '-0.0/+0.0, dictionary and view handling) is value-level and not decided.')
# path rules cut loops after a bounded number of iterations: complete over rule instances, not over all unrollings
EXHAUSTIVE = False
ASSUMPTIONS = ['the buffer is reachable only through the place it is named by at the call (no raw-pointer aliasing)',
               'loops are cut after one iteration; the initialisation idiom and the call are in the same iteration at every site']



NESTED_WITH_VALIDITY = ('struct_array::StructArray', 'list_array::GenericListArray', 'list_view_array::GenericListViewArray',
                        'fixed_size_list_array::FixedSizeListArray', 'map_array::MapArray')
VALIDITY_QUERIES = ('::nulls', '::is_valid', '::is_null', '::valid_indices', '::logical_nulls')


def nested_kernels_consult_validity(ctx, f, prefix='datafusion_common::hash_utils::hash_', arg_types=NESTED_WITH_VALIDITY,
                                    queries=VALIDITY_QUERIES, rule='nested-kernel-consults-validity'):
    """A hash kernel for a nested array type that has its own validity (struct, list, list view, fixed-size list, map) must look at the
    parent's validity per row (nulls()/is_valid/is_null/valid_indices) — a null_count() fast-path test alone does not count — or the
    child values that happen to sit under a NULL parent flow into the hash and equal keys (NULL = NULL) hash differently."""
    n = 0
    for d in sorted(x for x in f.fn_index if x.startswith(prefix) and '{closure' not in x):
        sg = f.sig(d)
        if not sg or len(sg) < 2 or not any(t in sg[1] for t in arg_types):
            continue
        n += 1
        ctx.analysed_fns.add(d)
        tree = [d] + [x for x in f.fn_index if x.startswith(d + '::{closure')]
        cal = set()
        for t in tree:
            cal |= set(f.callees.get(t, ()))
        q = sorted(c for c in cal if c.endswith(queries))
        if q:
            ctx.ok(rule, d.rsplit('::', 1)[-1], sample={'kernel': d, 'validity_queries': [c.rsplit('::', 2)[-2] + '::' + c.rsplit('::', 1)[-1] for c in q][:3]})
        else:
            rec = f.fn(d)
            ctx.fail(rule, d.rsplit('::', 1)[-1], ctx.loc(rec), 'this kernel hashes a nested array that has its own validity but never looks at the validity of a row: child '
                     'values under a NULL parent influence the hash of the NULL row', key='%s|%s' % (rule, d))
    return n

def run(ctx):
    n = hashbuf.check_callers(ctx, 'zeroed-hash-buffer', floor=30)
    nk = nested_kernels_consult_validity(ctx, ctx.facts)
    ctx.floor('nested-kernel-consults-validity', 'hash kernels over nested arrays with validity', nk, 5)
    import common
    st = ctx.st
    probe = common.Ctx(ctx.pid, ctx.tier, st, st, {})
    probe.known = []
    SH = 'dfscan_selftest::hashbuf::'
    hashbuf.check_callers(probe, 'st', ch={SH + 'create_hashes': 2})
    keys = ' '.join(v['key'] for v in probe.viol)
    ctx.selftest('detects resize without clear (bad_reuse), clear on one branch only (bad_branch), a non-zero fresh buffer (bad_fresh), a caller of a '
                 'pass-through function that does not clear (bad_caller_of_update); accepts the four good shapes',
                 all(x in keys for x in ('bad_reuse', 'bad_branch', 'bad_fresh', 'bad_caller_of_update')) and 'good_' not in keys)
    nested_kernels_consult_validity(probe, st, prefix='dfscan_selftest::hashbuf::hash_list_', arg_types=('hashbuf::ListArr',), queries=('::is_valid',), rule='st-nested')
    k2 = [v['key'] for v in probe.viol if v['key'].startswith('st-nested|')]
    ctx.selftest('nested-kernel rule reports a list kernel that never consults validity (hash_list_bad), accepts hash_list_good',
                 any('hash_list_bad' in k for k in k2) and not any('hash_list_good' in k for k in k2))
