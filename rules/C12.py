"""C12 — row hashes depend only on the logical row value: the zero-buffer contract of create_hashes."""
import hashbuf

TECHNIQUE = ('static analysis: exhaustive path enumeration over MIR of every function that hands a buffer to create_hashes '
             '(typestate of the buffer: zeroed / stale), one level of parameter passing followed to the callers')
EXPLANATION = ('create_hashes writes only the slots of non-NULL rows of the first key column and combines the following columns into '
               'whatever the slot holds, so the hash of a row is a function of the row alone only if every slot starts at zero. The rule '
               'enumerates every path to every call of create_hashes / ChildHashing::create_hashes in the workspace (non-test): inside '
               'hash_utils (child hashing of struct, list, list view, fixed-size list, map, union, run-end and dictionary arrays; the '
               'buffered entry point with_hashes; scalar hashing in scalar/mod.rs) and in all users (hash join build/probe, symmetric hash '
               'join, repartitioning, group-by interning, the bytes maps, bounded windows, approx_distinct, distinct array_agg, dynamic '
               'filter routing). On each path the buffer must have been created as vec![0; n] and not written since, or reset by clear() '
               'followed by resize(n, 0); a buffer received as a parameter moves the obligation to every caller. With a stale buffer a NULL '
               'key hashes to whatever an earlier batch left in its slot: equal keys get different hashes (this rule found the symmetric '
               'hash join defect repaired by fix commit ba1344a). The hash kernels themselves (layout independence per array encoding, '
               '-0.0/+0.0, dictionary and view handling) are value-level and not decided.')
ASSUMPTIONS = ['the buffer is reachable only through the place it is named by at the call (no raw-pointer aliasing)',
               'loops are cut after one iteration; the initialisation idiom and the call are in the same iteration at every site']


def run(ctx):
    n = hashbuf.check_callers(ctx, 'zeroed-hash-buffer', floor=30)
    import common
    st = ctx.st
    probe = common.Ctx(ctx.pid, ctx.tier, st, st, {})
    probe.known = []
    SH = 'dfscan_selftest::hashbuf::'
    hashbuf.check_callers(probe, 'st', ch={SH + 'create_hashes': 2})
    keys = ' '.join(v['key'] for v in probe.viol)
    ctx.selftest('detects resize without clear (bad_reuse), clear on one branch only (bad_branch), a non-zero fresh buffer (bad_fresh), a caller of a '
                 'pass-through function that does not clear (bad_caller_of_update); accepts the four good shapes',
                 all(x in keys for x in ('bad_reuse', 'bad_branch', 'bad_fresh', 'bad_caller_of_update')) and 'good_' not in keys)
