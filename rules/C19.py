"""C19 — dropping a query stream releases resources and stops background work."""
from traces import *
from taint import field_sources, propagate
import C16

TECHNIQUE = 'static analysis: type-resolved who-may-call / who-may-hold census over the whole workspace; path rule on Drop; def-use reachability; call-tree search for yield sources'
EXPLANATION = ('(1) Drop for SpawnedTask calls JoinHandle::abort on every path; SpawnedTask is not Clone and no method of it returns the '
               'inner JoinHandle. (2) Who may spawn: calls resolving to tokio::task::spawn / spawn_blocking / spawn_local, Handle::spawn*, '
               'Runtime::spawn*, tokio JoinSet::spawn*, std::thread::spawn / Builder::spawn occur only inside datafusion-common-runtime '
               '(engine crates; benchmarks, examples and test harness crates are out of scope). (3) Who may hold: no struct field outside '
               'common-runtime has a type containing tokio JoinHandle or tokio JoinSet. (4) ReceiverStreamBuilder::build moves its '
               'JoinSet into the returned stream (def-use reachability), so dropping the stream aborts the tasks. (5) Every operator / '
               'data source that declares SchedulingType::Cooperative has, in the call tree of execute/open, an accepted yield source '
               '(cooperative()/make_cooperative() wrap, yield_now, a tokio channel operation) or is a frozen constant/one-shot stream. '
               '(6) In every driver loop that relies on tokio::task::yield_now (RepartitionExec::pull_from_input), no iteration that did work '
               '(called a workspace function) can return to the loop head without passing the branch that guards the yield (CFG rule on '
               'dominators and natural loops: no cycle through the loop header contains a work call and avoids the gate). '
               'Bounded time and per-drop-point behaviour are not decided.')
# path rules cut loops after a bounded number of iterations: complete over rule instances, not over all unrollings
EXHAUSTIVE = False
ASSUMPTIONS = ['resolved callee names identify the spawn family', 'tokio channel send/recv participate in tokio coop budgeting']

RT = 'datafusion_common_runtime::'
ST = RT + 'common::SpawnedTask'
SCHED = 'datafusion_physical_plan::execution_plan::SchedulingType'
SPAWN_PATTERNS = ('tokio::task::spawn::spawn', 'tokio::task::blocking::spawn_blocking', 'tokio::task::local::spawn_local',
                  'tokio::runtime::handle::Handle::spawn', 'tokio::runtime::runtime::Runtime::spawn', 'tokio::task::join_set::JoinSet::<T>::spawn',
                  'std::thread::functions::spawn', 'std::thread::builder::Builder::spawn', 'std::thread::scoped::', 'tokio::task::builder::Builder')
OUT_OF_SCOPE = ('datafusion_benchmarks', 'datafusion_examples', 'datafusion_sqllogictest', 'datafusion_wasmtest', 'test_utils',
                'benchmark_runner', 'dfbench', 'external_aggr', 'imdb', 'mem_profile', 'gen', 'gen_common', 'gen_wide_data', 'examples_docs')
YIELD = ('coop::cooperative', 'coop::make_cooperative', 'CooperativeStream', 'tokio::task::yield_now', 'tokio::sync::mpsc', 'tokio::task::coop',
         'consume_budget', 'poll_proceed')
FROZEN_COOP = {
    'datafusion_datasource::sink::DataSinkExec': 'one-shot: yields a single count batch from stream::once after the sink future completes',
    'datafusion_physical_plan::empty::EmptyExec': 'constant empty stream',
}


def crate_of(facts, d):
    e = facts.fn_index.get(d)
    return e[0][7] if e else d.lstrip('<').split('::')[0]


def spawn_census(ctx, facts, allowed_prefix, rule='who-may-spawn'):
    sites = []
    for callee in facts.callers:
        if any(callee.startswith(p) for p in SPAWN_PATTERNS):
            for c in facts.callers_of(callee):
                sites.append((c, callee))
    bad = 0
    for c, callee in sorted(set(sites)):
        cr = crate_of(facts, c)
        if cr in OUT_OF_SCOPE:
            ctx.skip(rule, c, 'crate %s is not engine code' % cr)
            continue
        if c.startswith(allowed_prefix) or c.startswith('<' + allowed_prefix):
            ctx.ok(rule, '%s -> %s' % (c, callee), sample={'caller': c, 'callee': callee})
        else:
            bad += 1
            rec = facts.fn(c)
            ctx.fail(rule, '%s -> %s' % (c, callee), ctx.loc(rec) if rec else c, 'spawns a task/thread outside datafusion-common-runtime: it would not be aborted when the stream is dropped',
                     key='%s|%s|%s' % (rule, c, callee))
    return bad, len(set(sites))



def yield_gate(ctx, f, yield_fn, work_prefixes, rule):
    """For every function that calls `yield_fn` inside a loop: let G be the branch that guards the yield (nearest dominating
    switch) and H the header of the innermost loop containing G.  No block that calls a work function (a workspace function,
    metrics excluded) may lie on a cycle through H that avoids G — otherwise an endless, always-ready input lets the loop spin
    without ever reaching the yield, and an abort requested by dropping the task is never observed."""
    import cfg
    n = 0
    for d in sorted(set(f.callers.get(yield_fn, []))):
        for i in range(len(f.fn_index.get(d, []))):
            rec = f.fn(d, i)
            if 'bb' not in rec:
                continue
            sc = cfg.succs(rec)
            dom, preds = cfg.dominators(sc)
            loops = cfg.natural_loops(sc, dom, preds)
            ys = [k for k, b in enumerate(rec['bb']) if cfg.callee(b) == yield_fn and not b.get('cu') and k in dom]
            for y in ys:
                sw = [x for x in dom[y] if rec['bb'][x]['t'][0] == 'switch']
                inl = [h for h, body in loops.items() if y in body]
                if not inl:
                    continue          # a yield outside any loop is not a loop heuristic
                n += 1
                ctx.analysed_fns.add(d)
                if not sw:
                    # unconditional yield inside the loop: every cycle through its block is fine; treat the yield block as the gate
                    gate = y
                else:
                    gate = max(sw, key=lambda x: len(dom[x]))
                cont = [h for h, body in loops.items() if gate in body]
                if not cont:
                    gate = y
                    cont = inl
                H = min(cont, key=lambda h: len(loops[h]))
                bad = []
                fromH = cfg.reachable(sc, H, removed=[gate])
                for w in sorted(loops[H]):
                    c = cfg.callee(rec['bb'][w]) or ''
                    if not c.startswith(work_prefixes) or '::metrics::' in c or c == yield_fn:
                        continue
                    if w in fromH and H in cfg.reachable(sc, w, removed=[gate]):
                        bad.append((c, rec['bb'][w]['t'][5] if len(rec['bb'][w]['t']) > 5 else 0))
                if bad:
                    ctx.fail(rule, d, ctx.loc(rec), 'an iteration of the driver loop that calls %s (line %s) can return to the loop head without passing the '
                             'yield countdown at line %s: over an endless, always-ready input the task never yields and a drop/abort is never '
                             'observed' % (bad[0][0].rsplit('::', 2)[-2] + '::' + bad[0][0].rsplit('::', 1)[-1], bad[0][1],
                                           rec['bb'][y]['t'][5] if len(rec['bb'][y]['t']) > 5 else '?'), key='%s|%s' % (rule, d))
                else:
                    ctx.ok(rule, d, sample={'fn': d, 'loop_header_bb': H, 'gate_bb': gate, 'blocks_in_loop': len(loops[H])})
    return n

def coop_passthrough(ctx, f, sched, yield_pats, rule='cooperative-passthrough', trait_method='execute'):
    """(5b) an operator that declares Cooperative on EVERY path of its property computation must not have an execute() path that hands the child's
    stream through untouched (no yield source on that path): EnsureCooperative trusts the declaration and leaves the leaf below it unwrapped.
    Operators whose declaration is conditional (CoalescePartitionsExec: only with more than one input partition) are not decided here."""
    import C16 as _C16
    from traces import run_traces as _rt
    npt = 0
    for c in f.constructors.get(sched, []):
        rec = f.fn(c)
        owner = rec.get('impl_self')
        if not owner or owner not in f.adts or rec.get('coroutine'):
            continue
        if not any(st[0] == '=' and st[2][0] == 'agg' and st[2][1][0] == 'adt' and st[2][1][1] == sched and st[2][1][3] == 'Cooperative' for b in rec['bb'] for st in b['s']):
            continue
        try:
            outs = _rt(f, rec, _C16.args_for(rec), inline_depth=0, time_budget=20, budget=400000, loop_visits=1)
        except Undecidable:
            continue
        okp = [o for o in outs if not (isinstance(strip(o.ret), A) and strip(o.ret).name == 'Err')]
        uncond = bool(okp) and all(any(e[0] == 'agg' and e[1] == sched and e[2] == 'Cooperative' for e in o.events) for o in okp)
        for e in [d for d in f.fn_index if (d.startswith('<%s as ' % owner) or d.startswith(owner + '::')) and d.rsplit('::', 1)[-1] == trait_method]:
            er = f.fn(e)
            try:
                eo = _rt(f, er, _C16.args_for(er), inline_depth=0, time_budget=20, budget=400000, loop_visits=1, try_tags=True)
            except Undecidable:
                continue
            npt += 1
            passthrough = None
            for o in eo:
                r = strip(o.ret)
                if isinstance(r, A) and r.name == 'Ok':
                    t = tag_of(read_proj(r, [('f', 0)])) or ''
                elif isinstance(r, U) and r.tag:
                    t = r.tag           # `return self.input.execute(..)`: the child's Result is returned as is
                else:
                    continue
                while t.startswith('try:'):
                    t = t[4:]
                if t.startswith('call:%s@' % trait_method) and not any(ev[0] == 'callargs' and any(y in ev[1] for y in yield_pats) for ev in o.events):
                    passthrough = t
            inst = owner.rsplit('::', 1)[-1]
            if uncond and passthrough:
                ctx.fail(rule, inst, ctx.loc(er), 'declares SchedulingType::Cooperative on every path of %s, but execute() has a path that returns the child stream '
                         'untouched (%s) with no yield source: a non-cooperative leaf below it is then never wrapped and a timeout/cancel may never fire'
                         % (c.rsplit('::', 1)[-1], passthrough[:40]), key='%s|%s' % (rule, owner))
            else:
                ctx.ok(rule, inst, nontrivial=uncond, sample={'operator': inst, 'declares_cooperative_unconditionally': uncond, 'passthrough_path': bool(passthrough)})
    return npt


def run(ctx):
    f = ctx.facts
    # (1)
    d = '<%s<R> as core::ops::drop::Drop>::drop' % ST
    rec = ctx.fn(d, 'abort-on-drop')
    if rec:
        outs = run_traces(f, rec, C16.args_for(rec), inline_depth=0)
        okk = all(any(c[0].endswith('JoinHandle::<T>::abort') for c in calls(o)) for o in outs)
        if okk and outs:
            ctx.ok('abort-on-drop', 'Drop for SpawnedTask', sample={'paths': len(outs)})
        else:
            ctx.fail('abort-on-drop', 'Drop for SpawnedTask', ctx.loc(rec), 'a path of Drop for SpawnedTask does not call JoinHandle::abort', key='abort-on-drop|spawnedtask')
    cl = [i for i in f.impls if i.get('self_adt') == ST and i.get('trait') in ('core::clone::Clone', 'core::marker::Copy')]
    if cl:
        ctx.fail('abort-on-drop', 'SpawnedTask: !Clone', ST, 'SpawnedTask is Clone: a second handle could outlive the stream', key='abort-on-drop|clone')
    else:
        ctx.ok('abort-on-drop', 'SpawnedTask: !Clone')
    leak = [dd for dd in f.fn_index if dd.startswith(ST + '::') and '{closure' not in dd and 'JoinHandle' in (f.sig(dd) or ('',))[0]]
    if leak:
        ctx.fail('abort-on-drop', 'SpawnedTask API', ST, 'methods %s hand out the inner JoinHandle' % leak, key='abort-on-drop|leak')
    else:
        ctx.ok('abort-on-drop', 'SpawnedTask API does not expose the JoinHandle')
    # (2)
    bad, n = spawn_census(ctx, f, RT)
    ctx.floor('who-may-spawn', 'spawn call sites found', n, 8)
    # (3)
    holders = []
    for p, a in f.adts.items():
        if a.get('ext') or a.get('crate') in OUT_OF_SCOPE:
            continue
        for v in a['variants']:
            for fl in v['fields']:
                if 'tokio::runtime::task::join::JoinHandle' in fl[1] or 'tokio::task::join_set::JoinSet' in fl[1] or 'std::thread::JoinHandle' in fl[1]:
                    holders.append((p, fl[0], fl[1]))
    for p, fld, ty in holders:
        if p.startswith(RT):
            ctx.ok('who-may-hold', '%s.%s' % (p, fld), sample={'type': p, 'field': fld})
        else:
            ctx.fail('who-may-hold', '%s.%s' % (p, fld), p, 'field of type %s outside common-runtime: the task is not tied to a SpawnedTask/JoinSet that aborts on drop' % ty,
                     key='who-may-hold|%s.%s' % (p, fld))
    ctx.floor('who-may-hold', 'JoinHandle/JoinSet holders', len(holders), 2)
    # (4)
    B = 'datafusion_physical_plan::stream::ReceiverStreamBuilder::<O>::build'
    rec = ctx.fn(B, 'joinset-owned-by-stream')
    if rec:
        src = field_sources(rec, 'join_set', 1)
        if src and 0 in propagate(rec, src):
            ctx.ok('joinset-owned-by-stream', 'ReceiverStreamBuilder::build', sample={'sources': sorted(src)})
        else:
            ctx.fail('joinset-owned-by-stream', 'ReceiverStreamBuilder::build', ctx.loc(rec), 'the JoinSet does not flow into the returned stream: tasks outlive the stream',
                     key='joinset-owned-by-stream|build')
    # (5)
    n = 0
    for c in f.constructors.get(SCHED, []):
        rec = f.fn(c)
        coop = any(st[0] == '=' and st[2][0] == 'agg' and st[2][1][0] == 'adt' and st[2][1][1] == SCHED and st[2][1][3] == 'Cooperative'
                   for b in rec['bb'] for st in b['s'])
        if not coop:
            continue
        owner = rec.get('impl_self')
        if not owner or owner not in f.adts:
            continue
        entry = [d for d in f.fn_index if d.startswith('<%s as ' % owner) and d.rsplit('::', 1)[-1] in ('execute', 'open')]
        if not entry:
            ctx.skip('cooperative-yields', owner, 'no execute/open implementation found')
            continue
        n += 1
        ys = set()
        for e in entry:
            tree = f.call_tree(e, depth=2)
            for dd in tree:
                for cal in f.callees.get(dd, []):
                    if any(y in cal for y in YIELD):
                        ys.add(cal)
        if ys:
            ctx.ok('cooperative-yields', owner, sample={'declares_cooperative': owner, 'yield_sources': sorted(ys)[:4]})
        elif owner in FROZEN_COOP:
            ctx.ok('cooperative-yields', owner, nontrivial=False, sample={'declares_cooperative': owner, 'frozen': FROZEN_COOP[owner]})
        else:
            ctx.fail('cooperative-yields', owner, ctx.loc(rec), 'declares SchedulingType::Cooperative but its execute/open call tree contains no yield source '
                     '(cooperative wrap, yield_now, tokio channel): EnsureCooperative will trust the declaration and a timeout/cancel may never fire',
                     key='cooperative-yields|' + owner)
    ctx.floor('cooperative-yields', 'types declaring Cooperative', n, 13)
    npt = coop_passthrough(ctx, f, SCHED, YIELD)
    ctx.floor('cooperative-passthrough', 'execute() bodies of operators declaring Cooperative', npt, 9)
    # (6) the yield heuristic of a spawned driver loop is reached by every iteration that did work
    ny = yield_gate(ctx, f, 'tokio::task::yield_now::yield_now', ('datafusion_', '<datafusion_'), 'yield-gate')
    ctx.floor('yield-gate', 'driver loops that rely on yield_now', ny, 1)
    # selftest
    import common
    st = ctx.st
    probe = common.Ctx(ctx.pid, ctx.tier, st, st, {})
    probe.known = []
    b, _ = spawn_census(probe, st, 'no_such_crate::', rule='st')
    ctx.selftest('who-may-spawn reports std::thread::spawn in the selftest crate', b > 0)
    yield_gate(probe, st, 'dfscan_selftest::spawny::yield_now', ('dfscan_selftest::',), 'st-yield')
    keys = [v['key'] for v in probe.viol if v['key'].startswith('st-yield|')]
    ctx.selftest('yield-gate reports a driver loop whose working iteration can skip the yield countdown (bad_driver), accepts good_driver',
                 any('bad_driver' in k for k in keys) and not any('good_driver' in k for k in keys))
    import common as _common
    _probe = _common.Ctx(ctx.pid, ctx.tier, ctx.st, ctx.st, {})
    _probe.known = []
    coop_passthrough(_probe, ctx.st, 'dfscan_selftest::spawny::Sched', ('make_coop',), rule='st-pass')
    ctx.selftest('cooperative-passthrough reports an operator that always declares Cooperative but hands a single child stream through (PassAll), '
                 'silent on the conditional declarer (PassCond) and the wrapping one (WrapAll)',
                 sorted(v['key'] for v in _probe.viol) == ['st-pass|dfscan_selftest::spawny::PassAll'])
