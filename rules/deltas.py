"""Counter deltas on a path: atomic RMW ops, `x op= y` field updates through guards,
helper calls inlined by the explorer, and closures created on the path (assumed to be
called by the callee they are handed to)."""
import re
from traces import *

_ARITH = re.compile(r'^\??(add|sub)\((.*),([^,()]*)\)(\.0)?$')


def delta_events(facts, o, depth=0, inline_only=(), hook=None):
    """ordered list of (sign, field, amount, line, try_) ; field = last path component of the place"""
    out = []
    for e in o.events:
        if e[0] == 'callargs' and is_atomic(e[1]):
            op = atomic_op(e[1])
            fld = (tag_of(e[2][0]) or '?').rsplit('.', 1)[-1]
            if op == 'fetch_add':
                out.append(('+', fld, show(e[2][1]).lstrip('?'), e[3], False))
            elif op == 'fetch_sub':
                out.append(('-', fld, show(e[2][1]).lstrip('?'), e[3], False))
            elif op == 'swap':
                out.append(('=', fld, show(e[2][1]).lstrip('?'), e[3], False))
            elif op == 'store':
                out.append(('=', fld, show(e[2][1]).lstrip('?'), e[3], False))
            elif op == 'fetch_update':
                # closure: what does it compute from the previous value?
                cl = strip(e[2][3]) if len(e[2]) > 3 else None
                sign, amt = '?', '?'
                if isinstance(cl, C):
                    crec = facts.fn(cl.deff)
                    if crec is not None:
                        selfarg = R(cl) if crec['locals'][1][0].startswith('&') else cl
                        co = run_traces(facts, crec, [selfarg, sym('prev')], inline_depth=0)
                        pat = re.compile(r'(add|sub)\(\?prev,\??([A-Za-z_0-9.]+)\)')
                        for c in co:
                            for ev in c.events:
                                if ev[0] == 'callargs' and ev[1].endswith('::checked_sub'):
                                    sign, amt = '-', show(ev[2][1]).lstrip('?')
                                elif ev[0] == 'callargs' and ev[1].endswith('::checked_add'):
                                    sign, amt = '+', show(ev[2][1]).lstrip('?')
                                elif ev[0] == 'callargs' and sign == '?':
                                    for a in ev[2]:
                                        m = pat.search(show(a))
                                        if m:
                                            sign, amt = ('+' if m.group(1) == 'add' else '-'), m.group(2)
                            m = pat.search(show(c.ret))
                            if m and sign == '?':
                                sign, amt = ('+' if m.group(1) == 'add' else '-'), m.group(2)
                out.append((sign, fld, amt, e[3], True))
        elif e[0] == 'assign':
            v = show(e[2])
            m = _ARITH.match(v)
            if m:
                fld = e[1].rsplit('.', 1)[-1]
                out.append(('+' if m.group(1) == 'add' else '-', fld, m.group(3).lstrip('?'), e[3], False))
        elif e[0] == 'mkclosure' and depth < 2:
            cl = e[2] if len(e) > 2 else None
            if isinstance(cl, C):
                crec = facts.fn(cl.deff)
                if crec is not None and not crec.get('coroutine'):
                    args = [R(cl) if crec['locals'][1][0].startswith('&') else cl] + [sym('carg%d' % i) for i in range(crec['argc'] - 1)]
                    try:
                        co = run_traces(facts, crec, args, inline_depth=1, inline_only=inline_only, hook=hook, time_budget=10)
                    except Undecidable:
                        co = []
                    seen = set()
                    for c in co:
                        for d in delta_events(facts, c, depth + 1, inline_only, hook):
                            if d[:3] not in seen:
                                seen.add(d[:3])
                                out.append(d[:3] + (d[3], d[4]) if False else (d[0], d[1], d[2], d[3], d[4]))
    return out
