"""Source-struct coverage of the per-type encoders (`try_to_proto` of operators, physical expressions, data sources and sinks).

The wire-side rules of protocov.py ask "is every field of the MESSAGE written and read".  This one looks the other way, at the struct that is being
encoded, and answers the question the property's author asks ("fields added to operators but not encoded"):

    a field of S that   (1) is PRIMARY  — some public constructor / builder of S stores one of its parameters in it (moved, copied, wrapped in
                                            Some / Arc, converted with a std conversion), i.e. it is configuration handed in from outside and
                                            not a value S derives from its other fields (caches, computed schemas, metrics, runtime state);
                        (2) is ENGINE-SET — at some call site of that constructor in non-test workspace code the argument is neither a constant
                                            nor a copy of the same field of another S (followed backwards through forwarding wrappers);
                        (3) is never READ on the encoder side — by any `try_to_proto`, by the proto crates, by a `From/TryFrom<&S> for <wire
                                            type>` conversion, or by an accessor of S those call (dyn accessor calls resolved to the impls on S)
    cannot be on the wire: the decoded plan has lost an option the engine had set.

All three parts are read off the MIR facts on every run; nothing is matched by name or position.  A struct none of whose fields is read by its
encoder is a deliberate replacement (e.g. the hash-table probe expression becomes lit(true)) and is skipped, as in the logical rule.
"""
import re
import collections

CONV = ('::unwrap_or', '::new', '::into', '::from', '::clone', '::to_owned', '::to_string', '::to_vec', '::into_iter', '::collect', '::unwrap_or_default',
        '::as_ref', '::map', '::cloned', '::copied', '::borrow', '::deref', '::as_str', '::try_into', '::try_from', '::unwrap_or_else')

# types that are never configuration: derived caches, metrics, runtime state, runtime hook objects (cannot be data on a wire)
TYPE_EXEMPT = (('PlanProperties', 'derived plan properties cache'),
               ('ExecutionPlanMetricsSet', 'runtime metrics'),
               ('OnceAsync', 'runtime state'), ('OnceFut', 'runtime state'), ('Mutex<', 'runtime state'), ('RwLock<', 'runtime state'),
               ('watch::', 'runtime state'),
               ('ScalarSubqueryResults', 'runtime result slots shared by the subquery operator and its expressions; re-created and re-linked on decode'),
               ('Factory + ', 'a runtime hook object (dyn ..Factory): code, not data'),
               ('Observer + ', 'a runtime hook object (dyn ..Observer): code, not data'))


# workspace crates that use the engine rather than being it: a value they pass is not "a plan the engine builds"
NON_ENGINE = ('datafusion_benchmarks', 'datafusion_examples', 'datafusion_cli', 'test_utils', 'datafusion_sqllogictest', 'datafusion_wasmtest')


def _callee(t):
    fd = t[1]
    return (fd.get('res') or fd.get('def') or '') if isinstance(fd, dict) else ''


def _is_place_op(o):
    return isinstance(o, list) and len(o) == 2 and o[0] in ('m', 'c') and isinstance(o[1], list)


def provenance(facts, rec, S, accessor_of_S):
    """flow-insensitive provenance of every local: a set over {('p', k) parameter k, 'K' constant, 'S' copy of a field of (another) S, 'X' computed}"""
    tags = collections.defaultdict(set)
    for p in range(1, rec['argc'] + 1):
        tags[p].add(('p', p))

    def op_tags(o):
        if not _is_place_op(o):
            return {'K'}
        l, proj = o[1]
        fs = [p for p in proj if isinstance(p, list) and p[0] == 'f']
        if any(len(p) > 3 and p[3] == S for p in fs):
            return {'S'}
        if fs:
            return {'X'}
        return set(tags.get(l, ()))
    changed, it = True, 0
    while changed and it < 30:
        changed = False
        it += 1
        for b in rec['bb']:
            for s in b['s']:
                if s[0] != '=' or s[1][1]:
                    continue
                dst, rv = s[1][0], s[2]
                k = rv[0]
                if k == 'use':
                    new = op_tags(rv[1])
                elif k == 'cast':
                    new = op_tags(rv[2])
                elif k == 'ref':
                    pl = rv[1]
                    new = op_tags(['c', pl]) if isinstance(pl, list) and len(pl) == 2 and isinstance(pl[0], int) else {'X'}
                elif k == 'agg':
                    hd = rv[1]
                    if hd[0] == 'tuple' or (hd[0] == 'adt' and hd[1].startswith('core::option::Option')):
                        new = set()
                        for o in rv[2]:
                            new |= op_tags(o)
                        if not rv[2]:
                            new = {'K'}
                    else:
                        new = {'X'}
                else:
                    new = {'X'}
                if new - tags[dst]:
                    tags[dst] |= new
                    changed = True
            t = b['t']
            if t[0] == 'call' and t[3] and not t[3][1]:
                nm = _callee(t)
                if accessor_of_S(nm):
                    new = {'S'}
                elif nm.endswith(CONV) and t[2]:
                    new = op_tags(t[2][0])
                else:
                    new = {'X'}
                if new - tags[t[3][0]]:
                    tags[t[3][0]] |= new
                    changed = True
    return tags, op_tags


def _field_origin(rec, op, B, depth=0):
    """name of the field of B the operand is a plain copy / clone / conversion of, else None"""
    if not _is_place_op(op) or depth > 6:
        return None
    loc, proj = op[1]
    fs = [p for p in proj if isinstance(p, list) and p[0] == 'f']
    if fs:
        return fs[0][2] if len(fs) == 1 and len(fs[0]) > 3 and fs[0][3] == B else None
    ds = [st[2] for b in rec['bb'] for st in b['s'] if st[0] == '=' and st[1][0] == loc and not st[1][1]]
    cs = [b['t'] for b in rec['bb'] if b['t'][0] == 'call' and b['t'][3] and not b['t'][3][1] and b['t'][3][0] == loc]
    if len(ds) + len(cs) != 1:
        return None
    if cs:
        return _field_origin(rec, cs[0][2][0], B, depth + 1) if _callee(cs[0]).endswith(CONV) and cs[0][2] else None
    rv = ds[0]
    if rv[0] == 'use':
        return _field_origin(rec, rv[1], B, depth + 1)
    if rv[0] == 'cast':
        return _field_origin(rec, rv[2], B, depth + 1)
    if rv[0] == 'ref':
        return _field_origin(rec, ['c', rv[1]], B, depth + 1)
    return None


class Analysis:
    def __init__(self, facts, root_name='try_to_proto', decoder_marker='from_proto', encoder_crates=('datafusion_proto::', 'datafusion_proto_common::', '<datafusion_proto'),
                 ctx_marker='EncodeCtx', wire_markers=('::generated::', 'protobuf')):
        self.f = f = facts
        self.root_name, self.decoder_marker, self.encoder_crates, self.ctx_marker, self.wire_markers = root_name, decoder_marker, encoder_crates, ctx_marker, wire_markers
        self.roots = [d for d in f.fn_index if d.endswith('::' + root_name) and '{closure' not in d]
        self.owners = {}
        for e in self.roots:
            rec = f.fn(e)
            if rec is None:
                continue
            o = rec.get('impl_adt') or (e[1:].split(' as ')[0] if e.startswith('<') else e.rsplit('::', 1)[0])
            a = f.adts.get(o)
            if a and a['kind'] == 'struct' and not a.get('ext'):
                self.owners.setdefault(o, []).append(e)
        self.impls = collections.defaultdict(list)
        self.convs = collections.defaultdict(list)
        self.convs_all = set()
        self.by_adt = collections.defaultdict(list)
        for d0 in f.fn_index:
            m = re.match(r'^<(.+) as (.+)>::([A-Za-z_0-9]+)$', d0)
            if m and m.group(1) in self.owners:
                self.impls[m.group(2).split('<')[0] + '::' + m.group(3)].append(d0)
            m = re.search(r'<impl core::convert::(?:Try)?From<&?(.+)> for (.+)>::(?:try_)?from$', d0)
            src_wire = (m.group(1), m.group(2)) if m else None
            if not m:
                m = re.match(r'^<(.+) as core::convert::(?:Try)?From<&?(.+)>>::(?:try_)?from$', d0)
                src_wire = (m.group(2), m.group(1)) if m else None
            if src_wire and any(w in src_wire[1] for w in wire_markers):
                self.convs[src_wire[0]].append(d0)
                self.convs_all.add(d0)
        self._closures = collections.defaultdict(list)
        for d0 in f.fn_index:
            k = d0.find('::{closure')
            if k > 0:
                self._closures[d0[:k]].append(d0)
        self.reads = collections.defaultdict(set)
        self.encoder_fns = set()
        self._walk()

    # ---- encoder side --------------------------------------------------------------------------------------------------------------
    def _encside(self, c):
        return c.startswith(self.encoder_crates) or c.endswith('::' + self.root_name) or '::proto::' in c

    def _accessor(self, c):
        r2 = self.f.fn(c)
        if r2 is None or r2.get('impl_adt') not in self.owners:
            return False
        if re.match(r'^<.+ as (core|std|alloc)::', c):
            return False        # derived / std trait impls (Clone, PartialEq, Hash, Debug) touch every field by construction
        return all(self.ctx_marker in r2['locals'][i][0] for i in range(2, r2['argc'] + 1))

    def _targets(self, c, argtys=()):
        if c in ('<T as core::convert::Into<U>>::into', '<T as core::convert::TryInto<U>>::try_into'):
            out = []
            for t in argtys:
                out += self.convs.get(t.lstrip('&').replace('mut ', ''), [])
            return out
        if c in self.convs_all:
            return [c]
        if c in self.f.fn_index:
            return [c] if (self._encside(c) or self._accessor(c)) else []
        return [x for x in self.impls.get(c.split('<')[0] if not c.startswith('<') else c, ()) if self._accessor(x)]

    def _walk(self):
        f = self.f
        todo, seen, depth = list(self.roots), set(), {r: 0 for r in self.roots}
        while todo:
            d = todo.pop()
            if d in seen:
                continue
            seen.add(d)
            rec = f.fn(d)
            if rec is None:
                continue
            for k in self._closures.get(d, ()):
                if k not in seen:
                    todo.append(k)
                    depth[k] = depth[d]
            if depth[d] < 3:
                calls = []
                for b in rec['bb']:
                    t = b['t']
                    if t[0] == 'call' and isinstance(t[1], dict):
                        tys = [rec['locals'][o[1][0]][0] for o in t[2] if _is_place_op(o)]
                        calls.append((_callee(t), tys))
                for c in f.callees.get(d, ()):
                    calls.append((c, ()))
                for c, tys in calls:
                    if not c or self.decoder_marker in c:
                        continue
                    for c2 in self._targets(c, tys):
                        if c2 not in seen:
                            todo.append(c2)
                            # helper layers on the encoder side cost nothing; only hops into accessors / conversions are bounded
                            depth[c2] = depth[d] + (0 if self._encside(c2) else 1)

            def walk(x):
                if isinstance(x, list):
                    if len(x) == 2 and isinstance(x[0], int) and isinstance(x[1], list):
                        for p in x[1]:
                            if isinstance(p, list) and p and p[0] == 'f' and len(p) > 3 and p[3] in self.owners:
                                self.reads[p[3]].add(p[2])
                    for y in x:
                        walk(y)
            for b in rec['bb']:
                for st in b['s']:
                    walk(st)
                walk(b['t'])
        self.encoder_fns = seen

    # ---- primary fields ------------------------------------------------------------------------------------------------------------
    def _acc_pred(self, S):
        f = self.f

        def pred(nm):
            r2 = f.fn(nm) if nm in f.fn_index else None
            return r2 is not None and r2.get('impl_adt') == S and r2['argc'] == 1 and S in r2['locals'][1][0]
        return pred

    def primary(self, S):
        """field -> list of (constructor, parameter index, struct the constructor belongs to) that store the parameter in the field.
        Builder pattern: when a public method of another struct B builds S with field f copied from B.g (`FooBuilder::build`), the
        configuration fields of B map onto S: f inherits the constructors / setters that store a parameter in B.g."""
        f = self.f
        prim = collections.defaultdict(list)
        for fld, lst in self._primary_own(S).items():
            prim[fld] += [(c, p, S) for c, p in lst]
        for d in f.constructors.get(S, ()):
            rec = f.fn(d) if '{closure' not in d else None
            B = rec.get('impl_adt') if rec else None
            if not B or B == S or not rec.get('pub') or ' as ' in d or B not in f.adts or f.adts[B].get('ext') or f.adts[B]['kind'] != 'struct':
                continue
            bprim = None
            for b in rec['bb']:
                for st in b['s']:
                    if st[0] == '=' and st[2][0] == 'agg' and st[2][1][0] == 'adt' and st[2][1][1] == S:
                        for nm, o in zip(st[2][1][4], st[2][2]):
                            g = _field_origin(rec, o, B)
                            if g is None:
                                continue
                            bprim = bprim if bprim is not None else self._primary_own(B)
                            prim[nm] += [(c, p, B) for c, p in bprim.get(g, ())]
        return prim

    def _primary_own(self, S):
        f = self.f
        prim = collections.defaultdict(list)
        for d in f.fn_index:
            if not d.startswith(S + '::') or '{closure' in d:
                continue
            rec = f.fn(d)
            if rec is None or rec.get('impl_adt') != S or not rec.get('pub') or ' as ' in d:
                continue
            tags, op_tags = provenance(f, rec, S, self._acc_pred(S))
            selfp = set(p for p in range(1, rec['argc'] + 1) if rec['locals'][p][0].lstrip('&').replace('mut ', '') == S)

            def params(o):
                return sorted(t[1] for t in op_tags(o) if isinstance(t, tuple) and t[1] not in selfp)
            for b in rec['bb']:
                for s in b['s']:
                    if s[0] != '=':
                        continue
                    dst, rv = s[1], s[2]
                    if rv[0] == 'agg' and rv[1][0] == 'adt' and rv[1][1] == S:
                        for nm, o in zip(rv[1][4], rv[2]):
                            for p in params(o):
                                prim[nm].append((d, p))
                    elif dst[1] and isinstance(dst[1][-1], list) and dst[1][-1][0] == 'f' and len(dst[1][-1]) > 3 and dst[1][-1][3] == S and rv[0] == 'use':
                        for p in params(rv[1]):
                            prim[dst[1][-1][2]].append((d, p))
        return prim

    # ---- engine-set ----------------------------------------------------------------------------------------------------------------
    def engine_sets(self, S, fn, p, depth=0, seen=None):
        """-> a call site (caller, line) that supplies a computed value for parameter p of fn, or None"""
        f = self.f
        seen = seen if seen is not None else set()
        if (fn, p) in seen or depth > 3:
            return None
        seen.add((fn, p))
        for c in f.callers_of(fn):
            rec = f.fn(c)
            if rec is None or rec['crate'] in NON_ENGINE:
                continue
            tags, op_tags = provenance(f, rec, S, self._acc_pred(S))
            for b in rec['bb']:
                t = b['t']
                if t[0] != 'call' or _callee(t) != fn or len(t[2]) < p:
                    continue
                tg = op_tags(t[2][p - 1])
                if 'X' in tg:
                    return (c, t[5] if len(t) > 5 else 0)
                for x in tg:
                    if isinstance(x, tuple):
                        root = c.split('::{closure')[0]
                        if root != c:
                            continue        # a captured value of the enclosing function: provenance unknown here, be conservative (not engine-set)
                        r = self.engine_sets(S, c, x[1], depth + 1, seen)
                        if r:
                            return r
        return None


def direct_engine_store(an, S, fname):
    """a function of the engine that stores a computed value straight into S.fname (struct literal or assignment) without going through the
    public constructor / setter: `Self { batch_size: limit.or(self.batch_size), .. }` in a trait method the optimizer calls.  Values that are
    constants, copies of the same field of another S, or parameters of the public constructors themselves (handled by engine_sets) do not count."""
    f = an.f
    cands = set(f.constructors.get(S, ()))
    cands |= set(d for d in f.fn_index if (d.startswith(S + '::') or d.startswith('<' + S + ' as ')))
    for d in sorted(cands):
        if '{closure' in d:
            continue
        rec = f.fn(d)
        if rec is None or rec['crate'] in NON_ENGINE or re.match(r'^<.+ as (core|std|alloc)::', d):
            continue
        tags, op_tags = provenance(f, rec, S, an._acc_pred(S))
        pub_inherent = rec.get('impl_adt') == S and rec.get('pub') and ' as ' not in d
        for b in rec['bb']:
            for st in b['s']:
                if st[0] != '=':
                    continue
                dst, rv = st[1], st[2]
                ops = []
                if rv[0] == 'agg' and rv[1][0] == 'adt' and rv[1][1] == S:
                    ops = [o for nm, o in zip(rv[1][4], rv[2]) if nm == fname]
                elif dst[1] and isinstance(dst[1][-1], list) and dst[1][-1][0] == 'f' and len(dst[1][-1]) > 3 and dst[1][-1][3] == S and dst[1][-1][2] == fname and rv[0] == 'use':
                    ops = [rv[1]]
                for o in ops:
                    tg = op_tags(o)
                    line = st[3] if len(st) > 3 and isinstance(st[3], int) else 0
                    if 'X' in tg:
                        return (d, line)
                    for x in tg:
                        if isinstance(x, tuple) and not pub_inherent:
                            if ' as ' in d:
                                return (d, line)        # a parameter of a trait method: supplied by whoever drives the plan (optimizer rules)
                            r = an.engine_sets(S, d, x[1])
                            if r:
                                return r
    return None


def check(ctx, facts=None, rule='operator-encoder-reads-every-option', floor_structs=0, floor_primary=0, an=None, exempt=None, type_exempt=TYPE_EXEMPT, **kw):
    facts = facts or ctx.facts
    an = an or Analysis(facts, **kw)
    exempt = exempt or {}
    if not an.roots:
        ctx.lost(rule, 'functions named %s' % an.root_name)
        return 0, 0
    ctx.analysed_fns.update(d for d in an.encoder_fns if '{closure' not in d)
    n_struct = n_prim = bad = 0
    for S in sorted(an.owners):
        a = facts.adts[S]
        fields = a['variants'][0]['fields']
        short = S.rsplit('::', 1)[-1]
        rd = an.reads.get(S, set())
        if not rd:
            if fields:
                ctx.skip(rule, short, 'its encoder reads no field of it (a stateless marker, or a deliberate replacement of the whole node)')
            continue
        n_struct += 1
        prim = an.primary(S)
        struct_ok = True
        for fl in fields:
            fname, fty = fl[0], fl[1]
            inst = '%s.%s' % (short, fname)
            if fname not in prim:
                continue
            n_prim += 1
            if fname in rd:
                continue
            why = exempt.get((short, fname)) or next((w for pat, w in type_exempt if pat in fty), None)
            if why:
                ctx.ok(rule, inst, nontrivial=False, sample=None)
                continue
            # a parameter that the same constructor also stores in a field the encoder does read is on the wire through that field
            pairs = [cp for cp in prim[fname] if not any(cp[:2] in [x[:2] for x in prim[g]] for g in rd if g != fname)]
            if not pairs:
                ctx.ok(rule, inst, nontrivial=False, sample=None)
                continue
            site = None
            for ctor, p, owner in pairs:
                site = an.engine_sets(owner, ctor, p)
                if site:
                    break
            ctor = pairs[0][0].rsplit('::', 1)[-1]
            if not site:
                site = direct_engine_store(an, S, fname)
            if not site:
                ctx.skip(rule, inst, 'stored by %s() but never read by the encoder; no non-test code of the workspace passes a computed value there '
                         '(only constants or copies of the same field), so no plan the engine builds carries a non-default value' % ctor)
                continue
            bad += 1
            struct_ok = False
            srec = facts.fn(site[0])
            ctx.fail(rule, inst, ctx.loc(facts.fn(an.owners[S][0])), 'the field `%s` (%s) is configuration: %s() stores its parameter there and %s sets it from a computed value, but no '
                     'encoder-side function (try_to_proto, the proto crates, From<&%s> conversions, accessors they call) reads it: the option is not on the wire and the decoded '
                     'plan has lost it' % (fname, fty[-50:], ctor, ctx.loc(srec, site[1] or None), short), key='%s|%s' % (rule, inst))
        if struct_ok:
            ctx.ok(rule, short, sample={'struct': short, 'fields': len(fields), 'configuration_fields': sorted(k for k in prim if k in [x[0] for x in fields]),
                                        'read_by_encoder': sorted(rd)} if n_struct <= 6 else None)
    if floor_structs:
        ctx.floor(rule, 'structs with an encoder that reads them', n_struct, floor_structs)
    if floor_primary:
        ctx.floor(rule, 'configuration fields (constructor parameter stored in the field)', n_prim, floor_primary)
    return bad, n_struct
