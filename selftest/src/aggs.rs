//! seeded accumulator capability / arity violations
pub trait Accumulator {
    fn state(&mut self) -> Result<Vec<i64>, String>;
    fn merge_batch(&mut self, states: &[Vec<i64>]) -> Result<(), String>;
    fn retract_batch(&mut self, _v: &[i64]) -> Result<(), String> { Err("not implemented".into()) }
    fn supports_retract_batch(&self) -> bool { false }
}
/// seeded: claims retraction without implementing it
pub struct BadRetract { pub s: i64 }
impl Accumulator for BadRetract {
    fn state(&mut self) -> Result<Vec<i64>, String> { Ok(vec![self.s]) }
    fn merge_batch(&mut self, states: &[Vec<i64>]) -> Result<(), String> { self.s += states[0][0]; Ok(()) }
    fn supports_retract_batch(&self) -> bool { true }
}
/// seeded: writes 2 state values, merge reads index 2
pub struct BadArity { pub s: i64, pub c: i64 }
impl Accumulator for BadArity {
    fn state(&mut self) -> Result<Vec<i64>, String> { Ok(vec![self.s, self.c]) }
    fn merge_batch(&mut self, states: &[Vec<i64>]) -> Result<(), String> {
        self.s += states[0][0];
        self.c += states[2][0];
        Ok(())
    }
}

pub trait PartitionEvaluator {
    fn evaluate_all(&mut self, _n: usize) -> Result<Vec<i64>, String> { Err("ni".into()) }
    fn evaluate(&mut self, _r: (usize, usize)) -> Result<i64, String> { Err("ni".into()) }
    fn evaluate_all_with_rank(&self, _n: usize) -> Result<Vec<i64>, String> { Err("ni".into()) }
    fn supports_bounded_execution(&self) -> bool { false }
    fn uses_window_frame(&self) -> bool { false }
    fn include_rank(&self) -> bool { false }
}
/// seeded: rank function that forgot evaluate_all_with_rank
pub struct BadRank;
impl PartitionEvaluator for BadRank {
    fn include_rank(&self) -> bool { true }
    fn evaluate_all(&mut self, n: usize) -> Result<Vec<i64>, String> { Ok(vec![0; n]) }
}

/// filter-reaches-accumulator: seeded positive / negative
pub trait GroupsAcc {
    fn update_batch(&mut self, values: &[u32], groups: &[usize], opt_filter: Option<&[bool]>, total: usize);
    fn convert_to_state(&self, values: &[u32], opt_filter: Option<&[bool]>) -> Vec<u32>;
}
pub struct Args {
    pub arguments: Vec<u32>,
    pub filter: Option<Vec<bool>>,
}
pub fn good_convert(acc: &dyn GroupsAcc, a: &Args) -> Vec<u32> {
    let opt_filter = a.filter.as_ref().map(|f| f.as_slice());
    acc.convert_to_state(&a.arguments, opt_filter)
}
/// seeded: the FILTER never reaches the accumulator
pub fn bad_convert(acc: &dyn GroupsAcc, a: &Args) -> Vec<u32> {
    acc.convert_to_state(&a.arguments, None)
}

/// emit-siblings-agree
pub trait GAcc {
    fn update_batch(&mut self, v: &[u64], g: &[usize]);
    fn evaluate(&mut self, n: usize) -> Vec<u64>;
    fn state(&mut self, n: usize) -> Vec<u64>;
}
pub struct AvgGood {
    pub sums: Vec<u64>,
    pub counts: Vec<u64>,
}
impl GAcc for AvgGood {
    fn update_batch(&mut self, v: &[u64], g: &[usize]) {
        for (x, i) in v.iter().zip(g) {
            self.sums[*i] += x;
            self.counts[*i] += 1;
        }
    }
    fn evaluate(&mut self, n: usize) -> Vec<u64> {
        let s: Vec<u64> = self.sums.drain(..n).collect();
        let c: Vec<u64> = self.counts.drain(..n).collect();
        s.iter().zip(c).map(|(a, b)| a / b.max(1)).collect()
    }
    fn state(&mut self, n: usize) -> Vec<u64> {
        let mut s: Vec<u64> = self.sums.drain(..n).collect();
        s.extend(self.counts.drain(..n));
        s
    }
}
/// seeded: state() forgets to drain the counts
pub struct AvgBad {
    pub sums: Vec<u64>,
    pub counts: Vec<u64>,
}
impl GAcc for AvgBad {
    fn update_batch(&mut self, v: &[u64], g: &[usize]) {
        for (x, i) in v.iter().zip(g) {
            self.sums[*i] += x;
            self.counts[*i] += 1;
        }
    }
    fn evaluate(&mut self, n: usize) -> Vec<u64> {
        let s: Vec<u64> = self.sums.drain(..n).collect();
        let c: Vec<u64> = self.counts.drain(..n).collect();
        s.iter().zip(c).map(|(a, b)| a / b.max(1)).collect()
    }
    fn state(&mut self, n: usize) -> Vec<u64> {
        let mut s: Vec<u64> = self.sums.drain(..n).collect();
        s.extend(self.counts.iter().take(n));
        s
    }
}
