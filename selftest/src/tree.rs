//! seeded recursion-contract violation
#[derive(Clone, Copy, PartialEq, Eq, Debug)]
pub enum Tnr { Continue, Jump, Stop }
impl Tnr {
    /// seeded: Jump must skip the children
    pub fn bad_visit_children<F: FnOnce() -> Result<Tnr, String>>(self, f: F) -> Result<Tnr, String> {
        match self {
            Tnr::Continue | Tnr::Jump => f(),
            Tnr::Stop => Ok(self),
        }
    }
}
