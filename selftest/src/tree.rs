//! seeded recursion-contract violation
#[derive(Clone, Copy, PartialEq, Eq, Debug)]
pub enum Tnr { Continue, Jump, Stop }
impl Tnr {
    /// seeded: Jump must skip the children
    pub fn bad_visit_children<F: FnOnce() -> Result<Tnr, String>>(self, f: F) -> Result<Tnr, String> {
        match self {
            Tnr::Continue | Tnr::Jump => f(),
            Tnr::Stop => Ok(self),
        }
    }
}

/// seeded positives/negatives for children-result-propagated
pub mod tree_node {
    use super::Tnr;
    pub struct Transformed<T> {
        pub data: T,
        pub transformed: bool,
        pub tnr: Tnr,
    }
    impl<T> Transformed<T> {
        pub fn new(data: T, transformed: bool, tnr: Tnr) -> Self {
            Transformed { data, transformed, tnr }
        }
        pub fn no(data: T) -> Self {
            Transformed::new(data, false, Tnr::Continue)
        }
    }
    pub struct Node {
        pub kids: Vec<u32>,
    }
    pub fn map_kids(kids: &[u32]) -> Result<Transformed<Vec<u32>>, String> {
        Ok(Transformed::no(kids.to_vec()))
    }
    /// negative: the unchanged branch keeps the children's recursion value
    pub fn good_map_children(n: Node) -> Result<Transformed<Node>, String> {
        if n.kids.is_empty() {
            return Ok(Transformed::no(n));
        }
        let r = map_kids(&n.kids)?;
        if r.transformed {
            Ok(Transformed::new(Node { kids: r.data }, true, r.tnr))
        } else {
            Ok(Transformed::new(n, false, r.tnr))
        }
    }
    /// seeded: the unchanged branch forgets the children's Stop/Jump
    pub fn bad_map_children(n: Node) -> Result<Transformed<Node>, String> {
        if n.kids.is_empty() {
            return Ok(Transformed::no(n));
        }
        let r = map_kids(&n.kids)?;
        if !r.transformed {
            return Ok(Transformed::no(n));
        }
        Ok(Transformed::new(Node { kids: r.data }, true, r.tnr))
    }
}
