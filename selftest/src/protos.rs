//! seeded positives/negatives for the encoder/decoder coverage rules
pub mod generated {
    #[derive(Default, Clone)]
    pub struct LimitNode {
        pub skip: u64,
        pub fetch: Option<u64>,
        pub tag: String,
    }
    #[derive(Default, Clone)]
    pub struct TopkNode {
        pub descending: Option<bool>,
        pub nullable: Option<bool>,
    }
    #[derive(Default, Clone)]
    pub struct SortNode {
        pub fetch: Option<u64>,
        pub preserve: bool,
    }
}
use generated::*;

pub struct GoodLimit {
    pub skip: u64,
    pub fetch: Option<u64>,
    pub tag: String,
}
impl GoodLimit {
    pub fn try_to_proto(&self) -> LimitNode {
        LimitNode { skip: self.skip, fetch: self.fetch, tag: self.tag.clone() }
    }
    pub fn try_from_proto(n: &LimitNode) -> GoodLimit {
        GoodLimit { skip: n.skip, fetch: n.fetch, tag: n.tag.clone() }
    }
}

/// seeded: the encoder drops `fetch` (writes None)
pub struct BadEncLimit {
    pub skip: u64,
    pub fetch: Option<u64>,
    pub tag: String,
}
impl BadEncLimit {
    pub fn try_to_proto(&self) -> LimitNode {
        LimitNode { skip: self.skip, fetch: None, tag: self.tag.clone() }
    }
    pub fn try_from_proto(n: &LimitNode) -> BadEncLimit {
        BadEncLimit { skip: n.skip, fetch: n.fetch, tag: n.tag.clone() }
    }
}

/// seeded: the decoder ignores `preserve`
pub struct BadDecSort {
    pub fetch: Option<u64>,
    pub preserve: bool,
}
impl BadDecSort {
    pub fn try_to_proto(&self) -> SortNode {
        SortNode { fetch: self.fetch, preserve: self.preserve }
    }
    pub fn try_from_proto(n: &SortNode) -> BadDecSort {
        BadDecSort { fetch: n.fetch, preserve: false }
    }
}

pub mod generated2 {}
/// default-collapse rule
pub struct Topk {
    pub descending: Option<bool>,
    pub nullable: bool,
}
impl Topk {
    pub fn try_to_proto(&self) -> generated::TopkNode {
        generated::TopkNode { descending: self.descending, nullable: Some(self.nullable) }
    }
    /// seeded: None and Some(false) collapse although the encoder passes the Option through
    pub fn try_from_proto(n: &generated::TopkNode) -> Topk {
        Topk { descending: Some(n.descending.unwrap_or_default()), nullable: n.nullable.unwrap_or(true) }
    }
}
