//! seeded positives/negatives for the encoder/decoder coverage rules
pub mod generated {
    #[derive(Default, Clone)]
    pub struct LimitNode {
        pub skip: u64,
        pub fetch: Option<u64>,
        pub tag: String,
    }
    #[derive(Default, Clone)]
    pub struct TopkNode {
        pub descending: Option<bool>,
        pub nullable: Option<bool>,
    }
    #[derive(Default, Clone)]
    pub struct SortNode {
        pub fetch: Option<u64>,
        pub preserve: bool,
    }
}
use generated::*;

pub struct GoodLimit {
    pub skip: u64,
    pub fetch: Option<u64>,
    pub tag: String,
}
impl GoodLimit {
    pub fn try_to_proto(&self) -> LimitNode {
        LimitNode { skip: self.skip, fetch: self.fetch, tag: self.tag.clone() }
    }
    pub fn try_from_proto(n: &LimitNode) -> GoodLimit {
        GoodLimit { skip: n.skip, fetch: n.fetch, tag: n.tag.clone() }
    }
}

/// seeded: the encoder drops `fetch` (writes None)
pub struct BadEncLimit {
    pub skip: u64,
    pub fetch: Option<u64>,
    pub tag: String,
}
impl BadEncLimit {
    pub fn try_to_proto(&self) -> LimitNode {
        LimitNode { skip: self.skip, fetch: None, tag: self.tag.clone() }
    }
    pub fn try_from_proto(n: &LimitNode) -> BadEncLimit {
        BadEncLimit { skip: n.skip, fetch: n.fetch, tag: n.tag.clone() }
    }
}

/// seeded: the decoder ignores `preserve`
pub struct BadDecSort {
    pub fetch: Option<u64>,
    pub preserve: bool,
}
impl BadDecSort {
    pub fn try_to_proto(&self) -> SortNode {
        SortNode { fetch: self.fetch, preserve: self.preserve }
    }
    pub fn try_from_proto(n: &SortNode) -> BadDecSort {
        BadDecSort { fetch: n.fetch, preserve: false }
    }
}

pub mod generated2 {}
/// default-collapse rule
pub struct Topk {
    pub descending: Option<bool>,
    pub nullable: bool,
}
impl Topk {
    pub fn try_to_proto(&self) -> generated::TopkNode {
        generated::TopkNode { descending: self.descending, nullable: Some(self.nullable) }
    }
    /// seeded: None and Some(false) collapse although the encoder passes the Option through
    pub fn try_from_proto(n: &generated::TopkNode) -> Topk {
        Topk { descending: Some(n.descending.unwrap_or_default()), nullable: n.nullable.unwrap_or(true) }
    }
}

/// source-struct coverage and oneof tag round trip (C35): seeded positives / negatives
pub mod lp {
    pub struct Scan {
        pub name: String,
        pub fetch: Option<usize>,
    }
    pub struct Sort {
        pub key: String,
        pub asc: bool,
    }
    pub enum Plan {
        Scan(Scan),
        Sort(Sort),
        IsTrue(Box<Plan>),
        IsFalse(Box<Plan>),
    }
    pub struct ScanMsg {
        pub name: String,
    }
    pub struct SortMsg {
        pub key: String,
        pub asc: bool,
    }
    pub enum Wire {
        Scan(ScanMsg),
        Sort(SortMsg),
        IsTrue(Box<Wire>),
        IsFalse(Box<Wire>),
    }
    /// seeded: Scan.fetch is never read
    pub fn encode(p: &Plan) -> Result<Wire, String> {
        match p {
            Plan::Scan(Scan { name, .. }) => Ok(Wire::Scan(ScanMsg { name: name.clone() })),
            Plan::Sort(Sort { key, asc }) => Ok(Wire::Sort(SortMsg { key: key.clone(), asc: *asc })),
            Plan::IsTrue(c) => Ok(Wire::IsTrue(Box::new(encode(c)?))),
            Plan::IsFalse(c) => Ok(Wire::IsFalse(Box::new(encode(c)?))),
        }
    }
    fn unary(c: &Wire, make: fn(Box<Plan>) -> Plan) -> Result<Plan, String> {
        Ok(make(Box::new(decode(c)?)))
    }
    /// seeded: the arm for IsFalse builds IsTrue
    pub fn decode(w: &Wire) -> Result<Plan, String> {
        match w {
            Wire::Scan(m) => Ok(Plan::Scan(Scan { name: m.name.clone(), fetch: None })),
            Wire::Sort(m) => Ok(Plan::Sort(Sort { key: m.key.clone(), asc: m.asc })),
            Wire::IsTrue(c) => unary(c, Plan::IsTrue),
            Wire::IsFalse(c) => unary(c, Plan::IsTrue),
        }
    }
}
