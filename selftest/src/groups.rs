//! seeded positives/negatives for the C13 reset-agreement rule
pub trait Store {
    fn intern(&mut self, keys: &[Option<u32>], out: &mut Vec<usize>);
    fn emit(&mut self) -> Vec<Option<u32>>;
    fn clear_shrink(&mut self, n: usize);
    fn len(&self) -> usize;
}
pub struct Good {
    pub values: Vec<Option<u32>>,
    pub null_group: Option<usize>,
    pub scratch: Vec<u64>,
}
impl Store for Good {
    fn intern(&mut self, keys: &[Option<u32>], out: &mut Vec<usize>) {
        self.scratch.clear();
        out.clear();
        for k in keys {
            match k {
                None => out.push(*self.null_group.get_or_insert_with(|| {
                    self.values.push(None);
                    self.values.len() - 1
                })),
                Some(v) => {
                    self.scratch.push(*v as u64);
                    self.values.push(Some(*v));
                    out.push(self.values.len() - 1)
                }
            }
        }
    }
    fn emit(&mut self) -> Vec<Option<u32>> {
        self.null_group.take();
        std::mem::take(&mut self.values)
    }
    fn clear_shrink(&mut self, n: usize) {
        self.values.clear();
        self.values.shrink_to(n);
        self.null_group = None;
    }
    fn len(&self) -> usize {
        self.values.len()
    }
}
/// seeded: clear forgets the NULL group that emit resets
pub struct Bad {
    pub values: Vec<Option<u32>>,
    pub null_group: Option<usize>,
}
impl Store for Bad {
    fn intern(&mut self, keys: &[Option<u32>], out: &mut Vec<usize>) {
        out.clear();
        for k in keys {
            match k {
                None => out.push(*self.null_group.get_or_insert_with(|| {
                    self.values.push(None);
                    self.values.len() - 1
                })),
                Some(v) => {
                    self.values.push(Some(*v));
                    out.push(self.values.len() - 1)
                }
            }
        }
    }
    fn emit(&mut self) -> Vec<Option<u32>> {
        self.null_group.take();
        std::mem::take(&mut self.values)
    }
    fn clear_shrink(&mut self, n: usize) {
        self.values.clear();
        self.values.shrink_to(n);
    }
    fn len(&self) -> usize {
        self.values.len()
    }
}
