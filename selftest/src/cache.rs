//! seeded cache-accounting violations
use std::collections::HashMap;

pub trait CacheKey { fn size(&self) -> usize; }
pub trait CacheValue { fn size(&self) -> usize; }
impl CacheKey for String { fn size(&self) -> usize { self.len() } }
impl CacheValue for Vec<u8> { fn size(&self) -> usize { self.len() } }

pub struct Entry { pub value: Vec<u8> }
pub struct LruQueue { pub m: HashMap<String, Entry> }
impl LruQueue {
    pub fn put(&mut self, k: String, e: Entry) -> Option<Entry> { self.m.insert(k, e) }
    pub fn remove(&mut self, k: &String) -> Option<Entry> { self.m.remove(k) }
}

pub struct State { pub lru_queue: LruQueue, pub memory_used: usize, pub memory_limit: usize }

impl State {
    fn evict_entries(&mut self) {}
    /// seeded: the replaced entry's key size is not subtracted
    pub fn put(&mut self, key: &String, value: Vec<u8>) -> Option<Vec<u8>> {
        let value_size = value.size();
        let key_size = key.size();
        let total_size = key_size + value_size;
        let entry = Entry { value };
        self.memory_used += total_size;
        let old = self.lru_queue.put(key.clone(), entry);
        if let Some(old_entry) = &old {
            self.memory_used -= old_entry.value.size();
        }
        self.evict_entries();
        old.map(|v| v.value)
    }
    /// seeded: forgets the value size
    pub fn remove(&mut self, key: &String) -> Option<Vec<u8>> {
        let entry = self.lru_queue.remove(key)?;
        self.memory_used -= key.size();
        Some(entry.value)
    }
}

pub struct Meta { pub size: u64, pub last_modified: u64 }
pub struct Cached { pub meta: Meta }
impl Cached {
    /// seeded: ignores last_modified
    pub fn is_valid_for(&self, current_meta: &Meta) -> bool {
        self.meta.size == current_meta.size
    }
}

/// expiry stamp: seeded positive (re-stamping existing entries)
pub struct Timed {
    pub value: Vec<u8>,
    pub expires: Option<std::time::Instant>,
}
pub struct TimedCache {
    pub m: HashMap<String, Timed>,
    pub ttl: Option<std::time::Duration>,
}
impl TimedCache {
    pub fn put(&mut self, k: String, value: Vec<u8>, now: std::time::Instant) {
        let expires = self.ttl.map(|t| now + t);
        self.m.insert(k, Timed { value, expires });
    }
    /// seeded: the TTL clock of entries already cached is restarted
    pub fn update_ttl(&mut self, ttl: std::time::Duration, now: std::time::Instant) {
        self.ttl = Some(ttl);
        for e in self.m.values_mut() {
            e.expires = Some(now + ttl);
        }
    }
}
