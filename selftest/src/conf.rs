//! seeded config namespace: `visit` forgets a key that `set` accepts; reset writes the wrong field
pub trait Visit { fn some(&mut self, key: &str, value: String); }
pub struct Opts { pub batch_size: usize, pub target_partitions: usize, pub coalesce: bool }
impl Opts {
    pub fn set(&mut self, key: &str, value: &str) -> Result<(), String> {
        match key {
            "batch_size" => { self.batch_size = value.parse().map_err(|_| "bad".to_string())?; Ok(()) }
            "target_partitions" => { self.target_partitions = value.parse().map_err(|_| "bad".to_string())?; Ok(()) }
            "coalesce" => { self.coalesce = value.parse().map_err(|_| "bad".to_string())?; Ok(()) }
            _ => Err(format!("Config value \"{}\" not found", key)),
        }
    }
    pub fn visit<V: Visit>(&self, v: &mut V, key_prefix: &str) {
        let key = format!("{}.batch_size", key_prefix);
        v.some(key.as_str(), self.batch_size.to_string());
        let key = format!("{}.target_partitions", key_prefix);
        v.some(key.as_str(), self.target_partitions.to_string());
    }
}

/// invalid-text-not-defaulted: seeded positive / negative
pub fn good_transform(value: &str) -> String {
    if value.parse::<usize>() == Ok(0) { "8".to_string() } else { value.to_string() }
}
/// seeded: unparsable text silently becomes the default
pub fn bad_transform(value: &str) -> String {
    match value.parse::<usize>().unwrap_or_default() {
        0 => "8".to_string(),
        _ => value.to_string(),
    }
}
