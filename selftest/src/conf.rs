//! seeded config namespace: `visit` forgets a key that `set` accepts; reset writes the wrong field
pub trait Visit { fn some(&mut self, key: &str, value: String); }
pub struct Opts { pub batch_size: usize, pub target_partitions: usize, pub coalesce: bool }
impl Opts {
    pub fn set(&mut self, key: &str, value: &str) -> Result<(), String> {
        match key {
            "batch_size" => { self.batch_size = value.parse().map_err(|_| "bad".to_string())?; Ok(()) }
            "target_partitions" => { self.target_partitions = value.parse().map_err(|_| "bad".to_string())?; Ok(()) }
            "coalesce" => { self.coalesce = value.parse().map_err(|_| "bad".to_string())?; Ok(()) }
            _ => Err(format!("Config value \"{}\" not found", key)),
        }
    }
    pub fn visit<V: Visit>(&self, v: &mut V, key_prefix: &str) {
        let key = format!("{}.batch_size", key_prefix);
        v.some(key.as_str(), self.batch_size.to_string());
        let key = format!("{}.target_partitions", key_prefix);
        v.some(key.as_str(), self.target_partitions.to_string());
    }
}

/// invalid-text-not-defaulted: seeded positive / negative
pub fn good_transform(value: &str) -> String {
    if value.parse::<usize>() == Ok(0) { "8".to_string() } else { value.to_string() }
}
/// seeded: unparsable text silently becomes the default
pub fn bad_transform(value: &str) -> String {
    match value.parse::<usize>().unwrap_or_default() {
        0 => "8".to_string(),
        _ => value.to_string(),
    }
}

/// set-atomic: seeded positive / negatives
pub trait Field {
    fn set(&mut self, key: &str, value: &str) -> Result<(), String>;
}
impl Field for usize {
    fn set(&mut self, _key: &str, value: &str) -> Result<(), String> {
        *self = value.parse().map_err(|_| "bad".to_string())?;
        Ok(())
    }
}
pub struct Lazy<F>(pub Option<F>);
pub struct Careful<F>(pub Option<F>);
/// seeded: the slot is filled with the default before the inner set can fail
impl<F: Field + Default> Field for Lazy<F> {
    fn set(&mut self, key: &str, value: &str) -> Result<(), String> {
        self.0.get_or_insert_with(Default::default).set(key, value)
    }
}
/// correct: the new value is only stored once it has been accepted
impl<F: Field + Default> Field for Careful<F> {
    fn set(&mut self, key: &str, value: &str) -> Result<(), String> {
        match &mut self.0 {
            Some(inner) => inner.set(key, value),
            None => {
                let mut inner = F::default();
                inner.set(key, value)?;
                self.0 = Some(inner);
                Ok(())
            }
        }
    }
}
