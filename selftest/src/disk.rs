//! seeded copies of the two disk-accounting defects (pre-fix shapes)
use std::io::Write;
use std::sync::atomic::{AtomicU64, AtomicUsize, Ordering};
use std::sync::Arc;

pub struct Dm {
    pub used_disk_space: AtomicU64,
    pub max_temp_directory_size: AtomicU64,
    pub active_files_count: AtomicUsize,
}

impl Dm {
    pub fn max_temp_directory_size(&self) -> u64 {
        self.max_temp_directory_size.load(Ordering::Relaxed)
    }
    /// seeded: increments before the fallible creation
    pub fn bad_create_tmp_file(self: &Arc<Self>, _d: &str) -> Result<RefCountedTempFile, std::io::Error> {
        self.active_files_count.fetch_add(1, Ordering::Relaxed);
        let f = std::fs::File::create("/nonexistent/x")?;
        Ok(RefCountedTempFile { file: f, disk_manager: Arc::clone(self) })
    }
}

pub struct RefCountedTempFile {
    pub file: std::fs::File,
    pub disk_manager: Arc<Dm>,
}

pub struct BadWriter {
    pub file: std::fs::File,
    pub disk_manager: Arc<Dm>,
    pub current_file_disk_usage: Arc<AtomicU64>,
}

impl Write for BadWriter {
    /// seeded: `write_all(..)?` exit leaves the global charge behind
    fn write(&mut self, buf: &[u8]) -> std::io::Result<usize> {
        let len = buf.len() as u64;
        if len == 0 {
            return Ok(0);
        }
        let new_global = self.disk_manager.used_disk_space.fetch_add(len, Ordering::Relaxed) + len;
        let limit = self.disk_manager.max_temp_directory_size();
        if new_global > limit {
            self.disk_manager.used_disk_space.fetch_sub(len, Ordering::Relaxed);
            return Err(std::io::Error::other("limit"));
        }
        self.file.write_all(buf)?;
        self.current_file_disk_usage.fetch_add(len, Ordering::Relaxed);
        Ok(buf.len())
    }
    fn flush(&mut self) -> std::io::Result<()> {
        self.file.flush()
    }
}
