//! seeded exchange-channel protocol violations
use std::collections::VecDeque;
use std::sync::Mutex;
use std::task::{Context, Poll, Waker};

pub struct ChannelState { pub data: Option<VecDeque<u32>>, pub recv_wakers: Option<Vec<Waker>> }
pub struct Chan { pub state: Mutex<ChannelState>, pub id: usize }
pub struct Gate { pub send_wakers: Mutex<Option<Vec<(Waker, usize)>>> }

pub struct Send<'a> { pub channel: &'a Chan, pub gate: &'a Gate }

impl Send<'_> {
    /// seeded: inverted lock order (send_wakers, then state)
    pub fn bad_order(&self) -> usize {
        let g = self.gate.send_wakers.lock().unwrap();
        let s = self.channel.state.lock().unwrap();
        g.as_ref().map_or(0, |v| v.len()) + s.data.as_ref().map_or(0, |d| d.len())
    }
    /// seeded: the blocking condition is read under the guard, the guard is released, then the waker is pushed
    pub fn bad_poll(&mut self, cx: &mut Context<'_>) -> Poll<()> {
        let full = {
            let s = self.channel.state.lock().unwrap();
            s.data.as_ref().map_or(true, |d| d.len() > 3)
        };
        if full {
            let mut list: Vec<(Waker, usize)> = Vec::new();
            list.push((cx.waker().clone(), self.channel.id));
            return Poll::Pending;
        }
        Poll::Ready(())
    }
    /// seeded: takes the receiver wakers and drops them
    pub fn bad_take_and_drop(&self) {
        let taken = {
            let mut s = self.channel.state.lock().unwrap();
            s.recv_wakers.take()
        };
        let _ = taken;
    }
}
