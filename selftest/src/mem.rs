//! seeded memory-accounting violations
use std::sync::atomic::{AtomicUsize, Ordering};
use std::sync::Arc;

pub trait Pool {
    fn grow(&self, r: &Reservation, additional: usize);
    fn shrink(&self, r: &Reservation, shrink: usize);
    fn try_grow(&self, r: &Reservation, additional: usize) -> Result<(), String>;
    fn reserved(&self) -> usize;
}

pub struct Reservation { pub pool: Arc<dyn Pool>, pub size: AtomicUsize }

impl Reservation {
    /// seeded: size is bumped before the fallible pool call
    pub fn try_grow(&self, capacity: usize) -> Result<(), String> {
        self.size.fetch_add(capacity, Ordering::Relaxed);
        self.pool.try_grow(self, capacity)?;
        Ok(())
    }
    pub fn grow(&self, capacity: usize) {
        self.pool.grow(self, capacity);
        self.size.fetch_add(capacity, Ordering::Relaxed);
    }
}

pub struct BadPool { pub limit: usize, pub used: AtomicUsize }

impl Pool for BadPool {
    fn grow(&self, _r: &Reservation, additional: usize) { self.used.fetch_add(additional, Ordering::Relaxed); }
    fn shrink(&self, _r: &Reservation, shrink: usize) { self.used.fetch_sub(shrink, Ordering::Relaxed); }
    /// seeded: charge stays when the limit is exceeded
    fn try_grow(&self, _r: &Reservation, additional: usize) -> Result<(), String> {
        let new = self.used.fetch_add(additional, Ordering::Relaxed) + additional;
        if new > self.limit {
            return Err("limit".into());
        }
        Ok(())
    }
    fn reserved(&self) -> usize { self.used.load(Ordering::Relaxed) }
}

pub struct BadWrapper { pub inner: Arc<dyn Pool>, pub tracked: AtomicUsize }

impl Pool for BadWrapper {
    fn grow(&self, r: &Reservation, additional: usize) { self.inner.grow(r, additional); self.tracked.fetch_add(additional, Ordering::Relaxed); }
    fn shrink(&self, r: &Reservation, shrink: usize) { self.inner.shrink(r, shrink); self.tracked.fetch_sub(shrink, Ordering::Relaxed); }
    /// seeded: tracks before delegating; a failed inner try_grow leaves the tracking bumped
    fn try_grow(&self, r: &Reservation, additional: usize) -> Result<(), String> {
        self.tracked.fetch_add(additional, Ordering::Relaxed);
        self.inner.try_grow(r, additional)?;
        Ok(())
    }
    fn reserved(&self) -> usize { self.inner.reserved() }
}
