//! operator-encoder-reads-every-option (C36): seeded positive and negatives for rules/srcfields.py
pub struct EncodeCtx;
pub struct NodeMsg {
    pub path: String,
    pub limit: u32,
}
pub struct Conf {
    pub array: bool,
    pub hint: usize,
}

/// negative: both configuration fields are read (one through an accessor); `cache` is derived
pub struct GoodScan {
    path: String,
    limit: usize,
    cache: usize,
}
impl GoodScan {
    pub fn new(path: String, limit: usize) -> Self {
        let cache = path.len() + limit;
        Self { path, limit, cache }
    }
    pub fn limit(&self) -> usize {
        self.limit
    }
    pub fn cache(&self) -> usize {
        self.cache
    }
    pub fn try_to_proto(&self, _c: &EncodeCtx) -> NodeMsg {
        NodeMsg { path: self.path.clone(), limit: self.limit() as u32 }
    }
}

/// positive: `array_mode` is stored by a builder, the planner sets it from the configuration, the encoder never reads it.
/// negatives on the same struct: `strict` is only ever set to a constant (no engine-built plan differs from the default);
/// `twin` receives the same parameter as `path`, which the encoder reads.
pub struct BadScan {
    path: String,
    twin: String,
    array_mode: bool,
    strict: bool,
}
impl BadScan {
    pub fn new(path: String) -> Self {
        Self { twin: path.clone(), path, array_mode: false, strict: false }
    }
    pub fn with_array_mode(mut self, m: bool) -> Self {
        self.array_mode = m;
        self
    }
    pub fn with_strict(mut self, s: bool) -> Self {
        self.strict = s;
        self
    }
    pub fn array_mode(&self) -> bool {
        self.array_mode
    }
    pub fn strict(&self) -> bool {
        self.strict
    }
    pub fn twin(&self) -> &str {
        &self.twin
    }
    pub fn try_to_proto(&self, _c: &EncodeCtx) -> NodeMsg {
        NodeMsg { path: self.path.clone(), limit: 0 }
    }
}

/// negative: `hint` is forwarded through a wrapper, the wrapper's only caller passes a copy of the same field of another BadHint
pub struct Hinted {
    path: String,
    hint: Option<usize>,
}
impl Hinted {
    pub fn new(path: String, hint: Option<usize>) -> Self {
        Self { path, hint }
    }
    pub fn hint(&self) -> Option<usize> {
        self.hint
    }
    pub fn try_to_proto(&self, _c: &EncodeCtx) -> NodeMsg {
        NodeMsg { path: self.path.clone(), limit: 1 }
    }
}
pub fn hinted(path: String, hint: Option<usize>) -> Hinted {
    Hinted::new(path, hint)
}
pub fn rebuild(old: &Hinted, path: String) -> Hinted {
    hinted(path, old.hint())
}
pub fn fresh(path: String) -> Hinted {
    hinted(path, None)
}

pub fn plan(conf: &Conf, p: String) -> BadScan {
    BadScan::new(p).with_array_mode(conf.array).with_strict(false)
}
pub fn plan_good(conf: &Conf, p: String) -> GoodScan {
    GoodScan::new(p, conf.hint)
}

/// builder pattern, positive: `level` is stored by a setter of the builder, copied into the operator by `build()`, set by the planner
/// from the configuration, and never read by the operator's encoder.  `verbose` (same route) is read: negative.
pub struct Report {
    verbose: bool,
    level: u8,
    input: String,
}
pub struct ReportBuilder {
    verbose: bool,
    level: u8,
    input: String,
}
impl ReportBuilder {
    pub fn new(input: String) -> Self {
        Self { verbose: false, level: 2, input }
    }
    pub fn with_level(mut self, level: u8) -> Self {
        self.level = level;
        self
    }
    pub fn with_verbose(mut self, verbose: bool) -> Self {
        self.verbose = verbose;
        self
    }
    pub fn build(self) -> Report {
        Report { verbose: self.verbose, level: self.level, input: self.input }
    }
}
impl Report {
    pub fn level(&self) -> u8 {
        self.level
    }
    pub fn try_to_proto(&self, _c: &EncodeCtx) -> NodeMsg {
        NodeMsg { path: self.input.clone(), limit: self.verbose as u32 }
    }
}
pub fn plan_report(conf: &Conf, p: String) -> Report {
    ReportBuilder::new(p).with_level(conf.hint as u8).with_verbose(conf.array).build()
}
