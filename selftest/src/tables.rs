#[derive(Clone, Copy, PartialEq, Eq, Debug)]
pub enum Jt { Inner, Left, Right, Full }

impl Jt {
    pub fn swap(&self) -> Jt {
        match self {
            Jt::Inner => Jt::Inner,
            Jt::Left => Jt::Right,
            Jt::Right => Jt::Left,
            Jt::Full => Jt::Full,
        }
    }
    /// seeded: not an involution
    pub fn bad_swap(&self) -> Jt {
        match self {
            Jt::Inner => Jt::Inner,
            Jt::Left => Jt::Right,
            Jt::Right => Jt::Right,
            Jt::Full => Jt::Full,
        }
    }
    pub fn preserved(self) -> (bool, bool) {
        match self {
            Jt::Inner => (true, true),
            Jt::Left => (true, false),
            Jt::Right => (false, true),
            Jt::Full => (false, false),
        }
    }
    pub fn is_outer(self) -> bool {
        matches!(self, Jt::Left | Jt::Right | Jt::Full)
    }
    pub fn via_helper(self) -> bool {
        self.swap() == Jt::Left || self == Jt::Full
    }
    pub fn name(self) -> &'static str {
        match self { Jt::Inner => "inner", Jt::Left => "left", Jt::Right => "right", Jt::Full => "full" }
    }
    pub fn parse(s: &str) -> Option<Jt> {
        match s.to_lowercase().as_str() {
            "inner" => Some(Jt::Inner),
            "left" => Some(Jt::Left),
            "right" => Some(Jt::Right),
            "full" => Some(Jt::Full),
            _ => None,
        }
    }
}
