#[derive(Clone, Copy, PartialEq, Eq, Debug)]
pub enum Jt { Inner, Left, Right, Full }

impl Jt {
    pub fn swap(&self) -> Jt {
        match self {
            Jt::Inner => Jt::Inner,
            Jt::Left => Jt::Right,
            Jt::Right => Jt::Left,
            Jt::Full => Jt::Full,
        }
    }
    /// seeded: not an involution
    pub fn bad_swap(&self) -> Jt {
        match self {
            Jt::Inner => Jt::Inner,
            Jt::Left => Jt::Right,
            Jt::Right => Jt::Right,
            Jt::Full => Jt::Full,
        }
    }
    pub fn preserved(self) -> (bool, bool) {
        match self {
            Jt::Inner => (true, true),
            Jt::Left => (true, false),
            Jt::Right => (false, true),
            Jt::Full => (false, false),
        }
    }
    pub fn is_outer(self) -> bool {
        matches!(self, Jt::Left | Jt::Right | Jt::Full)
    }
    pub fn via_helper(self) -> bool {
        self.swap() == Jt::Left || self == Jt::Full
    }
    pub fn name(self) -> &'static str {
        match self { Jt::Inner => "inner", Jt::Left => "left", Jt::Right => "right", Jt::Full => "full" }
    }
    pub fn parse(s: &str) -> Option<Jt> {
        match s.to_lowercase().as_str() {
            "inner" => Some(Jt::Inner),
            "left" => Some(Jt::Left),
            "right" => Some(Jt::Right),
            "full" => Some(Jt::Full),
            _ => None,
        }
    }
}

#[derive(Clone, Copy, PartialEq, Eq, Debug, Hash)]
pub enum JoinType { Inner, Left, Right, Full, LeftSemi, RightSemi, LeftAnti, RightAnti, LeftMark, RightMark }

/// seeded: a Left join becomes Inner when only the LEFT side is null-rejected (wrong side)
pub fn bad_eliminate_outer(join_type: JoinType, left_non_nullable: bool, right_non_nullable: bool) -> JoinType {
    let mut new_join_type = join_type;
    match join_type {
        JoinType::Left => {
            if left_non_nullable {
                new_join_type = JoinType::Inner;
            }
        }
        JoinType::Right => {
            if left_non_nullable {
                new_join_type = JoinType::Inner;
            }
        }
        JoinType::Full => {
            if left_non_nullable && right_non_nullable {
                new_join_type = JoinType::Inner;
            } else if left_non_nullable {
                new_join_type = JoinType::Left;
            } else if right_non_nullable {
                new_join_type = JoinType::Right;
            }
        }
        _ => {}
    }
    new_join_type
}

/// seeded: claims the build side never needs a final pass for LeftAnti
pub fn bad_need_produce_result_in_final(join_type: JoinType) -> bool {
    matches!(join_type, JoinType::Left | JoinType::Full | JoinType::LeftSemi | JoinType::LeftMark)
}

/// seeded: right side of a Left join not forced nullable
pub fn bad_force_nullable(join_type: &JoinType, is_left: bool) -> bool {
    match join_type {
        JoinType::Inner => false,
        JoinType::Left => false,
        JoinType::Right => is_left,
        JoinType::Full => true,
        _ => false,
    }
}

/// seeded: declares the build (left) side order-preserving for Inner, and the probe side for Left (which appends rows at the end)
pub fn bad_maintains_input_order(join_type: JoinType) -> Vec<bool> {
    vec![matches!(join_type, JoinType::Inner), matches!(join_type, JoinType::Left | JoinType::Right)]
}

#[derive(Clone, Copy, PartialEq, Eq, Debug)]
pub enum Op { Eq, NotEq, Lt, LtEq, Gt, GtEq, And, Or }

impl Op {
    /// seeded: NOT (a < b) is a >= b, not a > b
    pub fn bad_negate(&self) -> Option<Op> {
        match self {
            Op::Eq => Some(Op::NotEq),
            Op::NotEq => Some(Op::Eq),
            Op::Lt => Some(Op::Gt),
            Op::LtEq => Some(Op::Gt),
            Op::Gt => Some(Op::LtEq),
            Op::GtEq => Some(Op::Lt),
            Op::And | Op::Or => None,
        }
    }
}

#[derive(Clone, PartialEq, Eq, Debug)]
pub enum Dt { Int8, Int16, Int32, Int64, UInt8, UInt16, UInt32, UInt64, Float16, Float32, Float64, Decimal128(u8, i8) }

/// seeded: (UInt64, signed) -> Int64 (wraps), and (Int8, UInt8) one-sided
pub fn bad_numerical_coercion(l: &Dt, r: &Dt) -> Option<Dt> {
    use Dt::*;
    match (l, r) {
        (Float64, _) | (_, Float64) => Some(Float64),
        (_, Float32) | (Float32, _) => Some(Float32),
        (_, Float16) | (Float16, _) => Some(Float16),
        (UInt64, Int64 | Int32 | Int16 | Int8) | (Int64 | Int32 | Int16 | Int8, UInt64) => Some(Int64),
        (UInt64, _) | (_, UInt64) => Some(UInt64),
        (Int64, _) | (_, Int64) | (UInt32, Int32 | Int16 | Int8) | (Int32 | Int16 | Int8, UInt32) => Some(Int64),
        (UInt32, _) | (_, UInt32) => Some(UInt32),
        (Int32, _) | (_, Int32) | (UInt16, Int16 | Int8) | (Int16 | Int8, UInt16) => Some(Int32),
        (UInt16, _) | (_, UInt16) => Some(UInt16),
        (Int16, _) | (_, Int16) | (Int8, UInt8) => Some(Int16),
        (Int8, _) | (_, Int8) => Some(Int8),
        (UInt8, _) | (_, UInt8) => Some(UInt8),
        _ => None,
    }
}

/// strict-null agreement: seeded positive (TryCast) / negatives (Cast, Not)
pub enum Ex {
    Col(bool),
    Cast(Box<Ex>),
    Not(Box<Ex>),
    TryCast(Box<Ex>),
    Lit(bool),
}
impl Ex {
    pub fn nullable(&self, schema: &bool) -> Result<bool, String> {
        match self {
            Ex::Col(n) => Ok(*n && *schema),
            Ex::Cast(e) | Ex::Not(e) => e.nullable(schema),
            Ex::TryCast(_) => Ok(true),
            Ex::Lit(n) => Ok(*n),
        }
    }
    pub fn apply_children(&self, f: &mut dyn FnMut(&Ex)) {
        match self {
            Ex::Cast(e) | Ex::Not(e) | Ex::TryCast(e) => f(e),
            _ => {}
        }
    }
}
pub mod pb {
    use super::Ex;
    pub fn any_child_null(e: &Ex) -> bool {
        let mut r = false;
        e.apply_children(&mut |c| r |= is_null(c));
        r
    }
    pub fn is_null(e: &Ex) -> bool {
        match e {
            Ex::Lit(n) => *n,
            Ex::Cast(_) | Ex::Not(_) | Ex::TryCast(_) => any_child_null(e),
            _ => true,
        }
    }
}
