//! seeded positives/negatives for the DDL decision-table rule (C49)
use std::collections::HashMap;
use std::sync::Mutex;

pub struct CreateTable {
    pub name: String,
    pub if_not_exists: bool,
    pub or_replace: bool,
}
pub struct CreateThing {
    pub name: String,
    pub if_not_exists: bool,
    pub or_replace: bool,
}
pub struct DropTable {
    pub name: String,
    pub if_exists: bool,
}
pub struct DropThing {
    pub name: String,
    pub if_exists: bool,
}
pub struct DropOther {
    pub name: String,
    pub if_exists: bool,
}
pub struct CreateOther {
    pub name: String,
    pub if_not_exists: bool,
    pub or_replace: bool,
}
pub struct CreateSlow {
    pub name: String,
    pub if_not_exists: bool,
    pub or_replace: bool,
}
pub enum DdlStatement {
    CreateSlow(CreateSlow),
    CreateOther(CreateOther),
    DropOther(DropOther),
    CreateTable(CreateTable),
    CreateThing(CreateThing),
    DropTable(DropTable),
    DropThing(DropThing),
}
pub struct DataFrame;
#[derive(Debug)]
pub enum DfError {
    Execution(String),
    Other(u8),
}
pub struct SessionContext {
    tables: Mutex<HashMap<String, u32>>,
}
impl SessionContext {
    pub fn table(&self, name: &str) -> Result<u32, DfError> {
        self.tables.lock().unwrap().get(name).copied().ok_or(DfError::Other(1))
    }
    pub fn register_table(&self, name: &str, v: u32) -> Result<(), DfError> {
        self.tables.lock().unwrap().insert(name.to_string(), v);
        Ok(())
    }
    pub fn deregister_table(&self, name: &str) -> Result<(), DfError> {
        self.tables.lock().unwrap().remove(name);
        Ok(())
    }
    pub fn find_and_remove(&self, name: &str) -> Result<bool, DfError> {
        if self.tables.lock().unwrap().contains_key(name) {
            self.deregister_table(name)?;
            return Ok(true);
        }
        Ok(false)
    }
    fn return_empty_dataframe(&self) -> Result<DataFrame, DfError> {
        Ok(DataFrame)
    }
    /// correct
    pub fn create_table(&self, cmd: CreateTable) -> Result<DataFrame, DfError> {
        let t = self.table(&cmd.name);
        match (cmd.if_not_exists, cmd.or_replace, t) {
            (true, false, Ok(_)) => self.return_empty_dataframe(),
            (false, true, Ok(_)) => {
                self.deregister_table(&cmd.name)?;
                self.register_table(&cmd.name, 1)?;
                self.return_empty_dataframe()
            }
            (true, true, Ok(_)) => Err(DfError::Execution("both".to_string())),
            (_, _, Err(_)) => {
                self.register_table(&cmd.name, 1)?;
                self.return_empty_dataframe()
            }
            (false, false, Ok(_)) => Err(DfError::Execution("exists".to_string())),
        }
    }
    /// seeded: IF NOT EXISTS on an existing object replaces it
    pub fn create_thing(&self, cmd: CreateThing) -> Result<DataFrame, DfError> {
        let t = self.table(&cmd.name);
        match (cmd.if_not_exists, cmd.or_replace, t) {
            (true, true, Ok(_)) => Err(DfError::Execution("both".to_string())),
            (true, _, Ok(_)) | (_, true, Ok(_)) => {
                self.deregister_table(&cmd.name)?;
                self.register_table(&cmd.name, 1)?;
                self.return_empty_dataframe()
            }
            (_, _, Err(_)) => {
                self.register_table(&cmd.name, 1)?;
                self.return_empty_dataframe()
            }
            (false, false, Ok(_)) => Err(DfError::Execution("exists".to_string())),
        }
    }
    /// correct
    pub fn drop_table(&self, cmd: DropTable) -> Result<DataFrame, DfError> {
        let r = self.find_and_remove(&cmd.name);
        match (r, cmd.if_exists) {
            (Ok(true), _) => self.return_empty_dataframe(),
            (_, true) => self.return_empty_dataframe(),
            (_, _) => Err(DfError::Execution("missing".to_string())),
        }
    }
    /// seeded: DROP IF EXISTS of a missing object fails
    pub fn drop_thing(&self, cmd: DropThing) -> Result<DataFrame, DfError> {
        let r = self.find_and_remove(&cmd.name);
        match (r, cmd.if_exists) {
            (Ok(true), _) => self.return_empty_dataframe(),
            (_, _) => Err(DfError::Execution("missing".to_string())),
        }
    }
    /// seeded: does not look at whether anything was removed (DROP of a missing object succeeds without IF EXISTS)
    pub fn drop_other(&self, cmd: DropOther) -> Result<DataFrame, DfError> {
        let r = self.find_and_remove(&cmd.name);
        match (r, cmd.if_exists) {
            (Ok(_), _) => self.return_empty_dataframe(),
            (_, true) => self.return_empty_dataframe(),
            (_, _) => Err(DfError::Execution("missing".to_string())),
        }
    }
    /// correct, written with early returns, a boolean probe and a private helper that registers
    pub fn create_other(&self, cmd: CreateOther) -> Result<DataFrame, DfError> {
        let exists = self.table(&cmd.name).is_ok();
        if exists {
            if cmd.if_not_exists && cmd.or_replace {
                return Err(DfError::Execution("both".to_string()));
            }
            if cmd.if_not_exists {
                return self.return_empty_dataframe();
            }
            if !cmd.or_replace {
                return Err(DfError::Execution("exists".to_string()));
            }
            self.deregister_table(&cmd.name)?;
        }
        self.add_fresh(&cmd.name)?;
        self.return_empty_dataframe()
    }
    fn add_fresh(&self, name: &str) -> Result<(), DfError> {
        self.register_table(name, 1)
    }
    fn build(&self, name: &str) -> Result<u32, DfError> {
        if name.is_empty() {
            return Err(DfError::Other(7));
        }
        Ok(name.len() as u32)
    }
    /// seeded: the old object is deregistered before the fallible construction of the new one
    pub fn create_slow(&self, cmd: CreateSlow) -> Result<DataFrame, DfError> {
        let t = self.table(&cmd.name);
        match (cmd.if_not_exists, cmd.or_replace, t) {
            (true, false, Ok(_)) => self.return_empty_dataframe(),
            (false, true, Ok(_)) => {
                self.deregister_table(&cmd.name)?;
                let v = self.build(&cmd.name)?;
                self.register_table(&cmd.name, v)?;
                self.return_empty_dataframe()
            }
            (true, true, Ok(_)) => Err(DfError::Execution("both".to_string())),
            (_, _, Err(_)) => {
                let v = self.build(&cmd.name)?;
                self.register_table(&cmd.name, v)?;
                self.return_empty_dataframe()
            }
            (false, false, Ok(_)) => Err(DfError::Execution("exists".to_string())),
        }
    }
}
