//! seeded positives/negatives for the zeroed-hash-buffer rule
pub fn create_hashes(cols: &[Vec<Option<u64>>], seed: u64, buf: &mut [u64]) {
    for c in cols {
        for (i, v) in c.iter().enumerate() {
            if let Some(v) = v {
                buf[i] = buf[i].wrapping_mul(31).wrapping_add(*v ^ seed);
            }
        }
    }
}

pub struct Joiner {
    pub hashes_buffer: Vec<u64>,
}

impl Joiner {
    /// negative: clear + resize(n, 0)
    pub fn good_reuse(&mut self, cols: &[Vec<Option<u64>>], n: usize) {
        self.hashes_buffer.clear();
        self.hashes_buffer.resize(n, 0);
        create_hashes(cols, 7, &mut self.hashes_buffer);
    }
    /// seeded: resize without clear keeps the hashes of the previous batch in the slots of NULL keys
    pub fn bad_reuse(&mut self, cols: &[Vec<Option<u64>>], n: usize) {
        self.hashes_buffer.resize(n, 0);
        create_hashes(cols, 7, &mut self.hashes_buffer);
    }
    /// seeded: only one branch clears
    pub fn bad_branch(&mut self, cols: &[Vec<Option<u64>>], n: usize, first: bool) {
        if first {
            self.hashes_buffer.clear();
        }
        self.hashes_buffer.resize(n, 0);
        create_hashes(cols, 7, &mut self.hashes_buffer);
    }
}

/// negative: fresh zero vector
pub fn good_fresh(cols: &[Vec<Option<u64>>], n: usize) -> Vec<u64> {
    let mut b = vec![0; n];
    create_hashes(cols, 7, &mut b);
    b
}

/// seeded: fresh vector filled with a non-zero constant
pub fn bad_fresh(cols: &[Vec<Option<u64>>], n: usize) -> Vec<u64> {
    let mut b = vec![1; n];
    create_hashes(cols, 7, &mut b);
    b
}

/// pass-through: buffer is a parameter, callers are held to the rule
pub fn update(cols: &[Vec<Option<u64>>], buf: &mut [u64]) {
    create_hashes(cols, 9, buf);
}
/// seeded: caller of the pass-through function that forgets to clear
pub fn bad_caller_of_update(j: &mut Joiner, cols: &[Vec<Option<u64>>], n: usize) {
    j.hashes_buffer.resize(n, 0);
    update(cols, &mut j.hashes_buffer);
}
/// negative
pub fn good_caller_of_update(j: &mut Joiner, cols: &[Vec<Option<u64>>], n: usize) {
    j.hashes_buffer.clear();
    j.hashes_buffer.resize(n, 0);
    update(cols, &mut j.hashes_buffer);
}

/// nested-kernel-consults-validity: seeded positive / negative
pub struct ListArr {
    pub offsets: Vec<usize>,
    pub validity: Option<Vec<bool>>,
}
impl ListArr {
    pub fn null_count(&self) -> usize {
        self.validity.as_ref().map(|v| v.iter().filter(|b| !**b).count()).unwrap_or(0)
    }
    pub fn is_valid(&self, i: usize) -> bool {
        self.validity.as_ref().map(|v| v[i]).unwrap_or(true)
    }
}
pub fn hash_list_good(a: &ListArr, child: &[u64], out: &mut [u64]) {
    if a.null_count() > 0 {
        for i in 0..out.len() {
            if a.is_valid(i) {
                for c in &child[a.offsets[i]..a.offsets[i + 1]] {
                    out[i] = out[i].wrapping_mul(31) ^ c;
                }
            }
        }
    } else {
        for i in 0..out.len() {
            for c in &child[a.offsets[i]..a.offsets[i + 1]] {
                out[i] = out[i].wrapping_mul(31) ^ c;
            }
        }
    }
}
/// seeded: child values under a NULL parent reach the hash
pub fn hash_list_bad(a: &ListArr, child: &[u64], out: &mut [u64]) {
    for i in 0..out.len() {
        for c in &child[a.offsets[i]..a.offsets[i + 1]] {
            out[i] = out[i].wrapping_mul(31) ^ c;
        }
    }
}

/// negative: fresh empty vector grown once with zeros
pub fn good_fresh_resize(cols: &[Vec<Option<u64>>], n: usize) -> Vec<u64> {
    let mut b = Vec::with_capacity(n);
    b.resize(n, 0);
    create_hashes(cols, 7, &mut b);
    b
}
/// negative: reused buffer explicitly zero-filled
pub fn good_fill(j: &mut Joiner, cols: &[Vec<Option<u64>>], n: usize) {
    j.hashes_buffer.resize(n, 0);
    j.hashes_buffer.fill(0);
    create_hashes(cols, 7, &mut j.hashes_buffer);
}
