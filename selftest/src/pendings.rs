//! seeded positives/negatives for the pending-needs-wake-source rule
use std::future::Future;
use std::pin::Pin;
use std::task::{Context, Poll};

pub struct Inner;
impl Inner {
    pub fn poll_next(&mut self, _cx: &mut Context<'_>) -> Poll<Option<u32>> {
        Poll::Ready(None)
    }
}
pub struct S {
    pub inner: Inner,
    pub buffered: Vec<u32>,
    pub waker: Option<std::task::Waker>,
}
impl S {
    /// negative: Pending only as the Pending of the inner poll
    pub fn good_delegates(&mut self, cx: &mut Context<'_>) -> Poll<Option<u32>> {
        match self.inner.poll_next(cx) {
            Poll::Ready(v) => Poll::Ready(v),
            Poll::Pending => Poll::Pending,
        }
    }
    /// negative: registers the waker before answering Pending
    pub fn good_registers(&mut self, cx: &mut Context<'_>) -> Poll<Option<u32>> {
        if let Some(v) = self.buffered.pop() {
            return Poll::Ready(Some(v));
        }
        self.waker = Some(cx.waker().clone());
        Poll::Pending
    }
    /// seeded: answers Pending because a buffer is empty, nobody will wake the task
    pub fn bad_thin_air(&mut self, _cx: &mut Context<'_>) -> Poll<Option<u32>> {
        if let Some(v) = self.buffered.pop() {
            return Poll::Ready(Some(v));
        }
        Poll::Pending
    }
}
pub struct F(pub S);
impl Future for F {
    type Output = ();
    /// seeded: one arm delegates, the other parks without a wake source
    fn poll(mut self: Pin<&mut Self>, cx: &mut Context<'_>) -> Poll<()> {
        if self.0.buffered.is_empty() {
            return Poll::Pending;
        }
        match self.0.inner.poll_next(cx) {
            Poll::Ready(_) => Poll::Ready(()),
            Poll::Pending => Poll::Pending,
        }
    }
}
