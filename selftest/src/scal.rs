//! seeded: Hash reads a field that PartialEq ignores
use std::hash::{Hash, Hasher};
pub enum Sv { Int(Option<i64>), Ts(Option<i64>, Option<String>) }
impl PartialEq for Sv {
    fn eq(&self, other: &Self) -> bool {
        match (self, other) {
            (Sv::Int(a), Sv::Int(b)) => a.eq(b),
            (Sv::Ts(a, _), Sv::Ts(b, _)) => a.eq(b),
            _ => false,
        }
    }
}
impl Hash for Sv {
    fn hash<H: Hasher>(&self, state: &mut H) {
        match self {
            Sv::Int(v) => v.hash(state),
            Sv::Ts(v, tz) => { v.hash(state); tz.hash(state) }
        }
    }
}
