//! seeded positives/negatives for the placeholder precedence rules (C46)
use std::collections::HashMap;

pub struct Caps(pub Vec<Option<String>>);
impl Caps {
    #[inline(never)]
    pub fn get(&self, i: usize) -> Option<String> {
        self.0.get(i).cloned().flatten()
    }
}
/// correct
pub fn lookup_good(key: &str, map: &HashMap<String, String>, get_env: &impl Fn(&str) -> Option<String>) -> Option<String> {
    if let Some(v) = map.get(&key.to_lowercase()) {
        return Some(v.to_string());
    }
    get_env(&key.to_uppercase())
}
/// seeded: the environment wins over the explicit map
pub fn lookup_env_first(key: &str, map: &HashMap<String, String>, get_env: &impl Fn(&str) -> Option<String>) -> Option<String> {
    if let Some(v) = get_env(&key.to_uppercase()) {
        return Some(v);
    }
    map.get(&key.to_lowercase()).map(|v| v.to_string())
}
/// correct
pub fn resolve_good(caps: &Caps, map: &HashMap<String, String>, get_env: &impl Fn(&str) -> Option<String>) -> Result<String, String> {
    let default = caps.get(2);
    lookup_good("k", map, get_env).or(default).ok_or_else(|| "missing".to_string())
}
/// seeded: the default wins over the looked-up value
pub fn resolve_default_first(caps: &Caps, map: &HashMap<String, String>, get_env: &impl Fn(&str) -> Option<String>) -> Result<String, String> {
    let default = caps.get(2);
    default.or(lookup_good("k", map, get_env)).ok_or_else(|| "missing".to_string())
}
