//! seeded spill-pool protocol violations (shapes only)
use std::collections::VecDeque;
use std::sync::{Arc, Mutex};
use std::task::{Context, Poll, Waker};

pub struct FileShared {
    pub writer: Option<Vec<u8>>,
    pub batches_written: usize,
    pub estimated_size: usize,
    pub writer_finished: bool,
    pub waker: Option<Waker>,
}
impl FileShared {
    pub fn wake(&mut self) {
        if let Some(w) = self.waker.take() {
            w.wake();
        }
    }
    pub fn register_waker(&mut self, w: Waker) {
        self.waker = Some(w);
    }
}
pub struct PoolShared {
    pub files: VecDeque<Arc<Mutex<FileShared>>>,
    pub open_write_files: VecDeque<Arc<Mutex<FileShared>>>,
    pub remaining_writer_count: usize,
}
pub struct Sink {
    pub max: usize,
    pub shared: Arc<Mutex<PoolShared>>,
}
fn append_batch(_w: &mut Vec<u8>, b: &[u8]) -> Result<(), String> {
    if b.is_empty() { Err("x".into()) } else { Ok(()) }
}
fn flush(_w: &mut Vec<u8>) -> Result<(), String> { Ok(()) }

impl Sink {
    /// seeded: `?` exits after the file was popped
    pub fn bad_push_batch(&self, batch: &[u8]) -> Result<(), String> {
        let mut shared = self.shared.lock().unwrap();
        let write_file = if !shared.open_write_files.is_empty() {
            shared.open_write_files.pop_front().unwrap()
        } else {
            let fs = Arc::new(Mutex::new(FileShared { writer: Some(vec![]), batches_written: 0, estimated_size: 0, writer_finished: false, waker: None }));
            shared.files.push_back(Arc::clone(&fs));
            fs
        };
        drop(shared);
        let mut file_shared = write_file.lock().unwrap();
        if let Some(ref mut writer) = file_shared.writer {
            append_batch(writer, batch)?;
            flush(writer)?;
            file_shared.batches_written += 1;
            file_shared.estimated_size += batch.len();
        }
        file_shared.wake();
        if file_shared.estimated_size > self.max {
            file_shared.writer.take();
            file_shared.writer_finished = true;
            file_shared.wake();
        } else {
            drop(file_shared);
            let mut shared = self.shared.lock().unwrap();
            shared.open_write_files.push_back(write_file);
        }
        Ok(())
    }

    /// seeded: holds the pool lock while locking a file
    pub fn bad_both_locks(&self) -> usize {
        let shared = self.shared.lock().unwrap();
        let mut n = 0;
        if let Some(f) = shared.files.front() {
            let fs = f.lock().unwrap();
            n = fs.batches_written;
        }
        n
    }
}

pub struct FileStream {
    pub shared: Arc<Mutex<FileShared>>,
    pub batches_read: usize,
}
impl FileStream {
    /// seeded: returns Pending without registering the waker
    pub fn bad_poll_next(&mut self, _cx: &mut Context<'_>) -> Poll<Option<usize>> {
        let shared = self.shared.lock().unwrap();
        if self.batches_read < shared.batches_written {
            self.batches_read += 1;
            Poll::Ready(Some(self.batches_read))
        } else if shared.writer_finished {
            Poll::Ready(None)
        } else {
            Poll::Pending
        }
    }
}
