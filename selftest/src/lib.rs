//! Seeded positives and negatives for the analyses; analysed on every run.
pub mod tables;
pub mod stats;
pub mod disk;
pub mod pool;
pub mod chan;
pub mod mem;
pub mod dynf;
pub mod cache;
pub mod spawny;
pub mod errs;
pub mod aggs;
pub mod tree;
pub mod round;
pub mod generated;
pub mod domjt;
pub mod conf;
pub mod scal;
