//! seeded: rounding mode not restored on the error exit
fn fegetround() -> i32 { 0 }
fn fesetround(_m: i32) {}
fn risky(x: f64) -> Result<f64, String> { if x.is_nan() { Err("nan".into()) } else { Ok(x) } }
pub fn bad_alter(x: f64) -> Result<f64, String> {
    let current = fegetround();
    fesetround(0x800);
    let r = risky(x)?;
    fesetround(current);
    Ok(r)
}
