//! seeded: rounding mode not restored on the error exit
fn fegetround() -> i32 { 0 }
fn fesetround(_m: i32) {}
fn risky(x: f64) -> Result<f64, String> { if x.is_nan() { Err("nan".into()) } else { Ok(x) } }
pub fn bad_alter(x: f64) -> Result<f64, String> {
    let current = fegetround();
    fesetround(0x800);
    let r = risky(x)?;
    fesetround(current);
    Ok(r)
}

/// pair-orientation: seeded positive / negative
#[derive(Clone, PartialEq, PartialOrd)]
pub struct Iv {
    pub lower: i64,
    pub upper: i64,
}
impl Iv {
    #[inline(never)]
    pub fn new(lower: i64, upper: i64) -> Iv {
        Iv { lower, upper }
    }
}
/// left >= right: returns (new left, new right)
pub fn satisfy_ge(left: &Iv, right: &Iv) -> Option<(Iv, Iv)> {
    if left.upper < right.lower {
        return None;
    }
    let new_left_lower = if left.lower <= right.lower { right.lower } else { left.lower };
    let new_right_upper = if left.upper <= right.upper { left.upper } else { right.upper };
    Some((Iv::new(new_left_lower, left.upper), Iv::new(right.lower, new_right_upper)))
}
fn reverse_tuple<T, U>(t: (T, U)) -> (U, T) {
    (t.1, t.0)
}
/// correct: the result is reversed exactly when the operands were passed reversed
pub fn propagate_good(ge: bool, truth: bool, left: &Iv, right: &Iv) -> Option<(Iv, Iv)> {
    if ge == truth {
        satisfy_ge(left, right)
    } else {
        satisfy_ge(right, left).map(reverse_tuple)
    }
}
/// seeded: the negated branch forgets to reverse
pub fn propagate_bad(ge: bool, truth: bool, left: &Iv, right: &Iv) -> Option<(Iv, Iv)> {
    if truth {
        if ge {
            satisfy_ge(left, right)
        } else {
            satisfy_ge(right, left).map(reverse_tuple)
        }
    } else if ge {
        satisfy_ge(right, left)
    } else {
        satisfy_ge(left, right).map(reverse_tuple)
    }
}
