#[derive(Clone, Copy, PartialEq, Eq, Debug)]
pub enum DomJt { Inner, LeftMark, RightMark }
