//! seeded positives/negatives for the plan field coverage rule
pub struct Ex(pub u32);
pub struct Filter {
    pub predicate: Ex,
    pub input: Box<Plan>,
}
pub struct Join {
    pub left: Box<Plan>,
    pub right: Box<Plan>,
    pub on: Vec<Ex>,
    pub filter: Option<Ex>,
}
pub struct Scan {
    pub name: String,
}
pub enum Plan {
    Filter(Filter),
    Join(Join),
    Scan(Scan),
}
impl Plan {
    pub fn inputs(&self) -> Vec<&Plan> {
        match self {
            Plan::Filter(Filter { input, .. }) => vec![input],
            Plan::Join(Join { left, right, .. }) => vec![left, right],
            Plan::Scan(_) => vec![],
        }
    }
    pub fn map_children(self, f: &dyn Fn(Plan) -> Plan) -> Plan {
        match self {
            Plan::Filter(Filter { predicate, input }) => Plan::Filter(Filter { predicate, input: Box::new(f(*input)) }),
            Plan::Join(Join { left, right, on, filter }) => {
                Plan::Join(Join { left: Box::new(f(*left)), right: Box::new(f(*right)), on, filter })
            }
            s => s,
        }
    }
    /// seeded: the join filter is never visited
    pub fn apply_expressions(&self, f: &mut dyn FnMut(&Ex)) {
        match self {
            Plan::Filter(Filter { predicate, .. }) => f(predicate),
            Plan::Join(Join { on, .. }) => on.iter().for_each(|e| f(e)),
            Plan::Scan(_) => {}
        }
    }
    pub fn map_expressions(self, f: &dyn Fn(Ex) -> Ex) -> Plan {
        match self {
            Plan::Filter(Filter { predicate, input }) => Plan::Filter(Filter { predicate: f(predicate), input }),
            Plan::Join(Join { left, right, on, filter }) => {
                Plan::Join(Join { left, right, on: on.into_iter().map(f).collect(), filter: filter.map(f) })
            }
            s => s,
        }
    }
}
