//! seeded positives/negatives for the DML rules (C39)
use std::cell::RefCell;

pub struct Lock<T>(RefCell<T>);
pub struct Guard<'a, T>(std::cell::RefMut<'a, T>);
impl<T> Lock<T> {
    pub fn write(&self) -> Guard<'_, T> {
        Guard(self.0.borrow_mut())
    }
}
impl<T> std::ops::Deref for Guard<'_, T> {
    type Target = T;
    fn deref(&self) -> &T {
        &self.0
    }
}
impl<T> std::ops::DerefMut for Guard<'_, T> {
    fn deref_mut(&mut self) -> &mut T {
        &mut self.0
    }
}
#[derive(Clone)]
pub struct Batch(pub Vec<i64>);
pub struct Expr(pub i64);
impl Expr {
    #[inline(never)]
    pub fn evaluate(&self, b: &Batch) -> Result<Vec<i64>, String> {
        b.0.iter().map(|v| if *v == 0 { Err("div".to_string()) } else { Ok(self.0 / v) }).collect()
    }
}
pub struct Table {
    pub batches: Vec<Lock<Vec<Batch>>>,
}
impl Table {
    /// seeded: commits partition by partition inside the fallible loop
    pub fn update_bad(&self, e: &Expr) -> Result<u64, String> {
        let mut n = 0;
        for p in &self.batches {
            let mut part = p.write();
            let mut new_batches = Vec::with_capacity(part.len());
            for b in part.iter() {
                let v = e.evaluate(b)?;
                n += v.len() as u64;
                new_batches.push(Batch(v));
            }
            *part = new_batches;
        }
        Ok(n)
    }
    /// correct: computes everything, then commits without a fallible step
    pub fn update_good(&self, e: &Expr) -> Result<u64, String> {
        let mut n = 0;
        let mut staged = Vec::with_capacity(self.batches.len());
        for p in &self.batches {
            let part = p.write();
            let mut new_batches = Vec::with_capacity(part.len());
            for b in part.iter() {
                let v = e.evaluate(b)?;
                n += v.len() as u64;
                new_batches.push(Batch(v));
            }
            staged.push((part, new_batches));
        }
        for (mut part, new_batches) in staged {
            *part = new_batches;
        }
        Ok(n)
    }
    /// seeded: the second expression is evaluated over the batch rebuilt from the first one's result
    pub fn update_stale(&self, e1: &Expr, e2: &Expr) -> Result<u64, String> {
        let mut staged = Vec::with_capacity(self.batches.len());
        for p in &self.batches {
            let part = p.write();
            let mut new_batches = Vec::with_capacity(part.len());
            for b in part.iter() {
                let v1 = e1.evaluate(b)?;
                let rebuilt = Batch(v1);
                let v2 = e2.evaluate(&rebuilt)?;
                new_batches.push(Batch(v2));
            }
            staged.push((part, new_batches));
        }
        for (mut part, new_batches) in staged {
            *part = new_batches;
        }
        Ok(0)
    }
    /// correct insert: buffer, then append
    pub fn insert(&self, data: Vec<Batch>) -> Result<u64, String> {
        let mut n = 0;
        let mut buf = vec![];
        for b in data {
            if b.0.is_empty() {
                return Err("empty".to_string());
            }
            n += b.0.len() as u64;
            buf.push(b);
        }
        for p in &self.batches {
            p.write().append(&mut buf);
        }
        Ok(n)
    }
}
