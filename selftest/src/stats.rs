//! seeded Precision combinators
#[derive(Clone, Debug, PartialEq)]
pub enum Prec<T> { Exact(T), Inexact(T), Absent }

impl Prec<usize> {
    /// seeded: (Inexact, Exact) arm returns Exact
    pub fn bad_max(&self, other: &Prec<usize>) -> Prec<usize> {
        match (self, other) {
            (Prec::Exact(a), Prec::Exact(b)) => Prec::Exact(if a >= b { *a } else { *b }),
            (Prec::Inexact(a), Prec::Exact(b)) => Prec::Exact(if a >= b { *a } else { *b }),
            (Prec::Exact(a), Prec::Inexact(b)) | (Prec::Inexact(a), Prec::Inexact(b)) => Prec::Inexact(if a >= b { *a } else { *b }),
            _ => Prec::Absent,
        }
    }
    /// fine
    pub fn good_add(&self, other: &Prec<usize>) -> Prec<usize> {
        match (self, other) {
            (Prec::Exact(a), Prec::Exact(b)) => a.checked_add(*b).map_or_else(|| Prec::Inexact(a.saturating_add(*b)), Prec::Exact),
            (Prec::Inexact(a), Prec::Exact(b)) | (Prec::Exact(a), Prec::Inexact(b)) | (Prec::Inexact(a), Prec::Inexact(b)) => Prec::Inexact(a.saturating_add(*b)),
            _ => Prec::Absent,
        }
    }
}

/// seeded: in-place add keeps lhs Exact when rhs is Inexact
pub fn bad_add_in_place(lhs: &mut Prec<usize>, rhs: &Prec<usize>) {
    let new = match (&*lhs, rhs) {
        (Prec::Exact(a), Prec::Exact(b)) | (Prec::Exact(a), Prec::Inexact(b)) => Prec::Exact(a + b),
        (Prec::Inexact(a), Prec::Exact(b)) | (Prec::Inexact(a), Prec::Inexact(b)) => Prec::Inexact(a + b),
        _ => Prec::Absent,
    };
    *lhs = new;
}
