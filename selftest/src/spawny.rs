//! seeded: a raw thread spawn (must be reported by the who-may-spawn census)
pub fn bad_spawn() -> std::thread::JoinHandle<()> {
    std::thread::spawn(|| {})
}
pub fn bad_forget(v: Vec<u8>) {
    std::mem::forget(v);
}
