//! seeded: a raw thread spawn (must be reported by the who-may-spawn census)
pub fn bad_spawn() -> std::thread::JoinHandle<()> {
    std::thread::spawn(|| {})
}
pub fn bad_forget(v: Vec<u8>) {
    std::mem::forget(v);
}

/// stand-in for tokio::task::yield_now
pub fn yield_now() {}
pub struct Work(pub u32);
impl Work {
    pub fn route(&mut self, x: u32) -> u32 {
        self.0 = self.0.wrapping_add(x);
        self.0
    }
}
/// negative: every iteration that does work reaches the countdown/yield gate
pub fn good_driver(mut w: Work, items: &[u32]) {
    let mut until_yield = 4u32;
    for &x in items {
        if x == 0 {
            continue;
        }
        w.route(x);
        if until_yield == 0 {
            yield_now();
            until_yield = 4;
        } else {
            until_yield -= 1;
        }
    }
}
/// seeded: an iteration that did work can `continue` past the gate
pub fn bad_driver(mut w: Work, items: &[u32]) {
    let mut until_yield = 4u32;
    for &x in items {
        if x == 0 {
            continue;
        }
        let r = w.route(x);
        if r % 2 == 0 {
            continue;
        }
        if until_yield == 0 {
            yield_now();
            until_yield = 4;
        } else {
            until_yield -= 1;
        }
    }
}

/// cooperative-passthrough: seeded positive / negatives
#[derive(Clone, Copy, PartialEq)]
pub enum Sched {
    NonCooperative,
    Cooperative,
}
pub struct Strm(pub u32);
pub trait Plan {
    fn execute(&self, partition: usize) -> Result<Strm, String>;
}
#[inline(never)]
pub fn make_coop(s: Strm) -> Strm {
    Strm(s.0 + 1)
}
pub struct PassAll {
    pub input: Box<dyn Plan>,
    pub n: usize,
    pub sched: Sched,
}
pub struct PassCond {
    pub input: Box<dyn Plan>,
    pub n: usize,
    pub sched: Sched,
}
pub struct WrapAll {
    pub input: Box<dyn Plan>,
    pub n: usize,
    pub sched: Sched,
}
impl PassAll {
    /// seeded: always Cooperative
    pub fn compute(n: usize) -> Sched {
        let _ = n;
        Sched::Cooperative
    }
}
impl Plan for PassAll {
    fn execute(&self, partition: usize) -> Result<Strm, String> {
        if self.n == 1 {
            return self.input.execute(partition);
        }
        Ok(make_coop(self.input.execute(partition)?))
    }
}
impl PassCond {
    /// correct: Cooperative only when it really merges
    pub fn compute(n: usize, child: Sched) -> Sched {
        if n > 1 { Sched::Cooperative } else { child }
    }
}
impl Plan for PassCond {
    fn execute(&self, partition: usize) -> Result<Strm, String> {
        if self.n == 1 {
            return self.input.execute(partition);
        }
        Ok(make_coop(self.input.execute(partition)?))
    }
}
impl WrapAll {
    pub fn compute(n: usize) -> Sched {
        let _ = n;
        Sched::Cooperative
    }
}
impl Plan for WrapAll {
    fn execute(&self, partition: usize) -> Result<Strm, String> {
        Ok(make_coop(self.input.execute(partition)?))
    }
}
