//! seeded dynamic-filter state violations
use std::sync::{Arc, RwLock};

#[derive(Clone)]
pub struct Inner { pub generation: u64, pub expr: Arc<String> }
impl Inner { pub fn expr(&self) -> &Arc<String> { &self.expr } }

pub struct Dyn {
    pub inner: RwLock<Inner>,
    pub current_cache: RwLock<Option<(u64, Arc<String>)>>,
    pub state_watch: std::sync::mpsc::Sender<u64>,
}

impl Dyn {
    /// seeded: two separate read guards
    pub fn bad_current(&self) -> Result<Arc<String>, String> {
        let expr = { let inner = self.inner.read().unwrap(); Arc::clone(inner.expr()) };
        let generation = { let inner = self.inner.read().unwrap(); inner.generation };
        let mut cache = self.current_cache.write().unwrap();
        let should_write = match cache.as_ref() { Some((cached_gen, _)) => generation > *cached_gen, None => true };
        if should_write { *cache = Some((generation, Arc::clone(&expr))); }
        Ok(expr)
    }
    /// seeded: expression stored under one guard, generation bumped under another
    pub fn bad_update(&self, new_expr: Arc<String>) -> Result<(), String> {
        { let mut current = self.inner.write().unwrap(); current.expr = new_expr; }
        let mut current = self.inner.write().unwrap();
        let new_generation = current.generation + 1;
        current.generation = new_generation;
        drop(current);
        let _ = self.state_watch.send(new_generation);
        Ok(())
    }

    /// negative: the same logic as the real current(), split into helpers (one snapshot under one guard)
    fn snapshot(&self) -> (Arc<String>, u64) {
        let inner = self.inner.read().unwrap();
        (Arc::clone(inner.expr()), inner.generation)
    }
    fn publish(&self, generation: u64, expr: &Arc<String>) {
        let mut cache = self.current_cache.write().unwrap();
        let newer = match cache.as_ref() { Some((cached_gen, _)) => generation > *cached_gen, None => true };
        if newer { *cache = Some((generation, Arc::clone(expr))); }
    }
    pub fn good_current_split(&self) -> Result<Arc<String>, String> {
        let (e, g) = self.snapshot();
        if let Some((cached_gen, cached)) = self.current_cache.read().unwrap().as_ref() {
            if *cached_gen == g { return Ok(Arc::clone(cached)); }
        }
        self.publish(g, &e);
        Ok(e)
    }
    /// seeded (the shape of an independent seeded fault): generation re-read when publishing
    fn generation_now(&self) -> u64 { self.inner.read().unwrap().generation }
    pub fn bad_current_reread(&self) -> Result<Arc<String>, String> {
        let (e, g) = self.snapshot();
        if let Some((cached_gen, cached)) = self.current_cache.read().unwrap().as_ref() {
            if *cached_gen == g { return Ok(Arc::clone(cached)); }
        }
        let g2 = self.generation_now();
        self.publish(g2, &e);
        Ok(e)
    }
}

/// publication-widening agreement: seeded positive / negative
pub trait Px {
    fn eval(&self) -> bool;
}
pub struct Lit(pub bool);
impl Px for Lit {
    fn eval(&self) -> bool {
        self.0
    }
}
pub struct Filt {
    pub cur: std::sync::Mutex<Arc<dyn Px>>,
}
impl Filt {
    #[inline(never)]
    pub fn update(&self, e: Arc<dyn Px>) -> Result<(), String> {
        *self.cur.lock().unwrap() = e;
        Ok(())
    }
}
pub struct GoodPub {
    pub filt: Filt,
    pub null_aware: bool,
}
pub struct BadPub {
    pub filt: Filt,
    pub null_aware: bool,
}
impl GoodPub {
    fn preserve(&self, e: Arc<dyn Px>) -> Result<Arc<dyn Px>, String> {
        if self.null_aware { Ok(Arc::new(Lit(true))) } else { Ok(e) }
    }
    pub fn publish_all(&self, shape: u8) -> Result<(), String> {
        let e: Arc<dyn Px> = if shape == 0 { Arc::new(Lit(true)) } else { Arc::new(Lit(false)) };
        self.filt.update(self.preserve(e)?)
    }
    pub fn publish_single(&self) -> Result<(), String> {
        self.filt.update(self.preserve(Arc::new(Lit(false)))?)
    }
}
impl BadPub {
    fn preserve(&self, e: Arc<dyn Px>) -> Result<Arc<dyn Px>, String> {
        if self.null_aware { Ok(Arc::new(Lit(true))) } else { Ok(e) }
    }
    /// seeded: only one shape is widened
    pub fn publish_all(&self, shape: u8) -> Result<(), String> {
        let e: Arc<dyn Px> = if shape == 0 { Arc::new(Lit(true)) } else { self.preserve(Arc::new(Lit(false)))? };
        self.filt.update(e)
    }
    pub fn publish_single(&self) -> Result<(), String> {
        self.filt.update(self.preserve(Arc::new(Lit(false)))?)
    }
}
