//! seeded error-handling violations
#[derive(Debug)]
pub struct DfErr(pub String);

pub struct MemoryReservation { pub size: usize }
impl MemoryReservation {
    pub fn try_grow(&mut self, n: usize) -> Result<(), DfErr> {
        if n > 10 { Err(DfErr("oom".into())) } else { self.size += n; Ok(()) }
    }
}
/// seeded: unwrap on a reservation request
pub fn bad_unwrap(r: &mut MemoryReservation) { r.try_grow(5).unwrap(); }
/// seeded: result discarded
pub fn bad_discard(r: &mut MemoryReservation) { let _ = r.try_grow(5); }
/// fine
pub fn good(r: &mut MemoryReservation) -> Result<(), DfErr> { r.try_grow(5)?; Ok(()) }

pub struct Items(pub Vec<Result<u32, DfErr>>);
impl Items {
    pub fn poll_next(&mut self) -> Option<Result<u32, DfErr>> { self.0.pop() }
}
/// seeded: a failed input is treated as end of input
pub fn bad_sum(it: &mut Items) -> u32 {
    let mut s = 0;
    while let Some(Ok(v)) = it.poll_next() { s += v; }
    s
}
/// fine: error forwarded
pub fn good_sum(it: &mut Items) -> Result<u32, DfErr> {
    let mut s = 0;
    while let Some(r) = it.poll_next() { s += r?; }
    Ok(s)
}
