//! seeded positives/negatives for the C53 rules (row-count metrics)
use std::sync::atomic::{AtomicUsize, Ordering};
use std::sync::Arc;

#[derive(Clone, Default)]
pub struct Count(pub Arc<AtomicUsize>);
impl Count {
    pub fn add(&self, n: usize) {
        self.0.fetch_add(n, Ordering::Relaxed);
    }
}

#[derive(Clone, Default)]
pub struct Bm {
    pub output_rows: Count,
}
pub struct Batch(pub usize);
pub enum Poll<T> {
    Ready(T),
    Pending,
}

impl Bm {
    pub fn new(_set: &Set, _partition: usize) -> Self {
        Bm::default()
    }
    pub fn record_output(&self, n: usize) {
        self.output_rows.add(n)
    }
    pub fn record_poll(&self, poll: Poll<Option<Batch>>) -> Poll<Option<Batch>> {
        if let Poll::Ready(Some(b)) = &poll {
            self.record_output(b.0);
        }
        poll
    }
}
pub trait RecOut {
    fn record_output(self, bm: &Bm) -> Self;
}
impl RecOut for Batch {
    fn record_output(self, bm: &Bm) -> Self {
        bm.record_output(self.0);
        self
    }
}
pub struct Set;
pub trait Stream {
    fn poll_next(&mut self) -> Poll<Option<Batch>>;
}
pub fn produce() -> Option<Batch> {
    Some(Batch(3))
}

/// negative: records once in the outer poll
pub struct Good {
    pub bm: Bm,
}
impl Good {
    fn poll_inner(&mut self) -> Poll<Option<Batch>> {
        Poll::Ready(produce())
    }
}
impl Stream for Good {
    fn poll_next(&mut self) -> Poll<Option<Batch>> {
        let p = self.poll_inner();
        self.bm.record_poll(p)
    }
}

/// seeded: the inner poll records what it returns and the outer poll records it again
pub struct Dbl {
    pub bm: Bm,
}
impl Dbl {
    pub fn poll_inner(&mut self) -> Poll<Option<Batch>> {
        match produce() {
            Some(b) => Poll::Ready(Some(b.record_output(&self.bm))),
            None => Poll::Ready(None),
        }
    }
}
impl Stream for Dbl {
    fn poll_next(&mut self) -> Poll<Option<Batch>> {
        let p = self.poll_inner();
        self.bm.record_poll(p)
    }
}

/// seeded: one value recorded twice on one path
pub struct Twice {
    pub bm: Bm,
}
impl Stream for Twice {
    fn poll_next(&mut self) -> Poll<Option<Batch>> {
        match produce() {
            Some(b) => {
                let b = b.record_output(&self.bm);
                self.bm.record_poll(Poll::Ready(Some(b)))
            }
            None => Poll::Pending,
        }
    }
}

/// seeded: owns metrics, never records
pub struct Silent {
    pub bm: Bm,
}
impl Stream for Silent {
    fn poll_next(&mut self) -> Poll<Option<Batch>> {
        Poll::Ready(produce())
    }
}

/// negative: owns metrics, never records itself, but is wrapped in an observer with a clone where it is built
pub struct Wrapped {
    pub bm: Bm,
}
impl Stream for Wrapped {
    fn poll_next(&mut self) -> Poll<Option<Batch>> {
        Poll::Ready(produce())
    }
}
pub struct Observed {
    pub inner: Box<dyn Stream>,
    pub bm: Bm,
}
impl Observed {
    pub fn new(inner: Box<dyn Stream>, bm: Bm) -> Self {
        Observed { inner, bm }
    }
}
impl Stream for Observed {
    fn poll_next(&mut self) -> Poll<Option<Batch>> {
        let p = self.inner.poll_next();
        self.bm.record_poll(p)
    }
}
pub fn build_wrapped(set: &Set) -> Observed {
    let bm = Bm::new(set, 0);
    let obs = bm.clone();
    Observed::new(Box::new(Wrapped { bm }), obs)
}

/// negative: two registration sites on exclusive branches
pub fn exec_ok(set: &Set, ordered: bool) -> Box<dyn Stream> {
    if ordered {
        Box::new(Good { bm: Bm::new(set, 0) })
    } else {
        Box::new(Observed::new(Box::new(Good { bm: Bm::default() }), Bm::new(set, 0)))
    }
}

/// seeded: the wrapped streams (built in a closure created on the path) and the wrapper both register output metrics
pub fn exec_bad(set: &Set, n: usize) -> Box<dyn Stream> {
    let inner: Vec<Box<dyn Stream>> = (0..n).map(|i| Box::new(Good { bm: Bm::new(set, i) }) as Box<dyn Stream>).collect();
    let first = inner.into_iter().next().unwrap();
    Box::new(Observed::new(first, Bm::new(set, 0)))
}

pub struct SpillMetrics {
    pub spilled_rows: Count,
}
pub struct Ipc;
impl Ipc {
    pub fn write(&mut self, b: &Batch) -> Result<(usize, usize), String> {
        if b.0 == 0 {
            return Err("empty".into());
        }
        Ok((b.num_rows(), 8))
    }
}
impl Batch {
    pub fn num_rows(&self) -> usize {
        self.0
    }
}
pub struct Spill {
    pub writer: Option<Ipc>,
    pub metrics: SpillMetrics,
}
impl Spill {
    /// seeded: rows are counted before the write is known to have succeeded
    pub fn append_batch(&mut self, b: &Batch) -> Result<usize, String> {
        if self.writer.is_none() {
            self.writer = Some(Ipc);
        }
        if let Some(w) = &mut self.writer {
            self.metrics.spilled_rows.add(b.num_rows());
            let (_rows, bytes) = w.write(b)?;
            return Ok(bytes);
        }
        Ok(0)
    }
    /// seeded: a second writer of spilled_rows
    pub fn note_skipped(&self, n: usize) {
        self.metrics.spilled_rows.add(n);
    }
}

/// record-consistent: a stream that records where a batch leaves (helper `emit`) but forgets one arm
pub struct Spilly {
    pub bm: Option<Bm>,
    pub spill: Box<dyn Stream>,
}
impl Spilly {
    fn emit(&self, b: Batch) -> Poll<Option<Batch>> {
        let b = match &self.bm {
            Some(m) => b.record_output(m),
            None => b,
        };
        Poll::Ready(Some(b))
    }
    /// seeded: the second arm hands out the batch of the spill stream unrecorded
    pub fn bad_poll_inner(&mut self, from_memory: bool) -> Poll<Option<Batch>> {
        if from_memory {
            match produce() {
                Some(b) => return self.emit(b),
                None => return Poll::Ready(None),
            }
        }
        match self.spill.poll_next() {
            Poll::Ready(Some(b)) => Poll::Ready(Some(b)),
            Poll::Ready(None) => Poll::Ready(None),
            Poll::Pending => Poll::Pending,
        }
    }
    /// negative: both arms go through emit
    pub fn good_poll_inner(&mut self, from_memory: bool) -> Poll<Option<Batch>> {
        if from_memory {
            match produce() {
                Some(b) => return self.emit(b),
                None => return Poll::Ready(None),
            }
        }
        match self.spill.poll_next() {
            Poll::Ready(Some(b)) => self.emit(b),
            Poll::Ready(None) => Poll::Ready(None),
            Poll::Pending => Poll::Pending,
        }
    }
}

/// seeded: the poll is recorded and then truncated to a fetch limit (rows counted before they are cut)
pub struct Trunc {
    pub bm: Bm,
    pub fetch: usize,
}
impl Trunc {
    fn poll_inner(&mut self) -> Poll<Option<Batch>> {
        Poll::Ready(produce())
    }
    fn apply_fetch(&mut self, poll: Poll<Option<Batch>>) -> Poll<Option<Batch>> {
        match poll {
            Poll::Ready(Some(b)) if b.0 > self.fetch => Poll::Ready(Some(Batch(self.fetch))),
            other => other,
        }
    }
}
impl Stream for Trunc {
    fn poll_next(&mut self) -> Poll<Option<Batch>> {
        let p = self.poll_inner();
        let p = self.bm.record_poll(p);
        self.apply_fetch(p)
    }
}
