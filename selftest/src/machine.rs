//! seeded positives/negatives for the finaliser-bypass rule (stream state machines)
pub enum St {
    Fill,
    Probe,
    EmitLeft,
    EmitGlobal,
    Done,
}
pub struct GoodStream {
    pub state: St,
    pub limited: bool,
    pub track: bool,
    pub exhausted: bool,
    pub pending: Vec<u32>,
    pub out: Vec<u32>,
}
pub struct BadStream {
    pub state: St,
    pub limited: bool,
    pub track: bool,
    pub exhausted: bool,
    pub pending: Vec<u32>,
    pub out: Vec<u32>,
}
macro_rules! machine {
    ($t:ident, $fill_empty:expr) => {
        impl $t {
            fn is_limited(&self) -> bool {
                self.limited
            }
            pub fn poll(&mut self) -> Option<u32> {
                loop {
                    match self.state {
                        St::Fill => self.handle_fill(),
                        St::Probe => self.handle_probe(),
                        St::EmitLeft => self.handle_emit_left(),
                        St::EmitGlobal => self.handle_emit_global(),
                        St::Done => return self.handle_done(),
                    }
                }
            }
            fn handle_probe(&mut self) {
                self.out.push(self.pending.len() as u32);
                self.state = St::EmitLeft;
            }
            fn handle_emit_left(&mut self) {
                if !self.exhausted && self.is_limited() {
                    self.state = St::Fill;
                } else if self.is_limited() && self.track {
                    self.state = St::EmitGlobal;
                } else {
                    self.state = St::Done;
                }
            }
            fn handle_emit_global(&mut self) {
                self.out.push(99);
                self.state = St::Done;
            }
            fn handle_done(&mut self) -> Option<u32> {
                self.out.pop()
            }
        }
    };
}
machine!(GoodStream, false);
machine!(BadStream, true);
impl GoodStream {
    /// correct: an empty refill still owes the global emission
    fn handle_fill(&mut self) {
        if self.pending.is_empty() {
            self.exhausted = true;
            if self.is_limited() && self.track {
                self.state = St::EmitGlobal;
            } else {
                self.state = St::Done;
            }
            return;
        }
        self.state = St::Probe;
    }
}
impl BadStream {
    /// seeded: an empty refill jumps straight to Done
    fn handle_fill(&mut self) {
        if self.pending.is_empty() {
            self.exhausted = true;
            self.state = St::Done;
            return;
        }
        self.state = St::Probe;
    }
}
