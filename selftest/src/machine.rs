//! seeded positives/negatives for the finaliser-bypass rule (stream state machines)
pub enum St {
    Fill,
    Probe,
    EmitLeft,
    EmitGlobal,
    Done,
}
pub struct GoodStream {
    pub state: St,
    pub limited: bool,
    pub track: bool,
    pub exhausted: bool,
    pub pending: Vec<u32>,
    pub out: Vec<u32>,
}
pub struct BadStream {
    pub state: St,
    pub limited: bool,
    pub track: bool,
    pub exhausted: bool,
    pub pending: Vec<u32>,
    pub out: Vec<u32>,
}
macro_rules! machine {
    ($t:ident, $fill_empty:expr) => {
        impl $t {
            fn is_limited(&self) -> bool {
                self.limited
            }
            pub fn poll(&mut self) -> Option<u32> {
                loop {
                    match self.state {
                        St::Fill => self.handle_fill(),
                        St::Probe => self.handle_probe(),
                        St::EmitLeft => self.handle_emit_left(),
                        St::EmitGlobal => self.handle_emit_global(),
                        St::Done => return self.handle_done(),
                    }
                }
            }
            fn handle_probe(&mut self) {
                self.out.push(self.pending.len() as u32);
                self.state = St::EmitLeft;
            }
            fn handle_emit_left(&mut self) {
                if !self.exhausted && self.is_limited() {
                    self.state = St::Fill;
                } else if self.is_limited() && self.track {
                    self.state = St::EmitGlobal;
                } else {
                    self.state = St::Done;
                }
            }
            fn handle_emit_global(&mut self) {
                self.out.push(99);
                self.state = St::Done;
            }
            fn handle_done(&mut self) -> Option<u32> {
                self.out.pop()
            }
        }
    };
}
machine!(GoodStream, false);
machine!(BadStream, true);
impl GoodStream {
    /// correct: an empty refill still owes the global emission
    fn handle_fill(&mut self) {
        if self.pending.is_empty() {
            self.exhausted = true;
            if self.is_limited() && self.track {
                self.state = St::EmitGlobal;
            } else {
                self.state = St::Done;
            }
            return;
        }
        self.state = St::Probe;
    }
}
impl BadStream {
    /// seeded: an empty refill jumps straight to Done
    fn handle_fill(&mut self) {
        if self.pending.is_empty() {
            self.exhausted = true;
            self.state = St::Done;
            return;
        }
        self.state = St::Probe;
    }
}

/// negative (a false alarm the thorough tier once raised on HashJoinStream): the only literal common to the entries of the finaliser state
/// `Exhausted` is one the dispatcher establishes before EVERY handler call ("the output buffer is not finished"); it is not the condition
/// under which the finalisation is owed, so the limit-reached jump Process -> Finished is not a bypass.
pub enum Ls {
    Build,
    Fetch,
    Process,
    Exhausted,
    Finished,
}
pub struct LimitStream {
    pub state: Ls,
    pub finished: bool,
    pub limit_hit: bool,
    pub input: Vec<u32>,
    pub out: Vec<u32>,
}
impl LimitStream {
    fn buffer_finished(&self) -> bool {
        self.finished
    }
    fn after_build(&self) -> Ls {
        if self.input.is_empty() { Ls::Exhausted } else { Ls::Fetch }
    }
    pub fn poll(&mut self) -> Option<u32> {
        loop {
            if self.buffer_finished() {
                return None;
            }
            match self.state {
                Ls::Build => self.handle_build(),
                Ls::Fetch => self.handle_fetch(),
                Ls::Process => self.handle_process(),
                Ls::Exhausted => self.handle_exhausted(),
                Ls::Finished => return self.out.pop(),
            }
        }
    }
    /// the successor is computed by a helper: Build is not a terminal state
    fn handle_build(&mut self) {
        self.state = self.after_build();
    }
    fn handle_fetch(&mut self) {
        if self.input.pop().is_none() {
            self.state = Ls::Exhausted;
        } else {
            self.state = Ls::Process;
        }
    }
    fn handle_process(&mut self) {
        self.out.push(1);
        if self.limit_hit {
            self.state = Ls::Finished;
            return;
        }
        self.state = Ls::Fetch;
    }
    fn handle_exhausted(&mut self) {
        self.out.push(99);
        self.state = Ls::Finished;
    }
}
