//! seeded wire enum with a wrong decoder
use crate::domjt::DomJt;
#[derive(Clone, Copy, PartialEq, Eq, Debug)]
pub enum WireJt { Inner = 0, LeftMark = 1, RightMark = 2 }
impl From<DomJt> for WireJt {
    fn from(v: DomJt) -> Self { match v { DomJt::Inner => WireJt::Inner, DomJt::LeftMark => WireJt::LeftMark, DomJt::RightMark => WireJt::RightMark } }
}
/// seeded: RightMark decodes to LeftMark
impl From<WireJt> for DomJt {
    fn from(v: WireJt) -> Self { match v { WireJt::Inner => DomJt::Inner, WireJt::LeftMark => DomJt::LeftMark, WireJt::RightMark => DomJt::LeftMark } }
}
